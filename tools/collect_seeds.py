#!/usr/bin/env python3
"""Confirm each candidate seeded change on the *current* /repo HEAD in its own scratch worktree (outside /repo and /verif) and keep it
under /verif/seeded/<id>/ only if: the patch applies, the 222 baseline tests still pass with it, the demonstration fails with it and
passes without it.  usage: collect_seeds.py <candidates dir> [ids...]"""
import json, os, shutil, subprocess, sys
from concurrent.futures import ThreadPoolExecutor

SRC = sys.argv[1]
ONLY = sys.argv[2:]
OUT = '/verif/seeded'
PY = '/venv/bin/python'

def sh(cmd, cwd=None, env=None, timeout=900):
    e = dict(os.environ)
    e.update(env or {})
    return subprocess.run(cmd, shell=True, cwd=cwd, env=e, capture_output=True, text=True, timeout=timeout)

def one(rel):
    d = os.path.join(SRC, rel)
    sid = rel.replace('/', '_')
    wt = '/tmp/seedwt_' + sid
    res = {'id': sid}
    try:
        sh('git -C /repo worktree remove --force %s' % wt)
        r = sh('git -C /repo worktree add --detach %s HEAD' % wt)
        if r.returncode:
            res['status'] = 'worktree-failed: ' + r.stderr[-200:]; return res
        patch = os.path.join(d, 'patch.diff')
        r = sh('git apply --3way %s' % patch, cwd=wt)
        if r.returncode:
            r = sh('git apply %s' % patch, cwd=wt)
        if r.returncode:
            res['status'] = 'needs-rebase'; res['detail'] = r.stderr.strip()[-300:]; return res
        env = {'PYTHONPATH': wt}
        t = sh('%s -m pytest -q -p no:cacheprovider -x tests --ignore=tests/test_visualization.py' % PY, cwd=wt, env=env)
        res['tests_with_change'] = t.stdout.strip().splitlines()[-1] if t.stdout.strip() else t.stderr[-200:]
        if '222 passed' not in res['tests_with_change']:
            res['status'] = 'tests-fail-with-change'; return res
        dm = sh('%s %s' % (PY, os.path.join(d, 'demo.py')), cwd=wt, env=env)
        res['demo_with_change_rc'] = dm.returncode
        res['demo_with_change_tail'] = (dm.stderr or dm.stdout).strip().splitlines()[-1][:300] if (dm.stderr or dm.stdout).strip() else ''
        diff = sh('git diff HEAD', cwd=wt).stdout
        sh('git checkout -- . && git reset -q --hard HEAD', cwd=wt)
        dm0 = sh('%s %s' % (PY, os.path.join(d, 'demo.py')), cwd=wt, env=env)
        res['demo_without_change_rc'] = dm0.returncode
        if dm0.returncode != 0:
            res['demo_without_tail'] = (dm0.stderr or dm0.stdout).strip().splitlines()[-1][:300]
        if dm.returncode != 0 and dm0.returncode == 0:
            res['status'] = 'confirmed'
            od = os.path.join(OUT, sid)
            os.makedirs(od, exist_ok=True)
            open(os.path.join(od, 'patch.diff'), 'w').write(diff)
            shutil.copy(os.path.join(d, 'demo.py'), os.path.join(od, 'demo.py'))
            meta = json.load(open(os.path.join(d, 'meta.json'))) if os.path.exists(os.path.join(d, 'meta.json')) else {}
            meta.update({'id': sid, 'confirmed_on_repo_head': sh('git -C /repo log --format=%h -1').stdout.strip(),
                         'what_was_run': ['git apply patch.diff in a scratch worktree of /repo HEAD',
                                          'pytest tests (222 passed with the change)', 'demo.py with the change -> exit %d (%s)' % (dm.returncode, res['demo_with_change_tail']),
                                          'demo.py without the change -> exit 0']})
            json.dump(meta, open(os.path.join(od, 'meta.json'), 'w'), indent=1)
        else:
            res['status'] = 'demo-not-discriminating'
        return res
    except Exception as ex:
        res['status'] = 'error: %r' % ex
        return res
    finally:
        sh('git -C /repo worktree remove --force %s' % wt)

rels = sorted(os.path.relpath(os.path.dirname(p), SRC) for p in __import__('glob').glob(os.path.join(SRC, '*', '*', 'patch.diff'))
              if os.path.exists(os.path.join(os.path.dirname(p), 'demo.py')))      # (directories with an equiv.py are benign refactorings: collect_benign.py)
if ONLY:
    rels = [r for r in rels if any(r == o or r.startswith(o + '/') for o in ONLY)]
with ThreadPoolExecutor(8) as ex:
    out = list(ex.map(one, rels))
for r in out:
    print('%-10s %-26s %s' % (r['id'], r.get('status'), r.get('detail', r.get('demo_without_tail', ''))[:120]))
json.dump(out, open('/tmp/collect_seeds_result.json', 'w'), indent=1)
