#!/usr/bin/env python3
"""Apply each seeded change to /repo, run the property's check (quick or thorough), undo. Never leaves /repo dirty.
usage: tools/seedtest.py [--dir /verif/seeded] [--tier quick] [--all-checks] [ids...]   (id = C05/m1 or C05)"""
import argparse, glob, json, os, subprocess, sys

def sh(cmd, **kw):
    return subprocess.run(cmd, shell=True, capture_output=True, text=True, **kw)

def main():
    ap = argparse.ArgumentParser()
    ap.add_argument('--dir', default='/verif/seeded')
    ap.add_argument('--tier', default='quick')
    ap.add_argument('--all-checks', action='store_true')
    ap.add_argument('ids', nargs='*')
    a = ap.parse_args()
    if sh('git -C /repo status --porcelain').stdout.strip():
        print('refusing: /repo is dirty'); return 2
    patches = sorted(glob.glob(os.path.join(a.dir, '*', '*', 'patch.diff')) + glob.glob(os.path.join(a.dir, '*', 'patch.diff')))
    rows = []
    for p in patches:
        rel = os.path.relpath(os.path.dirname(p), a.dir)
        if a.ids and not any(rel == i or rel.startswith(i + '/') or rel.startswith(i + '_') for i in a.ids):
            continue
        meta = {}
        mp = os.path.join(os.path.dirname(p), 'meta.json')
        if os.path.exists(mp):
            meta = json.load(open(mp))
        pid = meta.get('property', rel[:3])
        try:
            r = sh('git -C /repo apply --3way %s' % p)
            if r.returncode != 0:
                r = sh('git -C /repo apply %s' % p)
            if r.returncode != 0:
                rows.append((rel, pid, 'APPLY-FAILED', r.stderr.strip()[:100])); continue
            pids = ['C%02d' % i for i in range(1, 21)] if a.all_checks else [pid]
            hits = []
            for q in pids:
                if not os.path.exists('/verif/sa/checks/%s.py' % q.lower()):
                    continue
                rr = sh('cd /verif && python3-vt -m sa.run %s --tier %s --no-evidence' % (q, a.tier))
                if rr.returncode != 0:
                    rules = sorted({l.split('rule=')[1].split(' ')[0] for l in rr.stdout.splitlines() if l.strip().startswith('rule=')})
                    hits.append('%s:exit%d:%s' % (q, rr.returncode, ','.join(rules)))
            rows.append((rel, pid, 'CAUGHT' if hits else 'missed', ' '.join(hits)))
        finally:
            sh('git -C /repo reset -q --hard HEAD')
    for r in rows:
        print('%-12s %-4s %-12s %s' % r)
    print('caught %d / %d' % (sum(1 for r in rows if r[2] == 'CAUGHT'), len(rows)))

if __name__ == '__main__':
    sys.exit(main())
