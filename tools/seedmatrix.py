#!/usr/bin/env python3
"""Every seeded change against every check, in memory (the patch is applied to an overlay of /repo's files, /repo is not touched),
16 processes.  Prints one line per seed in the format tools/update_metas.py reads.
usage: python3-vt tools/seedmatrix.py [id-prefix ...] > results.txt"""
import glob, json, os, sys
sys.path.insert(0, '/verif')
from multiprocessing import Pool

PIDS = ['C%02d' % i for i in range(1, 21)]


def task(a):
    sid, pid = a
    from sa import selftest
    read = selftest.repo_reader('/repo')
    try:
        ov = selftest.apply_patch(open('/verif/seeded/%s/patch.diff' % sid).read(), read)
    except ValueError as ex:
        return sid, pid, 'nopatch', []
    fresh, errors, run = selftest.run_check(pid, ov)
    if fresh:
        return sid, pid, 'exit1', sorted({o.rule for o in fresh})
    if errors:
        return sid, pid, 'exit2', []
    return sid, pid, 'exit0', []


if __name__ == '__main__':
    want = sys.argv[1:]
    sids = sorted(os.path.basename(os.path.dirname(p)) for p in glob.glob('/verif/seeded/*/meta.json'))
    if want:
        sids = [s for s in sids if any(s.startswith(w) for w in want)]
    jobs = [(s, p) for s in sids for p in PIDS]
    res = {}
    with Pool(16) as pool:
        for sid, pid, ex, rules in pool.imap_unordered(task, jobs, chunksize=4):
            res.setdefault(sid, {})[pid] = (ex, rules)
    caught = 0
    for sid in sids:
        own = json.load(open('/verif/seeded/%s/meta.json' % sid))['property']
        hits = ['%s:%s:%s' % (p, ex, ','.join(r)) for p, (ex, r) in sorted(res[sid].items()) if ex in ('exit1', 'exit2')]
        ok = res[sid][own][0] == 'exit1'
        caught += ok
        print('%-12s %s  %-12s %s' % (sid, own, 'CAUGHT' if ok else 'missed', ' '.join(hits)))
    print('caught by the owning check %d / %d' % (caught, len(sids)))
