#!/bin/sh
# run every registered quick check against /repo, rewrite evidence, summarise
cd /verif
python3-vt -m sa.manifest_gen
rc=0
for id in $(python3 -c "import json;print(' '.join(c['property_id'] for c in json.load(open('MANIFEST.json'))['checks']))"); do
  out=$(python3-vt -m sa.run $id --tier ${1:-quick} 2>&1); r=$?
  echo "$out" | tail -1
  [ $r -ne 0 ] && { rc=1; echo "$out" | grep -E "VIOLATION|ANALYSIS-ERROR|rule=|Traceback" | head -20; }
done
python3-vt - <<'PY'
import json, glob, jsonschema
s = json.load(open('/root/.vp/EVIDENCE.schema.json'))
for f in sorted(glob.glob('/verif/evidence/C*.json')):
    jsonschema.validate(json.load(open(f)), s)
jsonschema.validate(json.load(open('/verif/MANIFEST.json')), json.load(open('/root/.vp/MANIFEST.schema.json')))
print('evidence + manifest schema-valid')
PY
exit $rc
