#!/usr/bin/env python3
"""Confirm each candidate benign twin (the correct version of a seeded refactoring) on the current /repo HEAD in its own scratch
worktree and keep it as /verif/benign/twin_<id>.diff only if: the patch applies, the 222 baseline tests pass with it, and the
demonstration of the seeded change it is the twin of passes with it (as it does on the unchanged tree).
usage: collect_twins.py <candidates dir>   (layout <dir>/<Cxx>/<id>/twin.diff + demo.py)"""
import glob, json, os, shutil, subprocess, sys
from concurrent.futures import ThreadPoolExecutor

SRC = sys.argv[1]
OUT = '/verif/benign'
PY = '/venv/bin/python'


def sh(cmd, cwd=None, env=None, timeout=900):
    e = dict(os.environ)
    e.update(env or {})
    return subprocess.run(cmd, shell=True, cwd=cwd, env=e, capture_output=True, text=True, timeout=timeout)


def one(d):
    sid = os.path.basename(d)
    wt = '/tmp/twinwt_' + sid
    res = {'id': sid}
    tw = os.path.join(d, 'twin.diff')
    if not os.path.exists(tw) or not open(tw).read().strip():
        res['status'] = 'no twin' + (': ' + open(os.path.join(d, 'no_twin.txt')).read().strip()[:120] if os.path.exists(os.path.join(d, 'no_twin.txt')) else '')
        return res
    try:
        sh('git -C /repo worktree remove --force %s' % wt)
        r = sh('git -C /repo worktree add --detach %s HEAD' % wt)
        if r.returncode:
            res['status'] = 'worktree-failed'; return res
        r = sh('git apply %s' % tw, cwd=wt)
        if r.returncode:
            res['status'] = 'does-not-apply: ' + r.stderr.strip()[-160:]; return res
        env = {'PYTHONPATH': wt}
        t = sh('%s -m pytest -q -p no:cacheprovider -x tests --ignore=tests/test_visualization.py' % PY, cwd=wt, env=env)
        last = t.stdout.strip().splitlines()[-1] if t.stdout.strip() else t.stderr[-200:]
        if '222 passed' not in last:
            res['status'] = 'tests-fail: ' + last[:120]; return res
        dm = sh('%s %s' % (PY, os.path.join(d, 'demo.py')), cwd=wt, env=env)
        if dm.returncode != 0:
            res['status'] = 'demo-fails-with-twin: ' + ((dm.stderr or dm.stdout).strip().splitlines() or [''])[-1][:160]; return res
        diff = sh('git diff HEAD', cwd=wt).stdout
        os.makedirs(OUT, exist_ok=True)
        open(os.path.join(OUT, 'twin_%s.diff' % sid), 'w').write(diff)
        res['status'] = 'confirmed'
    finally:
        sh('git -C /repo worktree remove --force %s' % wt)
    return res


if __name__ == '__main__':
    dirs = sorted(d for d in glob.glob(os.path.join(SRC, 'C*', 'C*_*')) if os.path.isdir(d))
    with ThreadPoolExecutor(8) as ex:
        for r in ex.map(one, dirs):
            print('%-10s %s' % (r['id'], r['status']))
