#!/usr/bin/env python3
"""Every benign diff under /verif/benign against every check, in memory, 16 processes: each must leave every check silent (no
violation, no analysis error).  usage: python3-vt tools/twinmatrix.py [name-prefix ...]"""
import glob, os, sys
sys.path.insert(0, '/verif')
from multiprocessing import Pool
PIDS = ['C%02d' % i for i in range(1, 21)]


def task(a):
    path, pid = a
    from sa import selftest
    read = selftest.repo_reader('/repo')
    try:
        ov = selftest.apply_patch(open(path).read(), read)
    except ValueError as ex:
        return path, pid, 'nopatch', str(ex)[:80]
    fresh, errors, run = selftest.run_check(pid, ov)
    if fresh:
        return path, pid, 'ALARM', '; '.join('%s :: %s' % (o.rule, o.key[:60]) for o in fresh[:3])
    if errors:
        return path, pid, 'error', errors[0][:160]
    return path, pid, 'silent', ''


if __name__ == '__main__':
    want = sys.argv[1:]
    files = sorted(glob.glob('/verif/benign/*.diff'))
    if want:
        files = [f for f in files if any(os.path.basename(f).startswith(w) for w in want)]
    jobs = [(f, p) for f in files for p in PIDS]
    bad = 0
    with Pool(16) as pool:
        for path, pid, verdict, info in pool.imap_unordered(task, jobs, chunksize=4):
            if verdict != 'silent':
                bad += 1
                print('%-34s %s %-6s %s' % (os.path.basename(path), pid, verdict, info))
    print('%d benign diffs x %d checks: %d not silent' % (len(files), len(PIDS), bad))
