#!/usr/bin/env python3
"""Confirm each candidate behaviour-preserving refactoring on the current /repo HEAD in its own scratch worktree (outside /repo and
/verif) and keep it as /verif/benign/<prefix>_<Cxx>_<k>.diff only if: the patch applies, the 222 baseline tests pass with it, and its
equivalence transcript (equiv.py: exercises the refactored functions, prints results and exception types) is byte-identical with and
without the patch and exits 0 both times.
usage: collect_benign.py <candidates dir> <prefix>   (layout <dir>/<Cxx>/<k>/{patch.diff, equiv.py})"""
import glob, json, os, subprocess, sys
from concurrent.futures import ThreadPoolExecutor

SRC, PREFIX = sys.argv[1], sys.argv[2]
ONLY = sys.argv[3:]
OUT = '/verif/benign'
PY = '/venv/bin/python'


def sh(cmd, cwd=None, env=None, timeout=1200):
    e = dict(os.environ)
    e.update(env or {})
    return subprocess.run(cmd, shell=True, cwd=cwd, env=e, capture_output=True, text=True, timeout=timeout)


def one(d):
    rel = os.path.relpath(d, SRC).replace('/', '_')
    wt = '/tmp/benwt_' + rel
    res = {'id': rel}
    try:
        sh('git -C /repo worktree remove --force %s' % wt)
        if sh('git -C /repo worktree add --detach %s HEAD' % wt).returncode:
            res['status'] = 'worktree-failed'; return res
        env = {'PYTHONPATH': wt}
        eq = os.path.join(d, 'equiv.py')
        base = sh('%s %s' % (PY, eq), cwd=wt, env=env)
        if base.returncode != 0:
            res['status'] = 'equiv-fails-on-unchanged-tree: ' + (base.stderr.strip().splitlines() or [''])[-1][:140]; return res
        r = sh('git apply %s' % os.path.join(d, 'patch.diff'), cwd=wt)
        if r.returncode:
            res['status'] = 'does-not-apply: ' + r.stderr.strip()[-160:]; return res
        t = sh('%s -m pytest -q -p no:cacheprovider -x tests --ignore=tests/test_visualization.py' % PY, cwd=wt, env=env)
        last = t.stdout.strip().splitlines()[-1] if t.stdout.strip() else t.stderr[-200:]
        if '222 passed' not in last:
            res['status'] = 'tests-fail: ' + last[:120]; return res
        new = sh('%s %s' % (PY, eq), cwd=wt, env=env)
        if new.returncode != 0 or new.stdout != base.stdout:
            res['status'] = 'transcript-differs' if new.returncode == 0 else 'equiv-fails-with-patch'
            return res
        diff = sh('git diff HEAD', cwd=wt).stdout
        os.makedirs(OUT, exist_ok=True)
        open(os.path.join(OUT, '%s_%s.diff' % (PREFIX, rel)), 'w').write(diff)
        res['status'] = 'confirmed'
        res['transcript_bytes'] = len(base.stdout)
    except Exception as ex:
        res['status'] = 'error: %r' % ex
    finally:
        sh('git -C /repo worktree remove --force %s' % wt)
    return res


dirs = sorted(os.path.dirname(p) for p in glob.glob(os.path.join(SRC, '*', '*', 'equiv.py')) if os.path.exists(os.path.join(os.path.dirname(p), 'patch.diff')))
if ONLY:
    dirs = [d for d in dirs if any(os.path.relpath(d, SRC).startswith(o + '/') or os.path.relpath(d, SRC) == o for o in ONLY)]
with ThreadPoolExecutor(8) as ex:
    out = list(ex.map(one, dirs))
for r in out:
    print('%-12s %s' % (r['id'], r['status']))
json.dump(out, open('/tmp/collect_benign_result.json', 'w'), indent=1)
