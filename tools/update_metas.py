#!/usr/bin/env python3
"""Record in every /verif/seeded/<id>/meta.json which checks report the change (exit 1 only) and by which rules, from a
tools/seedtest.py --all-checks result file.  usage: tools/update_metas.py <results.txt>"""
import json, os, re, sys
rows = {}
for line in open(sys.argv[1]):
    parts = line.split()
    if len(parts) < 3 or not re.match(r'C\d\d_[mnrqstvw]\d', parts[0]):
        continue
    sid, pid, verdict = parts[0], parts[1], parts[2]
    hits = {}
    errs = []
    for h in parts[3:]:
        q, ex, rules = (h.split(':') + ['', ''])[:3]
        if ex == 'exit1':
            hits[q] = [r for r in rules.split(',') if r]
        elif ex == 'exit2':
            errs.append(q)
    rows[sid] = (pid, hits, errs)
for sid, (pid, hits, errs) in sorted(rows.items()):
    mp = os.path.join('/verif/seeded', sid, 'meta.json')
    if not os.path.exists(mp):
        continue
    m = json.load(open(mp))
    m['property'] = pid
    m['caught_by'] = sorted(hits)
    m['caught_rules'] = hits
    if errs:
        m['analysis_error_in'] = errs
    else:
        m.pop('analysis_error_in', None)
    if hits:
        m.pop('not_reachable_for', None)
        m.pop('why_not_caught', None)
    else:
        m['not_reachable_for'] = [pid]
        m.setdefault('why_not_caught', 'the change alters only computed floating-point values (numerical): out of reach of static analysis, see DESIGN.md 10.3')
    json.dump(m, open(mp, 'w'), indent=1)
print(len(rows), 'metas updated')
