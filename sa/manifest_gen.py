"""Regenerates /verif/MANIFEST.json from the check modules (keeps it valid at all times)."""
import importlib
import json
import os

VERIF = os.path.dirname(os.path.dirname(os.path.abspath(__file__)))
ALL = ['C%02d' % i for i in range(1, 21)]


def main():
    checks, na = [], []
    for pid in ALL:
        path = os.path.join(VERIF, 'sa', 'checks', pid.lower() + '.py')
        if not os.path.exists(path):
            na.append({'property_id': pid, 'reason': 'check not built yet in this round (planned: see DESIGN.md section 4)'})
            continue
        mod = importlib.import_module('sa.checks.' + pid.lower())
        if getattr(mod, 'NOT_APPLICABLE', None):
            na.append({'property_id': pid, 'reason': mod.NOT_APPLICABLE})
            continue
        checks.append({
            'property_id': pid,
            'quick_cmd': 'python3-vt -m sa.run %s --tier quick' % pid,
            'thorough_cmd': 'python3-vt -m sa.run %s --tier thorough' % pid,
            'evidence_file': '/verif/evidence/%s.json' % pid,
            'replay_cmd_template': 'python3-vt -m sa.run %s --replay {path}' % pid,
            'engine': 'sa',
            'level_claimed': {
                'category': 'other',
                'text': 'Rule-based static decision (ast, CFG, dataflow, normal forms) of the structural clauses of the property, '
                        'for every path / every history / every symbolic size as stated per rule. Decides: ' + mod.DECIDES,
                'design_ref': 'DESIGN.md section 4 / ' + pid,
            },
            'level_note': 'NOT decided (out of reach of static analysis, stated plainly): ' + mod.NOT_DECIDED +
                          ' Trusted base: python ast parser; frozen idiom/exception tables in sa/checks/%s.py.' % pid.lower(),
            'technique': getattr(mod, 'TECHNIQUE', 'static analysis: custom ast/CFG/dataflow rules'),
        })
    man = {
        'version': 1,
        'setup_cmd': 'python3-vt -m sa.setup',
        'hooks': {'guard': 'GEOMDL_VERIF', 'enable': 'none needed: the checks read the source, no instrumentation exists',
                  'baseline_off_cmd': 'cd /repo && /venv/bin/python -m pytest -ra -q -p no:cacheprovider --timeout=900 --continue-on-collection-errors',
                  'source_commits': [], 'add_only': True},
        'engines': [{'name': 'sa', 'path': '/verif/sa', 'serves_properties': [c['property_id'] for c in checks],
                     'kind_free_text': 'repository-specific static analysis over python ast: class/MRO model, statement CFG with '
                                       'path queries, typestate dataflow, polynomial normal forms, axis/layout abstract domains'}],
        'checks': checks,
        'not_applicable': na,
        'notes': 'All checks are static: they parse /repo/geomdl on every run and never import or execute it. '
                 'Exit 2 (ANALYSIS-ERROR) means the analysis itself is broken (anchor vanished, unknown idiom), never a verdict.',
    }
    with open(os.path.join(VERIF, 'MANIFEST.json'), 'w') as f:
        json.dump(man, f, indent=1)
    print('MANIFEST.json: %d checks, %d not_applicable' % (len(checks), len(na)))


if __name__ == '__main__':
    main()
