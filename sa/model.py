"""MODEL: parsed program model of /repo/geomdl (ast only; repository code is never imported or run).

Tables: modules, import aliases, classes (+MRO), functions by qualified name (property accessors
distinguished by kind), module-level aliases, parent links, normalised construct text.
An in-memory overlay {relative path: source} lets engines analyse variants without touching disk.
"""
import ast
import os
import hashlib

REPO = os.environ.get('SA_REPO', '/repo')
PKG = 'geomdl'


class AnalysisError(Exception):
    """Anchor vanished / idiom unknown / floor not met: the run is analysis-broken (exit 2)."""


class FuncInfo(object):
    __slots__ = ('mod', 'qual', 'node', 'cls', 'kind', 'name', 'outer')

    def __init__(self, mod, qual, node, cls=None, kind='function', outer=None):
        self.mod, self.qual, self.node, self.cls, self.kind = mod, qual, node, cls, kind
        self.name = node.name
        self.outer = outer

    @property
    def key(self):
        k = self.mod + '.' + self.qual
        if self.kind in ('setter', 'deleter'):
            k += '#' + self.kind
        return k

    def __repr__(self):
        return '<Func %s>' % self.key


class ClassInfo(object):
    def __init__(self, mod, node):
        self.mod, self.node, self.name = mod, node, node.name
        self.bases = []          # resolved (mod, name) keys, filled by Model
        self.raw_bases = node.bases
        self.methods, self.getters, self.setters, self.deleters = {}, {}, {}, {}
        self.class_attrs = {}    # name -> value node

    @property
    def key(self):
        return (self.mod, self.name)

    def __repr__(self):
        return '<Class %s.%s>' % (self.mod, self.name)


def func_kind(node):
    for d in node.decorator_list:
        if isinstance(d, ast.Name) and d.id == 'property':
            return 'getter'
        if isinstance(d, ast.Attribute) and d.attr in ('setter', 'deleter', 'getter'):
            return d.attr
    return 'method'


def norm(node):
    """Normalised text of a construct: unparse drops comments, spacing, line breaks, quoting style."""
    if node is None:
        return ''
    if isinstance(node, str):
        return node
    try:
        s = ast.unparse(node)
    except Exception:
        s = ast.dump(node)
    return ' '.join(s.split())


def first_line(node, n=140):
    s = norm(node)
    if isinstance(node, (ast.If, ast.For, ast.While, ast.With, ast.Try, ast.FunctionDef, ast.ClassDef)):
        s = s.split(':')[0] + ':'
    return s[:n]


class Model(object):
    def __init__(self, repo=None, overlay=None, subpackages=('visualization',)):
        self.repo = repo or REPO
        self.root = os.path.join(self.repo, PKG)
        self.overlay = overlay or {}
        self.src, self.tree = {}, {}
        self.imports = {}       # mod -> {local: ('mod', modname) | ('obj', modname, objname) | ('ext', dotted)}
        self.funcs = {}         # key -> FuncInfo
        self.modfuncs = {}      # (mod, name) -> FuncInfo   (module-level functions incl. aliases)
        self.classes = {}       # (mod, name) -> ClassInfo
        self.modassign = {}     # (mod, name) -> value node  (module-level simple assignments)
        self.sub = {}           # submodule trees (visualization.*), parsed for who-may-write rules only
        self._load(subpackages)
        self._index()
        self._positionalise()

    def _positionalise(self):
        """second canonical spelling, needs resolved callees: in a call of a module-level package function, keyword arguments that name
        the next positional parameters are moved into their positions (f(a, knot_vector=k, num=n) -> f(a, k, num=n) when the third
        parameter is not `num`); keywords that land in the callee's **kwargs, or that would leave a gap, stay"""
        for mod, t in self.tree.items():
            for call in [n for n in ast.walk(t) if isinstance(n, ast.Call) and n.keywords]:
                if any(isinstance(a, ast.Starred) for a in call.args):
                    continue
                try:
                    fi = self.resolve_callable(mod, call.func)
                except Exception:
                    fi = None
                if fi is None or fi.kind != 'function' or fi.node.args.vararg is not None:
                    continue
                ps = [a.arg for a in fi.node.args.args]
                kws = {k.arg: k for k in call.keywords if k.arg is not None}
                moved = False
                while len(call.args) < len(ps) and ps[len(call.args)] in kws:
                    k = kws.pop(ps[len(call.args)])
                    k.value._sa_parent = call
                    call.args.append(k.value)
                    call.keywords.remove(k)
                    moved = True
                if moved:
                    ast.fix_missing_locations(call)

    # ------------------------------------------------------------------ loading
    def _read(self, rel):
        if rel in self.overlay:
            return self.overlay[rel]
        with open(os.path.join(self.repo, rel), encoding='utf-8') as f:
            return f.read()

    def _load(self, subpackages):
        if not os.path.isdir(self.root):
            raise AnalysisError('package directory %s not found' % self.root)
        names = sorted(f for f in os.listdir(self.root) if f.endswith('.py'))
        for rel in self.overlay:
            d, f = os.path.split(rel)
            if d == PKG and f.endswith('.py') and f not in names:
                names.append(f)
        for f in names:
            mod = f[:-3]
            rel = PKG + '/' + f
            text = self._read(rel)
            self.src[mod] = text
            try:
                t = ast.parse(text, filename=rel)
            except SyntaxError as ex:
                raise AnalysisError('cannot parse %s: %s' % (rel, ex))
            t = canonicalise(t)
            self._link(t, mod)
            self.tree[mod] = t
        for sp in subpackages:
            d = os.path.join(self.root, sp)
            if os.path.isdir(d):
                for f in sorted(os.listdir(d)):
                    if f.endswith('.py'):
                        rel = '%s/%s/%s' % (PKG, sp, f)
                        try:
                            t = ast.parse(self._read(rel), filename=rel)
                        except SyntaxError as ex:
                            raise AnalysisError('cannot parse %s: %s' % (rel, ex))
                        self._link(t, sp + '.' + f[:-3])
                        self.sub[sp + '.' + f[:-3]] = t

    @staticmethod
    def _link(tree, mod):
        tree._sa_mod = mod
        for parent in ast.walk(tree):
            for child in ast.iter_child_nodes(parent):
                child._sa_parent = parent
        tree._sa_parent = None

    def digest(self):
        h = hashlib.sha256()
        for m in sorted(self.src):
            h.update(m.encode())
            h.update(self.src[m].encode())
        return h.hexdigest()[:16]

    # ------------------------------------------------------------------ indexing
    def _index(self):
        for mod, t in self.tree.items():
            imp = {}
            for n in t.body:
                self._collect_imports(n, imp)
                if isinstance(n, ast.Try):
                    for b in n.body + [x for h in n.handlers for x in h.body]:
                        self._collect_imports(b, imp)
            self.imports[mod] = imp
        for mod, t in self.tree.items():
            for n in t.body:
                if isinstance(n, ast.FunctionDef):
                    self._add_func(mod, n.name, n, None, 'function')
                elif isinstance(n, ast.ClassDef):
                    self._add_class(mod, n)
                elif isinstance(n, ast.Assign) and len(n.targets) == 1 and isinstance(n.targets[0], ast.Name):
                    self.modassign[(mod, n.targets[0].id)] = n.value
        # module-level aliases  name = other_function
        for (mod, name), val in list(self.modassign.items()):
            fi = self.resolve_callable(mod, val)
            if fi is not None:
                self.modfuncs[(mod, name)] = fi
        for ci in self.classes.values():
            for b in ci.raw_bases:
                k = self._resolve_class_expr(ci.mod, b)
                if k is not None:
                    ci.bases.append(k)

    def _collect_imports(self, n, imp):
        if isinstance(n, ast.ImportFrom):
            base = n.module or ''
            if n.level >= 1:
                for a in n.names:
                    local = a.asname or a.name
                    if base == '':
                        imp[local] = ('mod', a.name)
                    else:
                        imp[local] = ('obj', base, a.name)
            elif base == 'geomdl':
                # absolute spelling of a package-internal import (freeform.py: `from geomdl import abstract`)
                for a in n.names:
                    imp[a.asname or a.name] = ('mod', a.name)
            elif base.startswith('geomdl.'):
                for a in n.names:
                    imp[a.asname or a.name] = ('obj', base[len('geomdl.'):], a.name)
            else:
                for a in n.names:
                    imp[a.asname or a.name] = ('ext', base + '.' + a.name)
        elif isinstance(n, ast.Import):
            for a in n.names:
                imp[a.asname or a.name.split('.')[0]] = ('ext', a.name)

    def _add_func(self, mod, qual, node, cls, kind, outer=None):
        fi = FuncInfo(mod, qual, node, cls, kind, outer)
        self.funcs[fi.key] = fi
        node._sa_func = fi
        if cls is None and outer is None:
            self.modfuncs[(mod, node.name)] = fi
        for sub in ast.walk(node):
            if sub is not node and isinstance(sub, ast.FunctionDef) and self.enclosing_func_node(sub) is node:
                self._add_func(mod, qual + '.<locals>.' + sub.name, sub, cls, 'nested', outer=fi)
        return fi

    def _add_class(self, mod, node):
        ci = ClassInfo(mod, node)
        self.classes[(mod, node.name)] = ci
        for f in node.body:
            if isinstance(f, ast.FunctionDef):
                kind = func_kind(f)
                fi = self._add_func(mod, node.name + '.' + f.name, f, node.name, kind)
                {'method': ci.methods, 'getter': ci.getters, 'setter': ci.setters,
                 'deleter': ci.deleters}[kind][f.name] = fi
            elif isinstance(f, ast.Assign) and len(f.targets) == 1 and isinstance(f.targets[0], ast.Name):
                ci.class_attrs[f.targets[0].id] = f.value
                if isinstance(f.value, ast.Name) and f.value.id in ci.methods:   # append = add
                    ci.methods[f.targets[0].id] = ci.methods[f.value.id]

    @staticmethod
    def enclosing_func_node(node):
        p = getattr(node, '_sa_parent', None)
        while p is not None and not isinstance(p, (ast.FunctionDef, ast.Lambda)):
            p = getattr(p, '_sa_parent', None)
        return p if isinstance(p, ast.FunctionDef) else None

    @staticmethod
    def enclosing_stmt(node):
        p = node
        while p is not None and not isinstance(p, ast.stmt):
            p = getattr(p, '_sa_parent', None)
        return p

    # ------------------------------------------------------------------ resolution
    def module_of_name(self, mod, name):
        """local name in `mod` that denotes a sibling module -> that module's name"""
        e = self.imports.get(mod, {}).get(name)
        if e and e[0] == 'mod' and e[1] in self.tree:
            return e[1]
        return None

    def _resolve_class_expr(self, mod, e):
        if isinstance(e, ast.Attribute) and isinstance(e.value, ast.Name):
            m = self.module_of_name(mod, e.value.id)
            if m and (m, e.attr) in self.classes:
                return (m, e.attr)
        if isinstance(e, ast.Name):
            if (mod, e.id) in self.classes:
                return (mod, e.id)
            imp = self.imports.get(mod, {}).get(e.id)
            if imp and imp[0] == 'obj' and (imp[1], imp[2]) in self.classes:
                return (imp[1], imp[2])
        return None

    def resolve_callable(self, mod, e):
        """expression in module `mod` naming a module-level function -> FuncInfo (follows aliases)"""
        if isinstance(e, ast.Name):
            if (mod, e.id) in self.modfuncs:
                return self.modfuncs[(mod, e.id)]
            imp = self.imports.get(mod, {}).get(e.id)
            if imp and imp[0] == 'obj':
                return self.lookup_modfunc(imp[1], imp[2])
        if isinstance(e, ast.Attribute) and isinstance(e.value, ast.Name):
            m = self.module_of_name(mod, e.value.id)
            if m:
                return self.lookup_modfunc(m, e.attr)
        return None

    def lookup_modfunc(self, mod, name, _depth=0):
        if (mod, name) in self.modfuncs:
            return self.modfuncs[(mod, name)]
        if _depth < 4 and (mod, name) in self.modassign:
            return self.resolve_callable(mod, self.modassign[(mod, name)])
        imp = self.imports.get(mod, {}).get(name)
        if _depth < 4 and imp and imp[0] == 'obj':
            return self.lookup_modfunc(imp[1], imp[2], _depth + 1)
        return None

    def mro(self, key):
        """C3 is not needed: the package uses single inheritance chains only (checked)."""
        out, seen = [], set()

        def rec(k):
            if k in seen or k not in self.classes:
                return
            seen.add(k)
            out.append(k)
            for b in self.classes[k].bases:
                rec(b)
        rec(key)
        return out

    def lookup(self, clskey, name, table='methods', after=None):
        chain = self.mro(clskey)
        if after is not None and after in chain:
            chain = chain[chain.index(after) + 1:]
        for c in chain:
            d = getattr(self.classes[c], table)
            if name in d:
                return d[name]
        return None

    def subclasses(self, key):
        return [k for k in self.classes if key in self.mro(k)]

    def func(self, key):
        """Anchor lookup: vanishing anchors are analysis errors, never silent passes."""
        fi = self.funcs.get(key)
        if fi is None:
            raise AnalysisError('anchor function %s not found in %s' % (key, self.root))
        return fi

    def cls(self, mod, name):
        ci = self.classes.get((mod, name))
        if ci is None:
            raise AnalysisError('anchor class %s.%s not found' % (mod, name))
        return ci

    def functions_in(self, mod):
        return [f for f in self.funcs.values() if f.mod == mod]

    def stats(self):
        return {'modules': len(self.tree), 'functions': len(self.funcs), 'classes': len(self.classes),
                'source_digest': self.digest()}


# ---------------------------------------------------------------------- canonical spelling
class _Canon(ast.NodeTransformer):
    """two behaviour-preserving spellings are folded into one before any rule looks at the tree, so that no rule depends on which
    one the source uses:  `if not c: B else: A`  ->  `if c: A else: B`  (every if with an else arm; `elif` is an else arm holding one if);
    `x = x op e`  ->  `x op= e`  for a plain name x, op in + - *, and a visibly scalar e (a number, or arithmetic over names and
    numbers): list concatenation `l = l + m` is NOT folded, it rebinds where `l += m` mutates in place."""

    def visit_If(self, node):
        self.generic_visit(node)
        if node.orelse and isinstance(node.test, ast.UnaryOp) and isinstance(node.test.op, ast.Not):
            node.test, node.body, node.orelse = node.test.operand, node.orelse, node.body
        return node

    @staticmethod
    def _scalar(e):
        if isinstance(e, ast.Constant):
            return isinstance(e.value, (int, float)) and not isinstance(e.value, bool)
        if isinstance(e, ast.Name):
            return True
        if isinstance(e, ast.BinOp) and isinstance(e.op, (ast.Add, ast.Sub, ast.Mult, ast.Div)):
            return _Canon._scalar(e.left) and _Canon._scalar(e.right)
        if isinstance(e, ast.UnaryOp) and isinstance(e.op, ast.USub):
            return _Canon._scalar(e.operand)
        return False

    def visit_Assign(self, node):
        self.generic_visit(node)
        if len(node.targets) == 1 and isinstance(node.targets[0], ast.Name) and isinstance(node.value, ast.BinOp) \
                and isinstance(node.value.op, (ast.Add, ast.Sub, ast.Mult)) and isinstance(node.value.left, ast.Name) \
                and node.value.left.id == node.targets[0].id and self._scalar(node.value.right) \
                and (isinstance(node.value.right, ast.Constant) or isinstance(node.value.right, ast.BinOp)
                     or (isinstance(node.value.right, ast.Name) and not isinstance(node.value.op, ast.Add))):
            # `x = x + name` stays: with a list-valued name it is concatenation
            return ast.copy_location(ast.AugAssign(target=ast.Name(id=node.targets[0].id, ctx=ast.Store()), op=node.value.op, value=node.value.right), node)
        return node


MIRROR_OP = {ast.Lt: ast.Gt, ast.Gt: ast.Lt, ast.LtE: ast.GtE, ast.GtE: ast.LtE, ast.Eq: ast.Eq, ast.NotEq: ast.NotEq}


def mirror_compare(c):
    """b op' a for a single-operator comparison a op b (same truth value); parent link and position kept"""
    n = ast.copy_location(ast.Compare(left=c.comparators[0], ops=[MIRROR_OP[type(c.ops[0])]()], comparators=[c.left]), c)
    n._sa_parent = getattr(c, '_sa_parent', None)
    return n


def canonicalise(tree):
    return ast.fix_missing_locations(_Canon().visit(tree))


# ---------------------------------------------------------------------- small AST helpers
def walk_no_nested(node):
    """walk a function body without descending into nested function/class definitions"""
    stack = list(ast.iter_child_nodes(node))
    while stack:
        n = stack.pop()
        yield n
        if isinstance(n, (ast.FunctionDef, ast.ClassDef, ast.Lambda)):
            continue
        stack.extend(ast.iter_child_nodes(n))


def is_self_attr(e, attr=None):
    return isinstance(e, ast.Attribute) and isinstance(e.value, ast.Name) and e.value.id == 'self' and \
        (attr is None or e.attr == attr)


def const_value(e, default=None):
    if isinstance(e, ast.Constant):
        return e.value
    if isinstance(e, ast.UnaryOp) and isinstance(e.op, ast.USub) and isinstance(e.operand, ast.Constant):
        return -e.operand.value
    return default


def call_name(call):
    """('mod'|'self'|None, name) for a Call's func"""
    f = call.func
    if isinstance(f, ast.Name):
        return (None, f.id)
    if isinstance(f, ast.Attribute):
        if isinstance(f.value, ast.Name):
            return (f.value.id, f.attr)
        return ('<expr>', f.attr)
    return (None, None)


def kwarg(call, name):
    for k in call.keywords:
        if k.arg == name:
            return k.value
    return None


def params_of(fn):
    a = fn.args
    return [p.arg for p in getattr(a, 'posonlyargs', [])] + [p.arg for p in a.args]
