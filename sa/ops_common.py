"""Rules shared by C04 (insert), C05 (refine), C06 (remove): per-direction blocks of operations.* and the object wrappers."""
import ast
from .model import norm, AnalysisError, walk_no_nested, params_of, mirror_compare, MIRROR_OP
from .cfg import CFG
from .poly import Poly, to_poly, NotPoly
from .alg import Subst
from .axis import suffix_axis, fmt, AXN
from . import rules_axis as ra
from . import rules_layout as rl
from .pure import Purity


def site(fi, node=None):
    return 'geomdl/%s.py:%s in %s' % (fi.mod, getattr(node or fi.node, 'lineno', '?'), fi.key)


def kind_of_block(cfg, node):
    """'Curve' | 'Surface' | 'Volume' from the dominating isinstance(obj, abstract.X) test"""
    for e, pol in cfg.facts_at(cfg.node_of(node)):
        if pol and isinstance(e, ast.Call) and norm(e.func) == 'isinstance' and len(e.args) == 2 and isinstance(e.args[1], ast.Attribute):
            return e.args[1].attr
    return None


def blocks(fi):
    """[(kind, axis k, If node)] : the per-direction blocks  `if isinstance(obj, abstract.K): if <param[k]/num[k] guard>:`"""
    out = []
    for top in fi.node.body:
        if isinstance(top, ast.If) and isinstance(top.test, ast.Call) and norm(top.test.func) == 'isinstance':
            kind = top.test.args[1].attr if isinstance(top.test.args[1], ast.Attribute) else None
            for st in top.body:
                if isinstance(st, ast.If):
                    ks = {x.slice.value for x in ast.walk(st.test) if isinstance(x, ast.Subscript) and isinstance(x.value, ast.Name)
                          and x.value.id in ('param', 'num') and isinstance(x.slice, ast.Constant)}
                    if len(ks) == 1:
                        out.append((kind, next(iter(ks)), st))
    return out


def current_view_rule(m, run, fi):
    """GA1: a local holding a view of the object's control points or a value computed from its sizes (obj.ctrlpts / obj.ctrlptsw /
    obj.ctrlpts_size_u * obj.ctrlpts_size_v ...) is not used after the
    object's net has been replaced by set_ctrlpts: on no path does a use of the local follow a set_ctrlpts call without a
    re-definition in between (the second direction of a multi-direction operation must start from the net the first one produced)"""
    from .cfg import CFG
    cfg = CFG(fi.node)
    obj = params_of(fi.node)[0]
    defs = {}
    for n in walk_no_nested(fi.node):
        if isinstance(n, ast.Assign) and len(n.targets) == 1 and isinstance(n.targets[0], ast.Name):
            if any(isinstance(x, ast.Attribute) and isinstance(x.value, ast.Name) and x.value.id == obj and x.attr.startswith('ctrlpts')
                   for x in ast.walk(n.value)) and not any(isinstance(x, ast.Call) for x in ast.walk(n.value)):
                defs.setdefault(n.targets[0].id, []).append(n)
    setters = [cfg.node_of(c) for c in walk_no_nested(fi.node) if isinstance(c, ast.Call) and isinstance(c.func, ast.Attribute)
               and c.func.attr == 'set_ctrlpts' and norm(c.func.value) == obj]
    setters = [x for x in setters if x is not None]
    n_rule = 0
    for name, ds in sorted(defs.items()):
        all_defs = [cfg.of[d] for d in walk_no_nested(fi.node) if isinstance(d, ast.Assign) and any(isinstance(t, ast.Name) and t.id == name for t in d.targets) and d in cfg.of]
        uses = [u for u in walk_no_nested(fi.node) if isinstance(u, ast.Name) and u.id == name and isinstance(u.ctx, ast.Load)]
        stale = None
        for d in ds:
            dn = cfg.of.get(d)
            if dn is None:
                continue
            after_def = set()
            for sc_, lab in dn.succ:
                after_def |= cfg.reach_from(sc_, skip_nodes=[x for x in all_defs if x is not dn])
            for sn in setters:
                if sn not in after_def:
                    continue
                after_set = set()
                for sc_, lab in sn.succ:
                    after_set |= cfg.reach_from(sc_, skip_nodes=all_defs)
                for u in uses:
                    un = cfg.node_of(u)
                    if un in after_set and un is not sn:
                        stale = (d, sn, u)
        n_rule += 1
        run.ob('GA1.view-is-current', '%s :: %s' % (fi.key, name), stale is None,
               '`%s` is re-read from the object after every set_ctrlpts that precedes a use' % name if stale is None else
               '`%s` (defined at line %d from the object\'s control points / sizes) is still used at line %d after set_ctrlpts at line %d replaced the net: '
               'the later direction works with the net or the sizes from before the earlier direction'
               % (name, stale[0].lineno, stale[2].lineno, stale[1].ast.lineno), site(fi, stale[2] if stale else ds[0]))
    return n_rule


def block_rules(m, run, fi, op):
    """op in {'insert', 'remove', 'refine'}: the spelling-independent decision (OPS2) first; the syntactic rules over symbolic sizes corroborate
    it (and localise a defect when OPS2 fails); the multiplicity guard GD2, which OPS2 does not exercise, always counts"""
    from . import skel_drivers as _sd
    n0 = len(run.obs)
    _sd.ops2(m, run, fi.name, {'insert': 'knot_insertion', 'remove': 'knot_removal', 'refine': 'knot_refinement'}[op], -1 if op == 'remove' else 1)
    run.floor('OPS2.operation-on-abstract-net', 8, 'curve 1, surface 3, volume 4 requests')
    sem_ok = all(o.ok for o in run.obs[n0:])
    with run.corroborating(sem_ok, 'OPS2', rules=('AX3.block-direction', 'LY1.canonical-stride', 'LY3.sizes-in-axis-order', 'LY3.net-grows-on-one-axis',
                                                   'AX1.helper-call-one-axis', 'LY2.gather', 'LY2.scatter', 'LY2.flatten-order', 'GA1.view-is-current')):
        _block_rules_syntactic(m, run, fi, op)
    if op in ('insert', 'remove'):
        n1 = len(run.obs)
        _sd.ops2_guard(m, run, fi.name, {'insert': 'knot_insertion', 'remove': 'knot_removal'}[op], -1 if op == 'remove' else 1)
        g_ok = all(o.ok for o in run.obs[n1:])
        with run.corroborating(g_ok, 'OPS2.multiplicity-limit', rules=('GD2.multiplicity-guard',)):
            guard_rule(m, run, fi, op)


def _block_rules_syntactic(m, run, fi, op):
    current_view_rule(m, run, fi)
    bl = blocks(fi)
    if len(bl) != 6:
        raise AnalysisError('%s: expected 6 per-direction blocks (curve, surface u/v, volume u/v/w), found %d' % (fi.key, len(bl)))
    sc = ra.scope_of(fi)
    for kind, k, blk in bl:
        label = '%s [%s %s]' % (fi.key, kind, AXN[k])
        # --- AX3: the block guard mentions only index k, and (surface/volume) every per-direction helper call in the block is of direction k
        gk = {x.slice.value for x in ast.walk(blk.test) if isinstance(x, ast.Subscript) and isinstance(x.slice, ast.Constant)
              and isinstance(x.slice.value, int)}
        run.ob('AX3.block-direction', label + ' :: guard', gk == {k}, 'guard `%s` tests direction %s only' % (norm(blk.test), AXN[k])
               if gk == {k} else 'guard `%s` mixes direction indices %s' % (norm(blk.test), sorted(gk)), site(fi, blk))
        for call in [x for st in blk.body for x in ast.walk(st) if isinstance(x, ast.Call)]:
            name = ra.helper_name(call)
            if name is None:
                continue
            tags = set()
            callee = m.resolve_callable(fi.mod, call.func)
            cps = params_of(callee.node) if callee else []
            parts = []
            for sel in ra.HELPER_SCALARS[name]:
                a = None
                if isinstance(sel, int):
                    a = call.args[sel] if sel < len(call.args) else None
                else:
                    a = next((kw.value for kw in call.keywords if kw.arg == sel), None)
                if a is not None:
                    t = sc.int_tags(a, call)
                    tags |= t
                    # index into param/num must be k
                    for x in ast.walk(a):
                        if isinstance(x, ast.Subscript) and isinstance(x.value, ast.Name) and x.value.id in ('param', 'num') and isinstance(x.slice, ast.Constant):
                            tags.add(x.slice.value)
            if kind == 'Curve':
                ok = tags <= {0}
            else:
                ok = tags == {k}
            run.ob('AX3.block-direction', '%s :: %s' % (label, norm(call)[:80]), ok,
                   'all per-direction arguments belong to direction %s' % AXN[k] if ok else
                   'inside the %s-direction block %s receives arguments of direction %s' % (AXN[k], name, fmt(tags)), site(fi, call))
        # --- knot vector assigned in the block is the one of direction k
        for st in [x for s0 in blk.body for x in ast.walk(s0) if isinstance(x, ast.Assign)]:
            for t in st.targets:
                if isinstance(t, ast.Attribute) and t.attr.startswith('knotvector'):
                    ax = suffix_axis(t.attr)
                    ok = (ax == k) if kind != 'Curve' else (t.attr == 'knotvector')
                    vt = sc.int_tags(st.value, st)
                    okv = (vt <= {k})
                    run.ob('AX3.block-direction', '%s :: %s = %s' % (label, norm(t), norm(st.value)[:30]), ok and okv,
                           'knot vector of direction %s updated from a direction-%s result' % (AXN[k], AXN[k]) if ok and okv else
                           'block of direction %s assigns %s from a value of direction %s' % (AXN[k], t.attr, fmt(vt)), site(fi, st))
        # --- the block updates both the net and the knot vector
        has_set = any(isinstance(x, ast.Call) and isinstance(x.func, ast.Attribute) and x.func.attr == 'set_ctrlpts' for s0 in blk.body for x in ast.walk(s0))
        has_kv = any(isinstance(x, ast.Assign) and any(isinstance(t, ast.Attribute) and t.attr.startswith('knotvector') for t in x.targets)
                     for s0 in blk.body for x in ast.walk(s0))
        run.ob('AX3.block-updates-both', label, has_set and has_kv, 'set_ctrlpts and knot vector assignment present' if has_set and has_kv else
               'block does not update both the control net and the knot vector', site(fi, blk))
        # --- order: control points before the knot vector (the knot vector setter validates against the *new* count)
        order = []
        for s0 in blk.body:
            for x in ast.walk(s0):
                if isinstance(x, ast.Call) and isinstance(x.func, ast.Attribute) and x.func.attr == 'set_ctrlpts':
                    order.append(('net', s0.lineno))
                if isinstance(x, ast.Assign) and any(isinstance(t, ast.Attribute) and t.attr.startswith('knotvector') for t in x.targets):
                    order.append(('kv', s0.lineno))
        oko = [o[0] for o in sorted(order, key=lambda o: o[1])] == ['net', 'kv']
        run.ob('AX3.net-before-knots', label, oko, 'control net is replaced before the knot vector (whose setter checks length against the new count)'
               if oko else 'update order is %s' % [o[0] for o in sorted(order, key=lambda o: o[1])], site(fi, blk))
    run.floor('AX3.block-direction', 30 if op != 'refine' else 24, '6 blocks x (guard, helper calls, knot vector)')
    # --- AX1, LY1, LY3 positional, growth
    ra.ax1_helper_calls(m, run, [fi])
    rl.ly1_canonical(m, run, [fi])
    ra.ly3_positional_sizes(m, run, [fi])
    run.floor('LY1.canonical-stride', 5, 'gather subscripts of the surface and volume blocks')
    run.floor('LY3.sizes-in-axis-order', 10, 'set_ctrlpts calls of the surface and volume blocks')
    if op in ('insert', 'remove'):
        rl.ly3_growth(m, run, fi)
        run.floor('LY3.net-grows-on-one-axis', 13, '2x2 + 3x3 size arguments')
    else:
        refine_sizes(m, run, fi)
    scatter_rule(m, run, fi)


def guard_rule(m, run, fi, op):
    """GD2: every mutation of a block is dominated by the false outcome of `check_num and num[k] > bound_k`,
    bound_k = degree_k - s_k (insert) / s_k (remove), s_k = find_multiplicity(param[k], knotvector_k)"""
    cfg = CFG(fi.node)
    sc = ra.scope_of(fi)
    for kind, k, blk in blocks(fi):
        label = '%s [%s %s]' % (fi.key, kind, AXN[k])
        muts = [x for s0 in blk.body for x in ast.walk(s0)
                if (isinstance(x, ast.Call) and isinstance(x.func, ast.Attribute) and x.func.attr == 'set_ctrlpts') or
                (isinstance(x, ast.Assign) and any(isinstance(t, ast.Attribute) and t.attr.startswith('knotvector') for t in x.targets))]
        for mu in muts:
            facts = cfg.facts_at(cfg.node_of(mu))
            found = None
            for e, pol in facts:
                if pol:
                    continue
                comps = [e] if isinstance(e, ast.Compare) else ([v for v in e.values if isinstance(v, ast.Compare)] if isinstance(e, ast.BoolOp) and isinstance(e.op, ast.And) else [])
                for c in comps:
                    has_num = lambda side: any(isinstance(x, ast.Subscript) and isinstance(x.value, ast.Name) and x.value.id == 'num' for x in ast.walk(side))
                    if len(c.ops) == 1 and type(c.ops[0]) in MIRROR_OP and has_num(c.comparators[0]) and not has_num(c.left):
                        c_ = mirror_compare(c)       # bound < num[k]  is  num[k] > bound
                        found = (e, c_, c)
                    elif has_num(c.left):
                        found = (e, c, c)
            key = '%s :: %s' % (label, norm(mu)[:50])
            if found is None:
                run.ob('GD2.multiplicity-guard', key, False,
                       'a path reaches this mutation without passing the multiplicity test: an inadmissible count modifies the object', site(fi, mu))
                continue
            e, c, c_orig = found
            # exact inequality in normal form:  num[k] - bound > 0   (strict)
            sub = Subst(fi.node)
            ok_form, why = False, ''
            try:
                lhs = to_poly(c.left)
                # resolve s_k through its (block-local) definition
                rhs = to_poly(c.comparators[0])
            except NotPoly as ex:
                lhs = rhs = None
                why = 'guard not polynomial: %s' % ex
            if lhs is not None:
                svar = [a for a in rhs.atoms() if not ('degree' in a.split('.')[-1])]
                sdef = None
                if len(svar) == 1:
                    ds = sc.reaching(svar[0], c_orig)
                    if len(ds) == 1 and isinstance(ds[0][1], ast.Call):
                        sdef = ds[0][1]
                deg = 'obj.degree' + ('' if kind == 'Curve' else '_' + AXN[k])
                numk = Poly.atom('num[%d]' % k)
                if op == 'insert':
                    want = Poly.atom(deg) - Poly.atom(svar[0]) if len(svar) == 1 else None
                else:
                    want = Poly.atom(svar[0]) if len(svar) == 1 else None
                strict = isinstance(c.ops[0], ast.Gt)
                ok_form = want is not None and lhs == numk and rhs == want and strict
                okmult = sdef is not None and norm(sdef.func).endswith('find_multiplicity') and len(sdef.args) >= 2 and \
                    norm(sdef.args[0]) == 'param[%d]' % k and norm(sdef.args[1]) == 'obj.knotvector' + ('' if kind == 'Curve' else '_' + AXN[k])
                why = ('rejects exactly num[%d] > %s with s = %s' % (k, want, norm(sdef)[:60]) if ok_form and okmult else
                       'guard is `%s` (s defined as `%s`); the admissible counts are num[%d] <= %s with s = find_multiplicity(param[%d], knot vector of direction %s)'
                       % (norm(c), norm(sdef) if sdef is not None else '?', k, ('%s - s' % deg) if op == 'insert' else 's', k, AXN[k]))
                ok_form = ok_form and okmult
            # the guard must be switchable only by check_num
            others = [v for v in (e.values if isinstance(e, ast.BoolOp) else []) if v is not c_orig]
            ok_flag = all(isinstance(v, ast.Name) and sc.api_origin(v) == 'check_num' for v in others)
            run.ob('GD2.multiplicity-guard', key, ok_form and ok_flag, why, site(fi, c_orig))
    run.floor('GD2.multiplicity-guard', 12, '6 blocks x (set_ctrlpts, knot vector)')


def refine_sizes(m, run, fi):
    """C05: size argument k of set_ctrlpts is the fresh length of the refined rows; the other sizes are the current ones"""
    cfg = CFG(fi.node)
    sc = ra.scope_of(fi)
    n = 0
    for kind, k, blk in blocks(fi):
        label = '%s [%s %s]' % (fi.key, kind, AXN[k])
        for call in [x for s0 in blk.body for x in ast.walk(s0) if isinstance(x, ast.Call) and isinstance(x.func, ast.Attribute) and x.func.attr == 'set_ctrlpts']:
            sizes = call.args[1:]
            for pos, a in enumerate(sizes):
                n += 1
                base = 'obj.ctrlpts_size_' + AXN[pos]
                if pos == k:
                    # must be len(<result of knot_refinement>)
                    ds = sc.reaching(a.id, call) if isinstance(a, ast.Name) else []
                    vals = [d[1] for d in ds if d[1] is not None]
                    oklen = bool(vals) and any(isinstance(v, ast.Call) and norm(v.func) == 'len' for v in vals)
                    run.ob('LY3.refined-size', '%s :: arg %d' % (label, pos + 1), oklen,
                           'size %s is the length of the refined rows' % AXN[pos] if oklen else 'size %s argument `%s` is not the length of the refinement result' % (AXN[pos], norm(a)),
                           site(fi, call))
                else:
                    run.ob('LY3.refined-size', '%s :: arg %d' % (label, pos + 1), norm(a) == base,
                           'unselected direction %s keeps its size' % AXN[pos] if norm(a) == base else 'direction %s is not refined in this block but its size argument is `%s`' % (AXN[pos], norm(a)),
                           site(fi, call))
        # density argument is param[k]
        for call in [x for s0 in blk.body for x in ast.walk(s0) if isinstance(x, ast.Call) and norm(x.func).endswith('knot_refinement')]:
            d = next((kw.value for kw in call.keywords if kw.arg == 'density'), None)
            okd = d is not None and norm(d) == 'param[%d]' % k
            run.ob('AX3.block-direction', '%s :: density' % label, okd, 'density=param[%d]' % k if okd else 'density argument is `%s` in the block of direction %s' % (norm(d), AXN[k]),
                   site(fi, call))
    run.floor('LY3.refined-size', 13, 'size arguments of surface and volume blocks')


def scatter_rule(m, run, fi):
    """LY2 (gather -> helper -> scatter) for the three idioms used by operations.*:
      surface: rows gathered per fixed other-direction and concatenated -> fastest = refined direction; canonical needs v fastest,
               so the u-block must pass through flip_ctrlpts_u(list, new Su, Sv) with the same sizes it declares, the v-block must not;
      volume:  slabs cpt2d[a][b-fastest ... c] are read back as ctrlpts_tmp[a][b + Sb*c] in a (w, u, v) nest."""
    for kind, k, blk in blocks(fi):
        label = '%s [%s %s]' % (fi.key, kind, AXN[k])
        sets = [x for s0 in blk.body for x in ast.walk(s0) if isinstance(x, ast.Call) and isinstance(x.func, ast.Attribute) and x.func.attr == 'set_ctrlpts']
        if kind == 'Surface':
            for call in sets:
                a0 = call.args[0]
                is_flip = isinstance(a0, ast.Call) and norm(a0.func).endswith('flip_ctrlpts_u')
                if k == 0:
                    ok = is_flip and len(a0.args) == 3 and [norm(x) for x in a0.args[1:]] == [norm(x) for x in call.args[1:]]
                    run.ob('LY2.scatter', label, ok,
                           'rows refined along u are u-fastest; flip_ctrlpts_u(list, Su_new, Sv) converts to the canonical v-fastest order with the declared sizes'
                           if ok else 'u-direction rows are concatenated per v (u fastest) and must be converted with flip_ctrlpts_u using the new sizes %s; found `%s`'
                           % ([norm(x) for x in call.args[1:]], norm(a0)[:80]), site(fi, call))
                else:
                    ok = isinstance(a0, ast.Name)
                    run.ob('LY2.scatter', label, ok, 'rows refined along v are concatenated per u: already canonical' if ok else
                           'v-direction rows are already in canonical order, but the list is transformed by `%s`' % norm(a0)[:60], site(fi, call))
            # gather loops: outer loop over the *other* direction, comprehension over direction k
            for lp in [x for s0 in blk.body for x in ast.walk(s0) if isinstance(x, ast.For)]:
                sc = ra.scope_of(fi)
                ot = sc.int_tags(lp.target, lp.body[0]) if isinstance(lp.target, ast.Name) else set()
                comps = [x for x in ast.walk(lp) if isinstance(x, ast.ListComp)]
                if not comps or not ot:
                    continue
                it = sc.int_tags(comps[0].generators[0].target, comps[0].elt)
                ok = ot == {1 - k} and it == {k}
                run.ob('LY2.gather', label, ok, 'one row per %s, points along %s' % (AXN[1 - k], AXN[k]) if ok else
                       'gather loop runs over %s outside and %s inside; the block of direction %s needs rows along %s' % (fmt(ot), fmt(it), AXN[k], AXN[k]), site(fi, lp))
        if kind == 'Volume':
            rd = [x for s0 in blk.body for x in ast.walk(s0) if isinstance(x, ast.Subscript) and isinstance(x.value, ast.Subscript)
                  and isinstance(x.value.value, ast.Name) and isinstance(x.ctx, ast.Load) and not isinstance(x.slice, ast.Constant)]
            # gather nest order vs read-back index:  slab built by loops (outer b2, inner b1) appended -> inner index = b1 + S_b1 * b2
            for x in rd:
                nest = enclosing_loops(x)
                inner = x.slice
                outer = x.value.slice
                sc = ra.scope_of(fi)
                try:
                    p = to_poly(inner)
                except NotPoly:
                    continue
                ot = sc.int_tags(outer, x)
                okouter = ot == {k}
                # gather nest of this block: the loop that appends to the slab
                g = gather_nest(blk, k, sc)
                if g is None:
                    continue
                b_slow, b_fast = g       # axes of the slab's slow and fast positions
                fast_atom = [a for a in p.atoms() if sc.int_tags(ast.parse(a, mode='eval').body, x) == {b_fast}] if False else None
                terms = rl.index_terms(p)
                ok = True
                why = []
                for c, atoms in terms:
                    vs = [a for a in atoms if 'ctrlpts_size' not in a]
                    ss = [a for a in atoms if 'ctrlpts_size' in a]
                    if len(vs) != 1:
                        ok = False
                        continue
                    # tag of variable by its enclosing loop extent
                    vt = loop_axis(nest, vs[0], sc)
                    if vt == b_fast:
                        if ss:
                            ok = False
                            why.append('%s is the fast slab index and must have stride 1' % vs[0])
                    elif vt == b_slow:
                        want = 'obj.ctrlpts_size_' + AXN[b_fast]
                        if ss != [want]:
                            ok = False
                            why.append('%s is the slow slab index: stride must be %s, found %s' % (vs[0], want, ss))
                    else:
                        ok = False
                        why.append('index variable %s has direction %s, the slab holds directions %s,%s' % (vs[0], vt, AXN[b_fast], AXN[b_slow]))
                run.ob('LY2.scatter', '%s :: %s' % (label, norm(x)[:60]), ok and okouter,
                       'slab [%s][%s + S%s*%s] read back as built' % (AXN[k], AXN[b_fast], AXN[b_fast], AXN[b_slow]) if ok and okouter else
                       '; '.join(why) or 'outer index has direction %s, expected %s' % (fmt(ot), AXN[k]), site(fi, x))
                # the flatten nest must be w, u, v (outer -> inner) so that appends produce the canonical order
                axes = [loop_axis(nest, l.target.id, sc) for l in nest if isinstance(l.target, ast.Name)]
                okn = axes == [2, 0, 1]
                run.ob('LY2.flatten-order', '%s :: %s' % (label, norm(x)[:40]), okn,
                       'flatten nest is w (outer), u, v (inner): appended points are in canonical order' if okn else
                       'flatten nest order is %s (outer to inner); canonical order needs w, u, v' % [AXN[a] if a is not None else '?' for a in axes], site(fi, x))


def enclosing_loops(node):
    out = []
    p = getattr(node, '_sa_parent', None)
    while p is not None:
        if isinstance(p, ast.For):
            out.append(p)
        p = getattr(p, '_sa_parent', None)
    return list(reversed(out))


def loop_axis(nest, varname, sc):
    for l in nest:
        if isinstance(l.target, ast.Name) and l.target.id == varname:
            t = sc._iter_tag(l.iter, l, 0)
            t = {x for x in t if isinstance(x, int)}
            return next(iter(t)) if len(t) == 1 else None
    return None


def gather_nest(blk, k, sc):
    """(slow axis, fast axis) of the slabs appended in the gather nest of a volume block, or None"""
    for lp in [x for s0 in blk.body for x in ([s0] if isinstance(s0, ast.For) else [])]:
        t = sc._iter_tag(lp.iter, lp, 0)
        if {x for x in t if isinstance(x, int)} != {k}:
            continue
        inner = [x for x in ast.walk(lp) if isinstance(x, ast.For) and x is not lp]
        if len(inner) == 2:
            a = [next(iter({y for y in sc._iter_tag(l.iter, l, 0) if isinstance(y, int)}), None) for l in inner]
            # ast.walk is breadth-first: inner[0] is the outer of the two
            return a[0], a[1]
        comps = [x for x in ast.walk(lp) if isinstance(x, ast.ListComp)]
        if comps:
            return None
    return None


def wrapper_rules(m, run, method, slot):
    """BSpline.{Curve,Surface,Volume}.<method>: positional lists are in (u, v, w) order and keyed by the matching keyword;
    nothing is mutated before delegation; only GeomdlException is caught"""
    P = Purity(m)
    for cname, pdim in (('Curve', 1), ('Surface', 2), ('Volume', 3)):
        fi = m.cls('BSpline', cname).methods.get(method)
        if fi is None:
            raise AnalysisError('BSpline.%s.%s not found' % (cname, method))
        calls = [x for x in walk_no_nested(fi.node) if isinstance(x, ast.Call) and isinstance(x.func, ast.Attribute) and x.func.attr == slot]
        if len(calls) != 1:
            raise AnalysisError('%s: expected one call through %s' % (fi.key, slot))
        c = calls[0]
        ok_self = c.args and isinstance(c.args[0], ast.Name) and c.args[0].id == 'self'
        run.ob('WR1.wrapper-delegates', fi.key + ' :: receiver', bool(ok_self), 'delegates with self as the object', site(fi, c))
        params = params_of(fi.node)[1:]
        for li, (lst, kwprefix) in enumerate(zip(c.args[1:3], ('param', 'num'))):
            if not isinstance(lst, ast.List) or len(lst.elts) != pdim:
                run.note('WR1.wrapper-lists', '%s :: %s list' % (fi.key, kwprefix), 'argument `%s` is not spelled as a %d-element list literal: decided by WR2 only' % (norm(lst)[:50], pdim))
                continue
            for pos, el in enumerate(lst.elts):
                if li == 0:
                    want = params[pos] if pos < len(params) else None
                    ok = isinstance(el, ast.Name) and el.id == want and (pdim == 1 or el.id == AXN[pos])
                    run.ob('WR1.wrapper-lists', '%s :: parameter slot %d' % (fi.key, pos), ok,
                           'slot %s carries parameter `%s`' % (AXN[pos], norm(el)) if ok else 'slot %s of the parameter list carries `%s`' % (AXN[pos], norm(el)), site(fi, c))
                else:
                    # element must be a local bound to kwargs.get('num' [+ '_' + axis])
                    key = None
                    if isinstance(el, ast.Name):
                        ds = [n.value for n in walk_no_nested(fi.node) if isinstance(n, ast.Assign) and any(isinstance(t, ast.Name) and t.id == el.id for t in n.targets)]
                        if len(ds) == 1 and isinstance(ds[0], ast.Call) and isinstance(ds[0].func, ast.Attribute) and ds[0].func.attr == 'get' and ds[0].args \
                                and isinstance(ds[0].args[0], ast.Constant):
                            key = ds[0].args[0].value
                    want = 'num' if pdim == 1 else 'num_' + AXN[pos]
                    run.ob('WR1.wrapper-lists', '%s :: count slot %d' % (fi.key, pos), key == want,
                           "slot %s carries kwargs['%s']" % (AXN[pos], key) if key == want else
                           "slot %s of the count list is filled from keyword %r, expected %r" % (AXN[pos], key, want), site(fi, c))
        # no mutation of self before the delegation, handler catches GeomdlException only
        s = P.summary(fi)
        early = [mu for mu in s.mutations if mu.root == 'param:self' and getattr(mu.node, 'lineno', 0) < c.lineno]
        run.ob('WR1.no-mutation-before-delegation', fi.key, not early, 'object untouched before the operation' if not early else
               'self is mutated at `%s` before the operation can reject the request' % norm(early[0].node)[:60], site(fi))
        trys = [t for t in walk_no_nested(fi.node) if isinstance(t, ast.Try) and any(x is c for x in ast.walk(t))]
        okh = bool(trys) and all(h.type is not None and norm(h.type) == 'GeomdlException' for h in trys[0].handlers)
        run.ob('WR1.catches-only-rejection', fi.key, okh, 'only GeomdlException (the rejection) is caught' if okh else
               'handler catches %s: programming errors inside the operation are swallowed' % ([norm(h.type) if h.type else 'everything' for h in trys[0].handlers] if trys else 'nothing'),
               site(fi))
        # every normally returning path goes through the delegation: a wrapper has no reason of its own to do nothing
        from .cfg import CFG as _CFG
        cfg_ = _CFG(fi.node)
        always = cfg_.must_pass(lambda nd: any(x is c for x in ast.walk(nd.ast)))
        run.ob('WR1.always-delegates', fi.key, always, 'every normal path reaches the operation' if always else
               'a path returns without calling the operation: the request is silently ignored for some argument combinations '
               '(e.g. when the count of the *other* direction is 0)', site(fi, c))
        # check_num forwarded
        kwv = next((k.value for k in c.keywords if k.arg == 'check_num'), None)
        run.ob('WR1.wrapper-delegates', fi.key + ' :: check_num', kwv is not None, 'check_num forwarded as `%s`' % norm(kwv), site(fi, c))
    # spelling-independent decision (the lists may be built by comprehension, zip, helper ...): what the slot actually receives
    from . import skel_drivers as _sd
    _sd.wr2(m, run, method, slot.lstrip('_'))
    run.floor('WR2.wrapper-hands-on-the-request', 9, 'curve 2, surface 5, volume 7 request scenarios')


def helper_alias_rules(m, run, key, rows_param='ctrlpts', pu1=True):
    """aliasing discipline of the row-processing helpers (rows may be points or slabs of points):
    PU1  the input rows are never mutated (they are aliased into the result as the unaltered rows);
    AL1  a work array that is updated in place below its first level never hands one of its cells to another cell
         (of itself or of the result) without a deep copy - otherwise two cells change together."""
    fi = m.func(key)
    if pu1:
        P = Purity(m)
        s = P.summary(fi)
        mu = [x for x in s.mutations if x.root == 'param:' + rows_param]
        run.ob('PU1.rows-not-mutated', key, not mu,
               'input rows are only read and aliased, never written' if not mu else
               'input rows are mutated in place at `%s` (%s); the same rows are returned as the unaltered part of the result and belong to the caller'
               % (norm(mu[0].node)[:80], mu[0].how), site(fi, mu[0].node) if mu else '')
    deep = set()
    for n in walk_no_nested(fi.node):
        if isinstance(n, (ast.Assign, ast.AugAssign)):
            for t in (n.targets if isinstance(n, ast.Assign) else [n.target]):
                d, b = 0, t
                while isinstance(b, ast.Subscript):
                    d += 1
                    b = b.value
                if isinstance(b, ast.Name) and d >= 2:
                    deep.add(b.id)
    cnt = 0
    for n in walk_no_nested(fi.node):
        if isinstance(n, ast.Assign) and len(n.targets) == 1 and isinstance(n.targets[0], ast.Subscript) and isinstance(n.targets[0].value, ast.Name):
            v = n.value
            if isinstance(v, ast.Subscript) and isinstance(v.value, ast.Name) and v.value.id in deep and not isinstance(v.slice, ast.Slice):
                cnt += 1
                run.ob('AL1.no-shared-cells', '%s :: %s' % (key, norm(n)[:80]), False,
                       '`%s` is updated in place below its first level, and this statement makes a second reference to one of its cells without a deep copy: '
                       'later in-place updates change both cells' % v.value.id, site(fi, n))
            elif isinstance(v, ast.Call) and norm(v.func) in ('deepcopy', 'copy.deepcopy') and v.args and isinstance(v.args[0], ast.Subscript) \
                    and isinstance(v.args[0].value, ast.Name) and v.args[0].value.id in deep:
                cnt += 1
                run.ob('AL1.no-shared-cells', '%s :: %s' % (key, norm(n)[:80]), True, 'cell of in-place-updated array `%s` handed on as a deep copy' % v.args[0].value.id, site(fi, n))
    if not deep:
        raise AnalysisError('%s: no in-place deep store found (unknown idiom)' % key)
    return cnt


def optional_coordinate_rule(m, run, mods=('operations', '_operations', 'BSpline', 'NURBS', 'abstract')):
    """NONE1: an optional parametric coordinate (parameter named u, v, w or t with default None) is tested with `is None` / `is not None`,
    never by truthiness: 0.0 is a valid coordinate (the start of every normalised domain) and is falsy.  Reports every truthiness use;
    zero instances expected, a positive control is analysed on every run."""
    def findings(fn):
        a = fn.args
        ps = a.args
        dflt = dict(zip([p.arg for p in ps[len(ps) - len(a.defaults):]], a.defaults))
        opt = {p for p, d in dflt.items() if isinstance(d, ast.Constant) and d.value is None and p in ('u', 'v', 'w', 't')}
        out = []
        if not opt:
            return out, 0

        def truthy(e):
            if isinstance(e, ast.Name) and e.id in opt:
                return e
            if isinstance(e, ast.UnaryOp) and isinstance(e.op, ast.Not):
                return truthy(e.operand)
            if isinstance(e, ast.BoolOp):
                for v in e.values:
                    t = truthy(v)
                    if t is not None:
                        return t
            return None
        for x in walk_no_nested(fn):
            test = x.test if isinstance(x, (ast.If, ast.While, ast.IfExp)) else None
            if test is not None:
                t = truthy(test)
                if t is not None:
                    out.append((x, t.id))
        return out, len(opt)
    n_opt = 0
    for fi in sorted(m.funcs.values(), key=lambda f: f.key):
        if fi.mod not in mods:
            continue
        fs, k = findings(fi.node)
        n_opt += k
        for node, name in fs:
            run.ob('NONE1.optional-coordinate-tested-with-is-none', '%s :: %s' % (fi.key, norm(node.test if hasattr(node, 'test') else node)[:50]), False,
                   'the optional coordinate `%s` is tested by truthiness: the valid value 0.0 is treated like a missing argument' % name, site(fi, node))
    ctl = ast.parse('def f(u, v=None):\n    if not v:\n        return 1\n    return 2\n').body[0]
    if len(findings(ctl)[0]) != 1:
        raise AnalysisError('NONE1 positive control not reported: rule is broken')
    run.ob('NONE1.optional-coordinate-tested-with-is-none', 'package', True, '%d optional coordinates scanned; positive control reported' % n_opt)
    if n_opt < 3:
        raise AnalysisError('NONE1: only %d optional coordinates found' % n_opt)


def unit_range_rule(m, run, names, mods=('BSpline', 'abstract', 'NURBS')):
    """RG2 (spelling-independent): the named methods interpreted on abstract un-normalised shapes never reach utilities.check_params and
    hand the request on to the evaluator / operation slot.  RG1 (reads the guard spelling) corroborates."""
    from . import skel_drivers as _sd
    n0 = len(run.obs)
    n2 = _sd.rg2(m, run, names)
    ok = all(o.ok for o in run.obs[n0:])
    with run.corroborating(ok, 'RG2', rules=('RG1.unit-range-check-only-when-normalised',)):
        n = _unit_range_syntactic(m, run, names, mods)
    return n + n2


def _unit_range_syntactic(m, run, names, mods):
    """RG1: the rejection of parameters outside [0, 1] (utilities.check_params) applies to shapes with normalised knot vectors only:
    every evaluation of check_params in the named methods is reached only when `self._kv_normalize` holds (CFG facts on every
    path, or the preceding operand of the same `and`).  Shapes built with normalize_kv=False have other domains."""
    from .cfg import CFG
    n = 0
    for fi in sorted(m.funcs.values(), key=lambda f: f.key):
        if fi.mod not in mods or not fi.cls or fi.name not in names:
            continue
        calls = [c for c in walk_no_nested(fi.node) if isinstance(c, ast.Call) and norm(c.func).endswith('check_params')]
        if not calls:
            continue
        cfg = CFG(fi.node)
        for c in calls:
            n += 1
            ok = False
            # same-expression guard: self._kv_normalize and (not) check_params(..)
            p, child = getattr(c, '_sa_parent', None), c
            while p is not None and not isinstance(p, ast.stmt):
                if isinstance(p, ast.BoolOp) and isinstance(p.op, ast.And):
                    idx = next(i for i, v in enumerate(p.values) if v is child)
                    if any(norm(v) == 'self._kv_normalize' for v in p.values[:idx]):
                        ok = True
                child, p = p, getattr(p, '_sa_parent', None)
            if not ok:
                node = cfg.node_of(c)
                ok = any(pol and norm(e) == 'self._kv_normalize' for e, pol in cfg.facts_at(node))
            run.ob('RG1.unit-range-check-only-when-normalised', '%s :: %s' % (fi.key, norm(c)[:60]), ok,
                   'evaluated only under self._kv_normalize' if ok else
                   'parameters are tested against [0, 1] also for shapes created with normalize_kv=False, whose domain is the range of their own knot vector: '
                   'valid parameters are rejected', site(fi, c))
    return n




def shared_dependencies(m, run):
    """what the knot operations rest on besides their own code: the evaluators (the shape is what they evaluate to: EVX, shared with
    C01) and history independence of the helper module (no helper keeps values in a module-level object between calls: PU5)"""
    from . import skel_drivers as _sd
    from .pure import Purity
    _sd.evx(m, run)
    _sd.bf3(m, run)        # ... with basis values that are the Cox-de Boor polynomials on every span, however narrow (BF3, shared with C03)
    _sd.sc2(m, run)        # ... on the control points the object was given (SC2: nothing is rounded on the way in, whatever the precision)
    from . import rules_state as _rs0
    _rs0.iv4_deepcopy(m, run)      # without inplace the operations work on a deep copy: it shares nothing with its source (DC9)
    P0 = Purity(m)
    for fi_ in [f for f in m.functions_in('helpers') if f.kind == 'function']:
        mg = [mu for mu in P0.summary(fi_).mutations if mu.root.startswith('global:')]
        run.ob('PU5.no-module-state', fi_.key, not mg, 'no module-level state written' if not mg else
               '%s: %s at `%s` - a value computed for one call is kept in a module-level object and can be served to a later call with other arguments' % (mg[0].root, mg[0].how[:60], norm(mg[0].node)[:70]),
               'geomdl/helpers.py:%s in %s' % (getattr(mg[0].node, 'lineno', '?') if mg else fi_.node.lineno, fi_.key))
