"""ALG: forward substitution of straight-line code into polynomial normal forms (one path, no execution).

`Subst` resolves a local name to the expression of its *unique live definition* under stated assumptions
(e.g. len(param) == 3 prunes `if len(v) == 2:` branches), and turns expressions into sa.poly.Poly values
whose atoms are `<param>[k]`, parameters, and opaque pure calls.
"""
import ast
from .model import norm, walk_no_nested
from .poly import Poly, to_poly, NotPoly


class Undecidable(Exception):
    pass


class Subst(object):
    def __init__(self, fn, assume_len=None, elem_alias=None):
        self.fn = fn
        self.assume_len = assume_len or {}
        self.params = [a.arg for a in fn.args.args]
        self.elem_alias = elem_alias or {}   # local name -> atom prefix (loop element bound outside)
        self.defs = {}
        self._collect(fn.body, True)

    # ---- collect live single definitions
    def _static_truth(self, t):
        try:
            v = self._const(t)
        except Undecidable:
            return None
        return bool(v)

    def _const(self, e):
        if isinstance(e, ast.Constant):
            return e.value
        if isinstance(e, ast.Call) and isinstance(e.func, ast.Name) and e.func.id == 'len' and len(e.args) == 1 \
                and isinstance(e.args[0], ast.Name) and e.args[0].id in self.assume_len:
            return self.assume_len[e.args[0].id]
        if isinstance(e, ast.UnaryOp) and isinstance(e.op, ast.Not):
            return not self._const(e.operand)
        if isinstance(e, ast.BoolOp):
            vals = [self._const(v) for v in e.values]
            return all(vals) if isinstance(e.op, ast.And) else any(vals)
        if isinstance(e, ast.Compare):
            import operator as o
            ops = {ast.Lt: o.lt, ast.LtE: o.le, ast.Gt: o.gt, ast.GtE: o.ge, ast.Eq: o.eq, ast.NotEq: o.ne}
            l = self._const(e.left)
            for op, c in zip(e.ops, e.comparators):
                if type(op) not in ops:
                    if isinstance(op, ast.Is) and isinstance(c, ast.Constant) and c.value is None:
                        raise Undecidable()
                    raise Undecidable()
                r = self._const(c)
                if not ops[type(op)](l, r):
                    return False
                l = r
            return True
        raise Undecidable()

    def _collect(self, body, live):
        for st in body:
            if isinstance(st, ast.Assign) and len(st.targets) == 1 and isinstance(st.targets[0], ast.Name):
                self.defs.setdefault(st.targets[0].id, []).append(st.value)
            elif isinstance(st, ast.AugAssign) and isinstance(st.target, ast.Name):
                self.defs.setdefault(st.target.id, []).append(st)
            elif isinstance(st, ast.If):
                tv = self._static_truth(st.test)
                if tv is not False:
                    self._collect(st.body, live)
                if tv is not True:
                    self._collect(st.orelse, live)
            elif isinstance(st, ast.Try):
                self._collect(st.body, live)
            elif isinstance(st, (ast.For, ast.While)):
                for n in walk_no_nested(st):
                    if isinstance(n, ast.Assign):
                        for t in n.targets:
                            if isinstance(t, ast.Name):
                                self.defs.setdefault(t.id, []).append(None)   # loop-carried: not substitutable
                    if isinstance(n, ast.AugAssign) and isinstance(n.target, ast.Name):
                        self.defs.setdefault(n.target.id, []).append(None)

    def definition(self, name):
        d = self.defs.get(name, [])
        if len(d) == 1 and d[0] is not None and not isinstance(d[0], ast.AugAssign):
            return d[0]
        return None

    # ---- atoms
    def vec_of(self, e, depth=0):
        """name of the parameter a local vector stands for (through float()-comprehension padding and plain copies)"""
        if depth > 6:
            return None
        if isinstance(e, ast.Name):
            if e.id in self.elem_alias:
                return self.elem_alias[e.id]
            if e.id in self.params and not self.defs.get(e.id):
                return e.id
            d = self.definition(e.id)
            if d is not None:
                return self.vec_of(d, depth + 1)
            return None
        if isinstance(e, ast.BinOp) and isinstance(e.op, ast.Add) and isinstance(e.right, ast.List):
            return self.vec_of(e.left, depth + 1)
        if isinstance(e, ast.ListComp) and len(e.generators) == 1 and isinstance(e.generators[0].target, ast.Name):
            g = e.generators[0]
            elt = e.elt
            if isinstance(elt, ast.Call) and isinstance(elt.func, ast.Name) and elt.func.id == 'float' and elt.args:
                elt = elt.args[0]
            if isinstance(elt, ast.Name) and elt.id == g.target.id:
                return self.vec_of(g.iter, depth + 1)
        if isinstance(e, ast.Call) and isinstance(e.func, ast.Name) and e.func.id in ('list', 'tuple') and e.args:
            return self.vec_of(e.args[0], depth + 1)
        return None

    def atom_of(self, e):
        if isinstance(e, ast.Subscript) and isinstance(e.slice, ast.Constant) and isinstance(e.slice.value, int):
            v = self.vec_of(e.value)
            if v is not None:
                return '%s[%d]' % (v, e.slice.value)
            if isinstance(e.value, ast.Subscript):
                inner = self.atom_of(e.value)
                if inner:
                    return '%s[%d]' % (inner, e.slice.value)
        if isinstance(e, ast.Call):
            # opaque pure call: normalise arguments through substitution
            args = []
            for a in e.args:
                try:
                    args.append(repr(self.poly(a)))
                except (NotPoly, Undecidable):
                    args.append(norm(a))
            return '%s(%s)' % (norm(e.func), ', '.join(args))
        return None

    def env(self, name_node):
        if name_node.id in self.elem_alias:
            return None
        d = self.definition(name_node.id)
        return d

    def poly(self, e):
        return to_poly(e, env=self.env, atom_of=self.atom_of)

    def closed_form(self, e, depth=0):
        """True if every local the expression depends on has one non-loop definition (so substitution yields a closed form)"""
        if depth > 12:
            return False
        for n in ast.walk(e):
            if isinstance(n, ast.Name) and isinstance(n.ctx, ast.Load):
                if n.id in self.elem_alias:
                    continue
                ds = self.defs.get(n.id)
                if ds is None:
                    continue        # parameter, global, builtin
                if n.id in self.params and not ds:
                    continue
                d = self.definition(n.id)
                if d is None:
                    return False
                if not self.closed_form(d, depth + 1):
                    return False
        return True

    def returned(self):
        rets = [n for n in walk_no_nested(self.fn) if isinstance(n, ast.Return) and n.value is not None]
        return rets


def unwrap_float(e):
    while isinstance(e, ast.Call) and isinstance(e.func, ast.Name) and e.func.id in ('float', 'int') and len(e.args) == 1:
        e = e.args[0]
    return e
