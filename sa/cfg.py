"""Statement-level control-flow graph of one function + path queries (GUARD engine).

Nodes are simple statements and the tests of compound statements.  Edges carry a label:
'T'/'F' for the outcome of a test, 'exc' for try-body -> handler, None otherwise.
Queries (all over *every* path, feasible or not):
  facts_at(n)        atomic conditions (expr, polarity) that hold on every path entry -> n
  must_pass(pred)    every path entry -> normal exit contains a node satisfying pred
  reachable(a, b)
"""
import ast
from .model import norm


class Node(object):
    __slots__ = ('id', 'kind', 'ast', 'succ', 'pred')

    def __init__(self, id_, kind, ast_=None):
        self.id, self.kind, self.ast = id_, kind, ast_
        self.succ, self.pred = [], []   # (node, label)

    def __repr__(self):
        return '<N%d %s %s>' % (self.id, self.kind, norm(self.ast)[:40] if self.ast is not None else '')


class CFG(object):
    def __init__(self, fn):
        self.fn = fn
        self.nodes = []
        self.entry = self._new('entry')
        self.exit = self._new('exit')          # normal exits (return / fall off the end)
        self.raise_exit = self._new('raise')   # explicit raise not caught locally
        self.of = {}                           # ast stmt/test -> Node
        self._loops = []                       # (continue_target, break_collector list)
        self._handlers = []                    # stack of lists of handler entry nodes
        ends = self._block(fn.body, [(self.entry, None)])
        for n, lab in ends:
            self._edge(n, self.exit, lab)

    def _new(self, kind, a=None):
        n = Node(len(self.nodes), kind, a)
        self.nodes.append(n)
        if a is not None:
            self.of[a] = n
        return n

    def _edge(self, a, b, lab=None):
        a.succ.append((b, lab))
        b.pred.append((a, lab))

    def _join(self, ins, node):
        for n, lab in ins:
            self._edge(n, node, lab)

    def _block(self, body, ins):
        for st in body:
            ins = self._stmt(st, ins)
        return ins

    def _may_raise_to_handlers(self, node):
        for hs in self._handlers[-1:]:
            for h in hs:
                self._edge(node, h, 'exc')

    def _stmt(self, st, ins):
        if isinstance(st, ast.If):
            t = self._new('test', st)
            self._join(ins, t)
            self._may_raise_to_handlers(t)
            a = self._block(st.body, [(t, 'T')])
            b = self._block(st.orelse, [(t, 'F')])
            return a + b
        if isinstance(st, (ast.For, ast.While)):
            t = self._new('loop', st)
            self._join(ins, t)
            self._may_raise_to_handlers(t)
            brk = []
            self._loops.append((t, brk))
            body_end = self._block(st.body, [(t, 'T')])
            self._loops.pop()
            self._join(body_end, t)
            out = self._block(st.orelse, [(t, 'F')])
            return out + brk
        if isinstance(st, ast.Try):
            handler_entries = [self._new('handler', h) for h in st.handlers]
            self._handlers.append(handler_entries)
            body_end = self._block(st.body, ins)
            self._handlers.pop()
            body_end = self._block(st.orelse, body_end)
            outs = list(body_end)
            for h, hn in zip(st.handlers, handler_entries):
                outs += self._block(h.body, [(hn, None)])
            if st.finalbody:
                outs = self._block(st.finalbody, outs)
            return outs
        if isinstance(st, ast.With):
            w = self._new('stmt', st)
            self._join(ins, w)
            self._may_raise_to_handlers(w)
            return self._block(st.body, [(w, None)])
        n = self._new('stmt', st)
        self._join(ins, n)
        self._may_raise_to_handlers(n)
        if isinstance(st, ast.Return):
            self._edge(n, self.exit)
            return []
        if isinstance(st, ast.Raise):
            if self._handlers and self._handlers[-1]:
                pass   # edges to handlers already added
            else:
                self._edge(n, self.raise_exit)
            return []
        if isinstance(st, ast.Break):
            if self._loops:
                self._loops[-1][1].append((n, None))
            return []
        if isinstance(st, ast.Continue):
            if self._loops:
                self._edge(n, self._loops[-1][0])
            return []
        return [(n, None)]

    # ------------------------------------------------------------------ queries
    def reach_from(self, start, skip_edges=(), skip_nodes=()):
        seen = set()
        stack = [start]
        skip_nodes = set(skip_nodes)
        if start in skip_nodes:
            return seen
        while stack:
            n = stack.pop()
            if n in seen:
                continue
            seen.add(n)
            for m, lab in n.succ:
                if (n, lab) in skip_edges or m in skip_nodes:
                    continue
                stack.append(m)
        return seen

    def node_of(self, a):
        """CFG node of the statement containing ast node `a`"""
        p = a
        while p is not None and p not in self.of:
            p = getattr(p, '_sa_parent', None)
        return self.of.get(p)

    def tests(self):
        return [n for n in self.nodes if n.kind == 'test' or (n.kind == 'loop' and isinstance(n.ast, ast.While))]

    def facts_at(self, node, skip_nodes=()):
        """[(atom_expr, polarity)] holding on every path entry -> node (structural, all paths); with skip_nodes: on every path
        that avoids those nodes (e.g. the paths on which a variable has not been re-defined)"""
        facts = []
        if node is None:
            return facts
        for t in self.tests():
            if t is node:
                continue
            for lab in ('T', 'F'):
                # node unreachable once the `lab` edge of t is cut  ==> every path takes that edge
                if node not in self.reach_from(self.entry, skip_edges={(t, lab)}, skip_nodes=skip_nodes):
                    facts += atoms(t.ast.test, lab == 'T')
        return facts

    def must_pass(self, pred, target=None):
        """every path entry -> target (default: normal exit) contains a node with pred(node.ast) true"""
        target = target or self.exit
        blocked = [n for n in self.nodes if n.ast is not None and n.kind in ('stmt', 'test', 'loop') and pred(n)]
        return target not in self.reach_from(self.entry, skip_nodes=blocked)

    def dominated_by(self, node, pred):
        """every path entry -> node passes a node satisfying pred first"""
        blocked = [n for n in self.nodes if n is not node and n.ast is not None and pred(n)]
        return node not in self.reach_from(self.entry, skip_nodes=blocked)

    def normal_exit_reachable(self):
        return self.exit in self.reach_from(self.entry)


def atoms(test, pol):
    """decompose a test with known outcome into atomic (expr, polarity) facts"""
    if isinstance(test, ast.UnaryOp) and isinstance(test.op, ast.Not):
        return atoms(test.operand, not pol)
    if isinstance(test, ast.BoolOp):
        if isinstance(test.op, ast.And) and pol:
            return [f for v in test.values for f in atoms(v, True)]
        if isinstance(test.op, ast.Or) and not pol:
            return [f for v in test.values for f in atoms(v, False)]
        return [(test, pol)]
    return [(test, pol)]


def stmt_expr_nodes(node):
    """expression nodes evaluated *at* a CFG node (the header of compound statements, not their bodies)"""
    a = node.ast
    if a is None:
        return []
    if isinstance(a, ast.If) or isinstance(a, ast.While):
        return list(ast.walk(a.test))
    if isinstance(a, ast.For):
        return list(ast.walk(a.iter)) + list(ast.walk(a.target))
    if isinstance(a, ast.With):
        return [x for it in a.items for x in ast.walk(it)]
    if isinstance(a, ast.ExceptHandler):
        return []
    return list(ast.walk(a))
