"""Axis rules shared by several properties: AX1 helper-call uniformity, AX2 accessor coherence, LY3p positional sizes,
AX5 cross-axis comparison, AXK keyword/attribute suffix agreement."""
import ast
from .model import norm, walk_no_nested, params_of
from .axis import AxisScope, suffix_axis, fmt, AXN

# helper -> positions / keywords of the per-direction scalar parameters (DESIGN 2.5)
HELPER_SCALARS = {
    'find_span_linear': [0, 1, 2], 'find_span_binsearch': [0, 1, 2], 'find_spans': [0, 1, 2], 'find_multiplicity': [1],
    'basis_function': [0, 1], 'basis_functions': [0, 1], 'basis_function_all': [0, 1], 'basis_function_ders': [0, 1, 4],
    'basis_function_one': [0, 1], 'basis_function_ders_one': [0, 1],
    'knot_insertion': [0, 1, 'num', 's', 'span'], 'knot_removal': [0, 1, 'num', 's', 'span'],
    'knot_refinement': [0, 1, 'density'], 'knot_insertion_kv': [0, 2, 3], 'knot_removal_kv': [0, 1, 2],
    'check': [0, 1, 2], '_span_func': [0, 1, 2], 'span_func': [0, 1, 2],
    '_build_coeff_matrix': [0, 1], 'compute_knot_vector': [0, 1], 'compute_knot_vector2': [0, 1, 2],
    'degree_elevation': [0], 'degree_reduction': [0], 'curve_deriv_cpts': [1, 2, 4],
}
HELPER_MODULES = {'helpers', 'knotvector', 'utilities', 'fitting'}


def site(fi, node):
    return 'geomdl/%s.py:%s in %s' % (fi.mod, getattr(node, 'lineno', '?'), fi.key)


# per-function API parameters that denote one direction (DESIGN 2.3): rs = u-span range, ss = v-span range
PARAM_AXIS = {'helpers.surface_deriv_cpts': {'rs': 0, 'ss': 1}}


MODEL = None          # set by sa.run: lets scopes resolve the per-position direction tags of tuple-returning callees
_RET_CACHE = {}
DECLARED_RET = {}     # function key -> per-position direction tags of its returned tuple, entered by a check once a semantic rule has decided them


def ret_tags_of(mod, name, depth=0):
    """direction tags of the elements of the tuple a module-level function returns (e.g. compute_params_surface -> (u, v))"""
    if MODEL is None or depth > 2:
        return None
    fi = MODEL.lookup_modfunc(mod, name) or MODEL.lookup_modfunc('fitting', name) or MODEL.lookup_modfunc('helpers', name)
    if fi is None:
        return None
    if fi.key in DECLARED_RET:
        return DECLARED_RET[fi.key]
    if fi.key in _RET_CACHE:
        return _RET_CACHE[fi.key]
    _RET_CACHE[fi.key] = None
    rets = [r for r in walk_no_nested(fi.node) if isinstance(r, ast.Return) and isinstance(r.value, ast.Tuple)]
    if not rets:
        return None
    sc = scope_of(fi)
    out = [sc.int_tags(e, rets[-1]) for e in rets[-1].value.elts]
    _RET_CACHE[fi.key] = out if any(out) else None
    return _RET_CACHE[fi.key]


def scope_of(fi, cache={}):
    k = id(fi.node)
    if k not in cache:
        sc = AxisScope(fi.node, param_axis=PARAM_AXIS.get(fi.key))
        sc.ret_tag_source = lambda name, _mod=fi.mod: ret_tags_of(_mod, name)
        cache[k] = sc
    return cache[k]


def helper_name(call):
    f = call.func
    if isinstance(f, ast.Attribute):
        if isinstance(f.value, ast.Name) and (f.value.id in HELPER_MODULES or f.value.id == 'self'):
            return f.attr if f.attr in HELPER_SCALARS else None
        return None
    if isinstance(f, ast.Name):
        return f.id if f.id in HELPER_SCALARS else None
    return None


def ax1_helper_calls(m, run, funcs, rule='AX1.helper-call-one-axis'):
    """in every call to a per-direction helper all per-direction scalar arguments carry at most one axis tag"""
    n = 0
    for fi in funcs:
        sc = scope_of(fi)
        for call in [x for x in walk_no_nested(fi.node) if isinstance(x, ast.Call)]:
            name = helper_name(call)
            if name is None:
                continue
            tags, parts = set(), []
            callee = m.resolve_callable(fi.mod, call.func) if isinstance(call.func, (ast.Name, ast.Attribute)) else None
            cparams = params_of(callee.node) if callee is not None else []
            for sel in HELPER_SCALARS[name]:
                a = None
                if isinstance(sel, int):
                    if sel < len(call.args) and not isinstance(call.args[sel], ast.Starred):
                        a = call.args[sel]
                    elif sel < len(cparams):
                        a = next((k.value for k in call.keywords if k.arg == cparams[sel]), None)
                else:
                    a = next((k.value for k in call.keywords if k.arg == sel), None)
                    if a is None and sel in cparams and cparams.index(sel) < len(call.args):
                        a = call.args[cparams.index(sel)]
                if a is None:
                    continue
                t = sc.tag(a, call)
                parts.append('%s:%s' % (norm(a)[:28], fmt(t)))
                tags |= t
            if not tags:
                continue
            n += 1
            concrete = {t for t in tags if isinstance(t, int)}
            sym = {t for t in tags if not isinstance(t, int)}
            ok = len(concrete) <= 1 and len(sym) <= 1 and not (concrete and sym)
            run.ob(rule, '%s :: %s' % (fi.key, norm(call)[:110]), ok,
                   'arguments of %s mix parametric directions %s (%s): degree, knot vector, size, span and count must belong to one direction'
                   % (name, fmt(tags), ', '.join(parts)) if not ok else 'one direction %s' % fmt(tags), site(fi, call))
    return n


def ax2_accessors(m, run, classes, rule='AX2.accessor-axis'):
    """inside an accessor X_a every tagged expression has tag a (constant index into the per-direction fields)"""
    n = 0
    for ck in classes:
        ci = m.classes.get(ck)
        if ci is None:
            continue
        for table in (ci.getters, ci.setters, ci.methods):
            for name, fi in table.items():
                own = suffix_axis(name)
                if own is None:
                    continue
                for x in walk_no_nested(fi.node):
                    bad = None
                    if isinstance(x, ast.Subscript) and isinstance(x.value, ast.Attribute) and \
                            x.value.attr in ('_degree', '_knot_vector', '_control_points_size', '_delta') and isinstance(x.slice, ast.Constant):
                        n += 1
                        ok = x.slice.value == own
                        run.ob(rule, '%s :: %s' % (fi.key, norm(x)), ok,
                               'accessor for direction %s indexes slot %r of %s' % (AXN[own], x.slice.value, x.value.attr), site(fi, x))
                    elif isinstance(x, ast.Call) and isinstance(x.func, ast.Attribute) and x.func.attr in (
                            '_delta_setter_common', '_sample_size_setter_common', '_sample_size_getter_common', '_delta_getter_common') \
                            and x.args and isinstance(x.args[0], ast.Constant):
                        n += 1
                        ok = x.args[0].value == own
                        run.ob(rule, '%s :: %s' % (fi.key, norm(x)), ok,
                               'accessor for direction %s passes direction index %r' % (AXN[own], x.args[0].value), site(fi, x))
                    elif isinstance(x, ast.Attribute) and isinstance(x.value, ast.Name) and x.value.id == 'self' and suffix_axis(x.attr) is not None \
                            and x.attr.rsplit('_', 1)[0] in ('degree', 'knotvector', 'ctrlpts_size', 'delta', 'sample_size'):
                        n += 1
                        ok = suffix_axis(x.attr) == own
                        run.ob(rule, '%s :: self.%s' % (fi.key, x.attr), ok,
                               'accessor for direction %s uses self.%s' % (AXN[own], x.attr), site(fi, x))
    return n


def ly3_positional_sizes(m, run, funcs, rule='LY3.sizes-in-axis-order'):
    """X.set_ctrlpts(L, a, b[, c]) : the k-th size argument is a size of direction k (u, v, w in this order)"""
    n = 0
    for fi in funcs:
        sc = scope_of(fi)
        for call in [x for x in walk_no_nested(fi.node) if isinstance(x, ast.Call)]:
            f = call.func
            if not (isinstance(f, ast.Attribute) and f.attr == 'set_ctrlpts'):
                continue
            if any(isinstance(a, ast.Starred) for a in call.args):
                continue
            sizes = call.args[1:]
            if len(sizes) < 2:
                continue
            for k, a in enumerate(sizes):
                t = sc.int_tags(a, call)
                if not t:
                    continue
                n += 1
                ok = t == {k}
                run.ob(rule, '%s :: %s arg %d' % (fi.key, norm(call)[:90], k + 1), ok,
                       'size argument %d (`%s`) has direction %s, expected %s: control net sizes are positional (u, v, w)'
                       % (k + 1, norm(a), fmt(t), AXN[k]) if not ok else 'direction %s' % AXN[k], site(fi, call))
    return n


def axk_keyword_suffix(m, run, funcs, rule='AXK.keyword-axis'):
    """a value bound to a name with a direction suffix (keyword argument num_w=, attribute store obj.degree_v =, kwargs.get('num_w'))
    carries that direction"""
    n = 0
    for fi in funcs:
        sc = scope_of(fi)
        for x in walk_no_nested(fi.node):
            pairs = []
            if isinstance(x, ast.Call):
                for k in x.keywords:
                    if k.arg and suffix_axis(k.arg) is not None:
                        pairs.append((k.arg, k.value, x))
            if isinstance(x, ast.Assign) and len(x.targets) == 1:
                t = x.targets[0]
                if isinstance(t, ast.Attribute) and suffix_axis(t.attr) is not None:
                    pairs.append((t.attr, x.value, x))
                # num_w = kwargs.get('num_v', 1): a local whose own name is irrelevant, but the *key* is API
            for name, val, node in pairs:
                t = sc.int_tags(val, node)
                if not t:
                    continue
                n += 1
                own = suffix_axis(name)
                ok = t == {own}
                run.ob(rule, '%s :: %s = %s' % (fi.key, name, norm(val)[:70]), ok,
                       '`%s` (direction %s) receives a value of direction %s' % (name, AXN[own], fmt(t)) if not ok else 'direction %s' % AXN[own],
                       site(fi, node))
    return n


def ax5_cross_axis_compare(m, run, funcs, rule='AX5.cross-axis-compare'):
    """a loop variable of direction a is never compared with an extent of direction b != a"""
    n = 0
    for fi in funcs:
        sc = scope_of(fi)
        for x in walk_no_nested(fi.node):
            if isinstance(x, ast.Compare) and len(x.ops) == 1 and isinstance(x.left, ast.Name):
                ds = sc.reaching(x.left.id, x)
                if not ds or ds[0][3] not in ('loop', 'enum-index'):
                    continue
                lt = sc.int_tags(x.left, x)
                rt = sc.int_tags(x.comparators[0], x)
                if lt and rt:
                    n += 1
                    ok = lt == rt
                    run.ob(rule, '%s :: %s' % (fi.key, norm(x)), ok,
                           'loop variable of direction %s compared with an extent of direction %s' % (fmt(lt), fmt(rt)) if not ok else
                           'same direction %s' % fmt(lt), site(fi, x))
    return n
