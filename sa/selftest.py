"""Self-test batteries (thorough tier; DESIGN 3.10).  Everything runs on in-memory overlays of the *current* /repo sources.

(a) seeded violations: every confirmed change under /verif/seeded/<id>/ whose meta.json lists this property in `caught_by` is applied
    (unified diff, in memory) and the property's check must report at least one violation; changes listed under `not_reachable`
    are run too and their (non-)detection is only recorded.
(b) benign edits: whole-package rewrites that change no behaviour - reformatting through ast.unparse (drops comments, moves every
    line), `range(0, n)` <-> `range(n)`, swapping the operands of commutative integer `+`/`*` in subscripts - must leave the verdict
    of the check unchanged (no new violation, no analysis error).
A failed self-test is an analysis error (the checker is broken), never a violation of the property.
"""
import ast
import glob
import io
import json
import os
import re
from . import model, report

VERIF = os.path.dirname(os.path.dirname(os.path.abspath(__file__)))


# ---------------------------------------------------------------------- unified diff in memory
def apply_patch(diff_text, read):
    """-> {relative path: new source}; raises ValueError when a hunk does not match"""
    out = {}
    files = re.split(r'^diff --git ', diff_text, flags=re.M)[1:]
    for f in files:
        mm = re.search(r'^\+\+\+ b/(.+)$', f, flags=re.M)
        if not mm:
            continue
        path = mm.group(1).strip()
        src = read(path).split('\n')
        hunks = re.split(r'^@@ ', f, flags=re.M)[1:]
        offset = 0
        for h in hunks:
            hm = re.match(r'-(\d+)(?:,(\d+))? \+(\d+)(?:,(\d+))? @@', h)
            start = int(hm.group(1))
            body = h.split('\n')[1:]
            old, new = [], []
            for line in body:
                if line.startswith('\\'):
                    continue
                if line.startswith('-'):
                    old.append(line[1:])
                elif line.startswith('+'):
                    new.append(line[1:])
                elif line.startswith(' ') or line == '':
                    if line == '' and body.index(line) == len(body) - 1:
                        continue
                    old.append(line[1:])
                    new.append(line[1:])
            # locate the old block near the expected position (fuzzy on offset)
            pos = None
            exp = start - 1 + offset
            for delta in sorted(range(-60, 61), key=abs):
                p = exp + delta
                if 0 <= p and src[p:p + len(old)] == old:
                    pos = p
                    break
            if pos is None:
                raise ValueError('hunk at %s:%d does not apply' % (path, start))
            src[pos:pos + len(old)] = new
            offset += len(new) - len(old) + (pos - exp)
        out[path] = '\n'.join(src)
    return out


def repo_reader(repo):
    def read(rel):
        with open(os.path.join(repo, rel), encoding='utf-8') as f:
            return f.read()
    return read


# ---------------------------------------------------------------------- running a check on an overlay
def run_check(pid, overlay, tier='quick'):
    import importlib
    mod = importlib.import_module('sa.checks.' + pid.lower())
    run = report.Run(pid, tier, 0, quiet=True)
    run.selftest = True
    try:
        m = model.Model(overlay=overlay)
        from . import rules_axis
        rules_axis.MODEL = m
        rules_axis._RET_CACHE.clear()
        rules_axis.DECLARED_RET.clear()
        rules_axis.scope_of.__defaults__[0].clear()
        mod.check(m, run)
    except model.AnalysisError as ex:
        run.error(str(ex))
    except Exception as ex:
        run.error('crash %s: %s' % (type(ex).__name__, ex))
    known = {(k.get('rule'), k.get('key')) for k in report.load_known() if k.get('property') == pid and k.get('status') == 'known'}
    fresh = [o for o in run.violations() if (o.rule, o.key) not in known]
    return fresh, run.errors, run


def restore_model():
    from . import rules_axis
    rules_axis.scope_of.__defaults__[0].clear()
    rules_axis._RET_CACHE.clear()
    rules_axis.DECLARED_RET.clear()


# ---------------------------------------------------------------------- benign edits
class RangeSpelling(ast.NodeTransformer):
    def visit_Call(self, node):
        self.generic_visit(node)
        if isinstance(node.func, ast.Name) and node.func.id == 'range':
            if len(node.args) == 2 and isinstance(node.args[0], ast.Constant) and node.args[0].value == 0:
                node.args = [node.args[1]]
            elif len(node.args) == 1:
                node.args = [ast.Constant(0), node.args[0]]
        return node


class SwapCommutative(ast.NodeTransformer):
    """swap operands of + and * inside subscripts when both operands are plainly numeric (names, attributes, subscripts, ints, products)"""

    def __init__(self):
        self.depth = 0

    def visit_Subscript(self, node):
        node.value = self.visit(node.value)
        self.depth += 1
        node.slice = self.visit(node.slice)
        self.depth -= 1
        return node

    def numeric(self, e):
        if isinstance(e, ast.Constant):
            return isinstance(e.value, int) and not isinstance(e.value, bool)
        if isinstance(e, (ast.Name, ast.Attribute, ast.Subscript)):
            return True
        if isinstance(e, ast.BinOp) and isinstance(e.op, (ast.Add, ast.Mult, ast.Sub)):
            return self.numeric(e.left) and self.numeric(e.right)
        return False

    def visit_BinOp(self, node):
        self.generic_visit(node)
        if self.depth > 0 and isinstance(node.op, (ast.Add, ast.Mult)) and self.numeric(node.left) and self.numeric(node.right):
            node.left, node.right = node.right, node.left
        return node


class RenameLocals(ast.NodeTransformer):
    """rename every local variable (not parameters, not nested function names, not globals) of every function: x -> x_rn"""

    def visit_FunctionDef(self, node):
        params = {a.arg for a in node.args.args + node.args.kwonlyargs}
        if node.args.vararg:
            params.add(node.args.vararg.arg)
        if node.args.kwarg:
            params.add(node.args.kwarg.arg)
        locals_ = set()
        nested_params = set()
        for n in ast.walk(node):
            if isinstance(n, ast.Name) and isinstance(n.ctx, ast.Store):
                locals_.add(n.id)
            if isinstance(n, ast.FunctionDef) and n is not node:
                nested_params |= {a.arg for a in n.args.args}
                if n.args.kwarg:
                    nested_params.add(n.args.kwarg.arg)
                if n.args.vararg:
                    nested_params.add(n.args.vararg.arg)
            if isinstance(n, (ast.Global, ast.Nonlocal)):
                params |= set(n.names)
        locals_ -= params
        locals_ -= nested_params
        locals_ = {x for x in locals_ if not x.startswith('__')}
        for n in ast.walk(node):
            if isinstance(n, ast.Name) and n.id in locals_:
                n.id = n.id + '_rn'
        return node


class AugExpand(ast.NodeTransformer):
    """x += e  ->  x = x + e  for plain names and numeric-looking operands (not for list accumulation: `lst += other` mutates in place)"""

    def visit_AugAssign(self, node):
        self.generic_visit(node)
        if isinstance(node.target, ast.Name) and isinstance(node.op, (ast.Add, ast.Sub, ast.Mult)) and \
                isinstance(node.value, (ast.Constant, ast.Name, ast.BinOp)) and not (isinstance(node.value, ast.Constant) and not isinstance(node.value.value, (int, float))):
            # only where the right-hand side is visibly scalar: a constant, or arithmetic on names/constants without subscripts/calls
            if all(isinstance(x, (ast.Constant, ast.Name, ast.BinOp, ast.operator, ast.expr_context, ast.UnaryOp, ast.unaryop)) for x in ast.walk(node.value)) \
                    and isinstance(node.value, (ast.Constant, ast.BinOp)):
                return ast.copy_location(ast.Assign(targets=[ast.Name(id=node.target.id, ctx=ast.Store())],
                                                    value=ast.BinOp(left=ast.Name(id=node.target.id, ctx=ast.Load()), op=node.op, right=node.value)), node)
        return node


class InvertIfElse(ast.NodeTransformer):
    """if c: A else: B  ->  if not c: B else: A   (only two-armed ifs whose else arm is not an elif chain)"""

    def visit_If(self, node):
        self.generic_visit(node)
        if node.orelse and not (len(node.orelse) == 1 and isinstance(node.orelse[0], ast.If)):
            t = node.test
            if isinstance(t, ast.UnaryOp) and isinstance(t.op, ast.Not):
                nt = t.operand
            else:
                nt = ast.UnaryOp(op=ast.Not(), operand=t)
            node.test, node.body, node.orelse = nt, node.orelse, node.body
        return node


class MirrorCompare(ast.NodeTransformer):
    """a < b -> b > a (single-operator order comparisons; evaluation order of side-effect-free operands only: names, attributes,
    subscripts, constants, arithmetic, len()/abs() calls)"""
    MIRROR = {ast.Lt: ast.Gt, ast.Gt: ast.Lt, ast.LtE: ast.GtE, ast.GtE: ast.LtE}

    @staticmethod
    def pure(e):
        for x in ast.walk(e):
            if isinstance(x, ast.Call) and not (isinstance(x.func, ast.Name) and x.func.id in ('len', 'abs', 'float', 'int')):
                return False
        return True

    def visit_Compare(self, node):
        self.generic_visit(node)
        if len(node.ops) == 1 and type(node.ops[0]) in self.MIRROR and self.pure(node.left) and self.pure(node.comparators[0]):
            return ast.copy_location(ast.Compare(left=node.comparators[0], ops=[self.MIRROR[type(node.ops[0])]()], comparators=[node.left]), node)
        return node


def keywordise(repo, srcs):
    """f(a, b, c) -> f(a, b=b', c=c') for calls of module-level package functions whose signature is known (no *args): trailing
    positional arguments become keyword arguments"""
    m = model.Model(repo=repo)
    out = {}
    for rel, src in srcs.items():
        mod = rel.split('/')[-1][:-3]
        tree = ast.parse(src)

        class T(ast.NodeTransformer):
            def visit_Call(self, node):
                self.generic_visit(node)
                try:
                    fi = m.resolve_callable(mod, node.func)
                except Exception:
                    fi = None
                if fi is None or fi.kind != 'function' or fi.node.args.vararg is not None or any(isinstance(a, ast.Starred) for a in node.args):
                    return node
                ps = [a.arg for a in fi.node.args.args]
                if len(node.args) < 2 or len(node.args) > len(ps):
                    return node
                keep = node.args[:1]
                newkw = [ast.keyword(arg=ps[i], value=a) for i, a in enumerate(node.args) if i >= 1]
                if any(k.arg in {x.arg for x in node.keywords} for k in newkw):
                    return node
                node.args = keep
                node.keywords = newkw + node.keywords
                return node
        out[rel] = ast.unparse(ast.fix_missing_locations(T().visit(tree))) + '\n'
    return out


def benign_variants(repo):
    """{name: overlay}"""
    out = {}
    root = os.path.join(repo, 'geomdl')
    srcs = {}
    for f in sorted(os.listdir(root)):
        if f.endswith('.py'):
            with open(os.path.join(root, f), encoding='utf-8') as fh:
                srcs['geomdl/' + f] = fh.read()
    out['reformat (ast.unparse: comments dropped, every line moved)'] = {k: ast.unparse(ast.parse(v)) + '\n' for k, v in srcs.items()}
    out['range(0, n) <-> range(n)'] = {k: ast.unparse(ast.fix_missing_locations(RangeSpelling().visit(ast.parse(v)))) + '\n' for k, v in srcs.items()}
    out['commutative operands of + and * swapped inside subscripts'] = {
        k: ast.unparse(ast.fix_missing_locations(SwapCommutative().visit(ast.parse(v)))) + '\n' for k, v in srcs.items()}
    out['every local variable renamed (x -> x_rn)'] = {
        k: ast.unparse(ast.fix_missing_locations(RenameLocals().visit(ast.parse(v)))) + '\n' for k, v in srcs.items()}
    out['x += c  ->  x = x + c (scalar counters)'] = {
        k: ast.unparse(ast.fix_missing_locations(AugExpand().visit(ast.parse(v)))) + '\n' for k, v in srcs.items()}
    out['if c: A else: B  ->  if not c: B else: A'] = {
        k: ast.unparse(ast.fix_missing_locations(InvertIfElse().visit(ast.parse(v)))) + '\n' for k, v in srcs.items()}
    out['f(a, b, c)  ->  f(a, p2=b, p3=c) for package functions'] = keywordise(repo, srcs)
    out['a < b  ->  b > a (order comparisons mirrored)'] = {
        k: ast.unparse(ast.fix_missing_locations(MirrorCompare().visit(ast.parse(v)))) + '\n' for k, v in srcs.items()}
    return out


# ---------------------------------------------------------------------- batteries
def seeded_for(pid):
    out = []
    for d in sorted(glob.glob(os.path.join(VERIF, 'seeded', '*'))):
        mp = os.path.join(d, 'meta.json')
        if not os.path.exists(mp):
            continue
        meta = json.load(open(mp))
        out.append((os.path.basename(d), meta, os.path.join(d, 'patch.diff')))
    return out


_OVERLAYS = {}


def _battery_task(t):
    pid, label = t
    fresh, errors, r = run_check(pid, _OVERLAYS[label])
    return label, [(o.rule, o.key) for o in fresh], list(errors)


def battery(pid, run, repo):
    """runs both batteries for property pid (on all cores: the overlays are prepared here, the worker processes are forked and each
    re-runs the check on one overlay); records results in run.extra; failed expectations become analysis errors"""
    import multiprocessing as mp
    read = repo_reader(repo)
    res = {'seeded': [], 'benign': []}
    _OVERLAYS.clear()
    seeded = {}
    for sid, meta, patch in seeded_for(pid):
        expected = pid in meta.get('caught_by', [])
        recorded_miss = pid in meta.get('not_reachable_for', [])
        if not expected and not recorded_miss:
            continue
        try:
            _OVERLAYS['seed:' + sid] = apply_patch(open(patch).read(), read)
            seeded['seed:' + sid] = (sid, meta, expected)
        except ValueError as ex:
            res['seeded'].append({'id': sid, 'result': 'patch does not apply to the current tree (%s)' % ex})
    benign = {}
    for name, ov in benign_variants(repo).items():
        _OVERLAYS['benign:' + name] = ov
        benign['benign:' + name] = name
    # (c) behaviour-preserving refactorings kept as diffs under /verif/benign (each passes the 222 tests and the demonstrations of the
    #     seeded changes it is derived from): no check may report anything on them
    for bp in sorted(glob.glob(os.path.join(VERIF, 'benign', '*.diff'))):
        try:
            _OVERLAYS['benign:' + os.path.basename(bp)] = apply_patch(open(bp).read(), read)
            benign['benign:' + os.path.basename(bp)] = os.path.basename(bp)
        except ValueError as ex:
            res['benign'].append({'edit': os.path.basename(bp), 'result': 'does not apply to the current tree (%s)' % ex})
    tasks = [(pid, label) for label in list(seeded) + list(benign)]
    nproc = max(1, min(16, (os.cpu_count() or 2)))
    try:
        ctx = mp.get_context('fork')
        with ctx.Pool(nproc) as pool:
            results = pool.map(_battery_task, tasks, chunksize=1)
    except (OSError, ValueError):
        results = [_battery_task(t) for t in tasks]
    for label, fresh, errors in results:
        if label in seeded:
            sid, meta, expected = seeded[label]
            caught = bool(fresh)
            res['seeded'].append({'id': sid, 'expected': 'caught' if expected else 'not reachable', 'caught': caught, 'errors': errors[:1],
                                  'rules': sorted({r_ for r_, _ in fresh})[:6]})
            if expected and not caught:
                run.error('self-test: seeded change %s is no longer reported by %s (rules expected: %s)' % (sid, pid, meta.get('caught_rules', {}).get(pid)))
        else:
            name = benign[label]
            ok = not fresh and not errors
            res['benign'].append({'edit': name, 'silent': ok, 'new_violations': fresh[:5], 'errors': errors[:2]})
            if not ok:
                run.error('self-test: benign edit `%s` changes the verdict of %s: %s %s' % (name, pid, fresh[:3], errors[:1]))
    _OVERLAYS.clear()
    restore_model()
    run.extra['selftest'] = res
    return res
