"""POLY/ALG: canonical multivariate polynomials over opaque atoms (strings), rational coefficients.

Used to compare index expressions, strides, extents and small algebraic identities in normal form,
so that rules are invariant under operand order, `x += e` spellings and local renaming
(callers supply an environment that resolves single-definition locals).
"""
import ast
from fractions import Fraction
from .model import norm


class Poly(object):
    __slots__ = ('t',)

    def __init__(self, terms=None):
        self.t = {k: v for k, v in (terms or {}).items() if v != 0}

    # construction
    @staticmethod
    def const(c):
        return Poly({(): Fraction(c)})

    @staticmethod
    def atom(name):
        return Poly({((name, 1),): Fraction(1)})

    # algebra
    def __add__(self, o):
        o = _p(o)
        d = dict(self.t)
        for k, v in o.t.items():
            d[k] = d.get(k, 0) + v
        return Poly(d)
    __radd__ = __add__

    def __neg__(self):
        return Poly({k: -v for k, v in self.t.items()})

    def __sub__(self, o):
        return self + (-_p(o))

    def __rsub__(self, o):
        return _p(o) - self

    def __mul__(self, o):
        o = _p(o)
        d = {}
        for k1, v1 in self.t.items():
            for k2, v2 in o.t.items():
                k = _mulmono(k1, k2)
                d[k] = d.get(k, 0) + v1 * v2
        return Poly(d)
    __rmul__ = __mul__

    def __pow__(self, n):
        r = Poly.const(1)
        for _ in range(int(n)):
            r = r * self
        return r

    def __eq__(self, o):
        return self.t == _p(o).t

    def __ne__(self, o):
        return not self.__eq__(o)

    def __hash__(self):
        return hash(frozenset(self.t.items()))

    # inspection
    def is_const(self):
        return all(k == () for k in self.t)

    def const_value(self):
        return self.t.get((), Fraction(0)) if self.is_const() else None

    def atoms(self):
        return {a for k in self.t for a, _ in k}

    def coeff_of(self, atom):
        """polynomial c such that self = c*atom + rest, rest free of atom (None if atom appears non-linearly)"""
        c = {}
        for k, v in self.t.items():
            d = dict(k)
            if atom in d:
                if d[atom] != 1:
                    return None
                del d[atom]
                c[tuple(sorted(d.items()))] = v
        return Poly(c)

    def divexact(self, d):
        """quotient q with self = q * d when d divides self exactly, else None (multivariate division by the leading term, lex order)"""
        if not d.t:
            return None
        if not self.t:
            return Poly()
        lead = lambda p: max(p.t, key=lambda k: sorted(k))
        dk = lead(d)
        dv = d.t[dk]
        dd = dict(dk)
        rem = self
        q = Poly()
        for _ in range(4000):
            if not rem.t:
                return q
            rk = lead(rem)
            rdict = dict(rk)
            if any(rdict.get(a, 0) < e for a, e in dd.items()):
                return None
            mono = {a: e - dd.get(a, 0) for a, e in rdict.items()}
            term = Poly({tuple(sorted((a, e) for a, e in mono.items() if e)): rem.t[rk] / dv})
            q = q + term
            rem = rem - term * d
        return None

    def diff(self, atom):
        """partial derivative with respect to an atom"""
        r = {}
        for k, v in self.t.items():
            d = dict(k)
            e = d.get(atom, 0)
            if e == 0:
                continue
            if e == 1:
                del d[atom]
            else:
                d[atom] = e - 1
            kk = tuple(sorted(d.items()))
            r[kk] = r.get(kk, 0) + v * e
        return Poly(r)

    def without(self, atom):
        return Poly({k: v for k, v in self.t.items() if atom not in dict(k)})

    def subs(self, atom, val):
        val = _p(val)
        r = Poly()
        for k, v in self.t.items():
            d = dict(k)
            p = d.pop(atom, 0)
            r = r + Poly({tuple(sorted(d.items())): v}) * (val ** p)
        return r

    def reduce(self, relations):
        """rewrite with relations [(atom, power, replacement Poly)], e.g. ('cos', 2, 1 - sin^2)"""
        cur = self
        for _ in range(16):
            changed = False
            for atom, power, repl in relations:
                r = Poly()
                for k, v in cur.t.items():
                    d = dict(k)
                    if d.get(atom, 0) >= power:
                        d[atom] -= power
                        if d[atom] == 0:
                            del d[atom]
                        r = r + Poly({tuple(sorted(d.items())): v}) * repl
                        changed = True
                    else:
                        r = r + Poly({k: v})
                cur = r
            if not changed:
                break
        return cur

    def __repr__(self):
        if not self.t:
            return '0'
        parts = []
        for k in sorted(self.t, key=lambda k: (len(k), k)):
            v = self.t[k]
            mono = '*'.join(a if p == 1 else '%s^%d' % (a, p) for a, p in k)
            if not mono:
                parts.append(str(v))
            elif v == 1:
                parts.append(mono)
            elif v == -1:
                parts.append('-' + mono)
            else:
                parts.append('%s*%s' % (v, mono))
        return ' + '.join(parts).replace('+ -', '- ')


def _p(x):
    if isinstance(x, Poly):
        return x
    return Poly.const(x)


def _mulmono(a, b):
    d = dict(a)
    for k, p in b:
        d[k] = d.get(k, 0) + p
    # x * inv(x) = 1
    for k in list(d):
        if k.startswith('inv(') and k[4:-1] in d:
            base = k[4:-1]
            m = min(d[k], d[base])
            d[k] -= m
            d[base] -= m
    return tuple(sorted((k, p) for k, p in d.items() if p))


class NotPoly(Exception):
    pass


def to_poly(e, env=None, atom_of=None, depth=0):
    """AST expression -> Poly.  env(name_node) -> Poly | ast expr | None resolves locals;
    atom_of(node) -> str names opaque sub-expressions (default: normalised text)."""
    if depth > 40:
        raise NotPoly('too deep')
    if isinstance(e, Poly):
        return e
    if isinstance(e, ast.Constant):
        if isinstance(e.value, bool) or not isinstance(e.value, (int, float)):
            raise NotPoly('constant %r' % (e.value,))
        return Poly.const(Fraction(e.value).limit_denominator(10**12) if isinstance(e.value, float) else e.value)
    if isinstance(e, ast.UnaryOp):
        if isinstance(e.op, ast.USub):
            return -to_poly(e.operand, env, atom_of, depth + 1)
        if isinstance(e.op, ast.UAdd):
            return to_poly(e.operand, env, atom_of, depth + 1)
    if isinstance(e, ast.BinOp):
        if isinstance(e.op, (ast.Add, ast.Sub, ast.Mult)):
            a = to_poly(e.left, env, atom_of, depth + 1)
            b = to_poly(e.right, env, atom_of, depth + 1)
            return a + b if isinstance(e.op, ast.Add) else (a - b if isinstance(e.op, ast.Sub) else a * b)
        if isinstance(e.op, ast.Pow):
            b = to_poly(e.right, env, atom_of, depth + 1)
            c = b.const_value()
            if c is not None and c.denominator == 1 and 0 <= c <= 6:
                return to_poly(e.left, env, atom_of, depth + 1) ** int(c)
        if isinstance(e.op, ast.Div):
            a = to_poly(e.left, env, atom_of, depth + 1)
            b = to_poly(e.right, env, atom_of, depth + 1)
            c = b.const_value()
            if c is not None and c != 0:
                return a * Poly.const(1 / c)
            if len(b.t) == 1:
                (k, v), = b.t.items()
                if len(k) == 1 and k[0][1] == 1:
                    return a * Poly.atom('inv(%s)' % k[0][0]) * Poly.const(1 / v)
            return a * Poly.atom('inv(%s)' % repr(b))
    if isinstance(e, ast.Name) and env is not None:
        r = env(e)
        if isinstance(r, Poly):
            return r
        if r is not None:
            return to_poly(r, env, atom_of, depth + 1)
    if isinstance(e, (ast.Name, ast.Attribute, ast.Subscript, ast.Call)):
        if isinstance(e, ast.Call) and isinstance(e.func, ast.Name) and e.func.id in ('int', 'float') and len(e.args) == 1:
            try:
                return to_poly(e.args[0], env, atom_of, depth + 1)
            except NotPoly:
                pass
        name = atom_of(e) if atom_of else None
        return Poly.atom(name or norm(e))
    raise NotPoly(norm(e))


def try_poly(e, env=None, atom_of=None):
    try:
        return to_poly(e, env, atom_of)
    except NotPoly:
        return None


def range_bounds(call, env=None, atom_of=None):
    """(lo, hi) polynomials of a `range(...)` call with step 1, in either spelling; None if not such a call"""
    if not (isinstance(call, ast.Call) and isinstance(call.func, ast.Name) and call.func.id == 'range') or len(call.args) not in (1, 2):
        return None
    try:
        if len(call.args) == 1:
            return Poly.const(0), to_poly(call.args[0], env, atom_of)
        return to_poly(call.args[0], env, atom_of), to_poly(call.args[1], env, atom_of)
    except NotPoly:
        return None
