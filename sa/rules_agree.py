"""AGREE / KIND rules: writer/reader key sets, sibling signatures, serial/parallel branches, value kinds."""
import ast
from .model import norm, walk_no_nested, params_of, AnalysisError


def site(fi, node=None):
    return 'geomdl/%s.py:%s in %s' % (fi.mod, getattr(node or fi.node, 'lineno', '?'), fi.key)


# ------------------------------------------------------------------ key sets
def dict_keys_built(fn):
    """constant keys of dict(...) / {...} literals returned or built in fn -> {key: node}"""
    out = {}
    for n in walk_no_nested(fn):
        if isinstance(n, ast.Call) and isinstance(n.func, ast.Name) and n.func.id == 'dict':
            for k in n.keywords:
                if k.arg:
                    out.setdefault(k.arg, k.value)
        elif isinstance(n, ast.Dict):
            for k, v in zip(n.keys, n.values):
                if isinstance(k, ast.Constant) and isinstance(k.value, str):
                    out.setdefault(k.value, v)
        elif isinstance(n, ast.Assign):
            for t in n.targets:
                if isinstance(t, ast.Subscript) and isinstance(t.slice, ast.Constant) and isinstance(t.slice.value, str):
                    out.setdefault(t.slice.value, n.value)
    return out


def dict_keys_read(fn, name):
    """constant keys read from dict variable `name`: mandatory (subscript) and optional ('k' in d / d.get)"""
    must, opt = {}, {}
    for n in walk_no_nested(fn):
        if isinstance(n, ast.Subscript) and isinstance(n.value, ast.Name) and n.value.id == name and isinstance(n.slice, ast.Constant) \
                and isinstance(n.slice.value, str) and isinstance(n.ctx, ast.Load):
            must.setdefault(n.slice.value, n)
        if isinstance(n, ast.Compare) and len(n.ops) == 1 and isinstance(n.ops[0], (ast.In, ast.NotIn)) and isinstance(n.left, ast.Constant) \
                and isinstance(n.comparators[0], ast.Name) and n.comparators[0].id == name:
            opt.setdefault(n.left.value, n)
        if isinstance(n, ast.Call) and isinstance(n.func, ast.Attribute) and n.func.attr == 'get' and isinstance(n.func.value, ast.Name) \
                and n.func.value.id == name and n.args and isinstance(n.args[0], ast.Constant):
            opt.setdefault(n.args[0].value, n)
    # a subscript guarded by an `in` test of the same key is optional
    for k in list(must):
        if k in opt:
            node = must[k]
            p = node
            guarded = False
            while getattr(p, '_sa_parent', None) is not None:
                p = p._sa_parent
                if isinstance(p, ast.If) and any(isinstance(x, ast.Compare) and isinstance(x.left, ast.Constant) and x.left.value == k
                                                 for x in ast.walk(p.test)):
                    guarded = True
                if isinstance(p, ast.Try):
                    guarded = True
            if guarded:
                del must[k]
    return must, opt


# ------------------------------------------------------------------ signatures
def signature(fn):
    a = fn.args
    return (tuple(p.arg for p in a.args), len(a.defaults), bool(a.vararg), bool(a.kwarg), tuple(p.arg for p in a.kwonlyargs))


# ------------------------------------------------------------------ value kinds (KD1)
def env_kind(e, depth=0):
    """'str' if the expression can evaluate to an un-converted environment string, 'int' if surely int-like, None unknown"""
    if depth > 8:
        return None
    if isinstance(e, ast.Constant):
        return 'int' if isinstance(e.value, int) and not isinstance(e.value, bool) else ('none' if e.value is None else type(e.value).__name__)
    if isinstance(e, ast.Subscript) and norm(e.value) in ('os.environ', 'environ'):
        return 'str'
    if isinstance(e, ast.Call):
        fn = norm(e.func)
        if fn in ('os.environ.get', 'os.getenv', 'environ.get', 'getenv'):
            if len(e.args) > 1:
                d = env_kind(e.args[1], depth + 1)
                return 'str'   # the found value is a str whatever the default
            return 'str'
        if fn == 'int':
            return 'int'
        return None
    if isinstance(e, ast.IfExp):
        a, b = env_kind(e.body, depth + 1), env_kind(e.orelse, depth + 1)
        if 'str' in (a, b):
            return 'str'
        if a == b:
            return a
        return None
    if isinstance(e, ast.BoolOp):
        ks = [env_kind(v, depth + 1) for v in e.values]
        return 'str' if 'str' in ks else (ks[0] if len(set(ks)) == 1 else None)
    return None


def memo_sites(m):
    """(FuncInfo, decorator Call, maxsize expr) for every lru_cache-decorated function"""
    out = []
    for fi in m.funcs.values():
        for d in fi.node.decorator_list:
            t = d.func if isinstance(d, ast.Call) else d
            name = t.id if isinstance(t, ast.Name) else (t.attr if isinstance(t, ast.Attribute) else '')
            if name == 'lru_cache':
                ms = None
                if isinstance(d, ast.Call):
                    ms = next((k.value for k in d.keywords if k.arg == 'maxsize'), d.args[0] if d.args else None)
                out.append((fi, d, ms))
    return out


# ------------------------------------------------------------------ serial / parallel branches (AG5)
def pool_calls(fn):
    """calls of the form pool.<method>(worker, iterable) inside `with pool_context(...) as pool`"""
    out = []
    for w in [n for n in walk_no_nested(fn) if isinstance(n, ast.With)]:
        for it in w.items:
            if isinstance(it.context_expr, ast.Call) and 'pool' in norm(it.context_expr.func).lower() and isinstance(it.optional_vars, ast.Name):
                pv = it.optional_vars.id
                for n in ast.walk(w):
                    if isinstance(n, ast.Call) and isinstance(n.func, ast.Attribute) and isinstance(n.func.value, ast.Name) and n.func.value.id == pv:
                        out.append((w, n))
    return out


def partial_parts(e):
    """worker expression -> (function name, {kw: text}, has_star_kwargs)"""
    if isinstance(e, ast.Call) and norm(e.func) in ('partial', 'functools.partial') and e.args:
        kws = {k.arg: norm(k.value) for k in e.keywords if k.arg}
        star = any(k.arg is None for k in e.keywords)
        return norm(e.args[0]), kws, star, [norm(a) for a in e.args[1:]]
    return norm(e), {}, False, []
