"""C14 - export followed by import reproduces the geometry (structural part)."""
import ast
from ..model import norm, AnalysisError, walk_no_nested, params_of
from ..poly import Poly
from .. import rules_axis as ra
from .. import rules_layout as rl
from .. import rules_agree as ag
from .. import layout
from .. import layout_drivers as ld
from ..layout import Interp, Sym, Lay, Obj, Fresh, UNK
from ..axis import suffix_axis

DECIDES = ('for the dict formats (JSON/YAML/cfg share them): every key the importer requires is written by the matching exporter, nested '
           'control_points.points/weights included, and each key is written from and read into the same property of the same direction; type '
           'maps of trim/container curves pair export_dict_X with import_dict_X for every type the exporter emits (AG1), and every membership-guarded lookup uses the key that was tested, so each element is dispatched on its own type (GK1), and a list collected in a loop (trim curves) is assigned to the shape once, after the loop (AGG1); for smesh/vmesh: the '
           'header records (dimension, degrees, sizes, one knot vector per direction in direction order) are written and read at the same '
           'record/field positions and the points start after them (AG2); writer and reader permutations compose to the identity per slab - the '
           'file layout produced by the writer is exactly what the reader\'s flip expects, slab loops cover every w-slab, and the list passed to '
           'set_ctrlpts has the declared sizes (LY1-LY3 by abstract interpretation through writer -> file -> reader); the weight form goes '
           'weighted -> (x,y,z,w) in the writer and (x,y,z,w) -> weighted in the reader through an inverse converter pair (WV1); text/CSV: '
           'row = u, column = v with canonical stride on export and (points, size_u, size_v) from (line count, column count) on import, '
           'separators decided by a same-direction comparison (LY1, TX1, AX5); the 2-D control point file helpers apply the helper they are named after to the array they read (FH1) and pass sizes that match the '
           'array they save (LY3f). exporters walk containers through the iteration protocol, which rewinds on every __iter__ and yields each element once (IT1). the knot vectors read from a file reach the imported shape unchanged only if that shape does not re-normalise them (IM1: known finding on the pinned tree for all five importers - shapes with un-normalised knot vectors come back normalised).')
NOT_DECIDED = 'equality up to printed precision, float formatting/parsing, third-party serialisers (json/yaml/libconf) and file I/O; freeform/evaluated data.'
TECHNIQUE = 'writer/reader key-set and record-table agreement, abstract interpretation of layouts through the file, weight-form typestate'
DECIDES += (" [ABSTRACT INTERPRETATION, exact] CV3: the weight / flip converters and their 2-D file variants on monomial cells (a file variant saves the result of its own converter with that array's row / column counts).")
DECIDES += (' TRM2: a trim of every kind an importer can build (spline, rational, freeform, container) is accepted by the setter the importers use; IV1: setting control points clears the cached rational views, so an imported rational shape reports the weights of the file.')
DECIDES += (' JR2: a rational curve, a trimmed non-square surface (spline, freeform and container trims) and a volume, built by interpreting the classes\' own constructors and setters on exact data, come back from export_dict_* followed by import_dict_* with the same degrees, sizes, knot vectors, homogeneous control points (exact), public weights / ctrlpts views, trims and delta.')

PAIRS = [('export_dict_crv', 'import_dict_crv'), ('export_dict_surf', 'import_dict_surf'), ('export_dict_vol', 'import_dict_vol'),
         ('export_dict_ff', 'import_dict_ff'), ('export_dict_multi_crv', 'import_dict_multi_crv')]
INPUT_ONLY = {'name', 'id', 'delta', 'reversed'}
KEY_ATTR = {'size_u': 'ctrlpts_size_u', 'size_v': 'ctrlpts_size_v', 'size_w': 'ctrlpts_size_w', 'points': 'ctrlpts', 'control_points': None}
DECIDES += (' [ABSTRACT INTERPRETATION, text mode, on the real classes] SM2: export_smesh / export_vmesh write the documented records (dimension; degrees; sizes; knot vectors; (x, y, z, w) per point, u varying first; closing 1), one file per element, and the readers interpreted on that text give the shape back exactly; TX2: the txt / csv control point formats have the documented line / column order and read back exactly, default and custom separators; JR3: export_json -> import_json on single shapes and containers (json modelled as the function it is on plain data), incl. the delta override; JR2 also on B-spline sources.')


def site(fi, node=None):
    return 'geomdl/%s.py:%s in %s' % (fi.mod, getattr(node or fi.node, 'lineno', '?'), fi.key)


def check(m, run):
    from .. import rules_state as _rs14
    _rs14.iv4_deepcopy(m, run)     # shapes that are copies of each other (translated siblings in a container) are exported each with its own data (DC9)
    # the dictionary formats of curves, surfaces (with trims of every kind) and volumes are decided by round trips through the real classes
    # (JR2, JR3); the rules that pair the keys the exporters write with the keys the importers read corroborate for these three pairs
    from .. import skel_drivers as _sdj
    n_jr = len(run.obs)
    try:
        _sdj.jr2(m, run)
        _sdj.jr3(m, run)
    except AnalysisError as ex:
        run.error(str(ex))
    jr_ok = len(run.obs) > n_jr and all(o.ok for o in run.obs[n_jr:])
    with run.corroborating(jr_ok, 'JR2/JR3', rules=(), only=lambda o: o.rule.startswith('AG1') and any(t in o.key for t in ('dict_crv', 'dict_surf', 'dict_vol'))):
        ag1(m, run)
    # the mesh formats are decided by interpreting the writers in text mode on shapes built by the real classes, checking the text against
    # the documented records and interpreting the readers on that very text (SM2); the rules that read how the writer assembles its
    # records and which fields the reader picks corroborate
    from .. import skel_drivers as _sd0
    n0 = len(run.obs)
    try:
        _sd0.sm2(m, run)
    except AnalysisError as ex:
        run.error(str(ex))
    sm_ok = len(run.obs) > n0 and all(o.ok for o in run.obs[n0:])
    with run.corroborating(sm_ok, 'SM2', rules=('AG2.record-table', 'WV1.weight-form')):
        ag2_and_layout(m, run)
    text_formats(m, run)
    file_helpers(m, run)
    wrappers(m, run)
    guard_keys(m, run)
    im1(m, run)
    aggregate_after_loop(m, run)
    from . import c10
    c10.iteration(m, run)
    run.floor('AG1.keys', 25, 'mandatory keys of the five dict pairs')
    run.floor('AG2.record-table', 14, 'header fields of smesh (7) and vmesh (10)')
    run.floor('WV1.weight-form', 4, 'two writers, two readers')
    # an imported rational shape reports the weights of the file: setting control points clears the cached rational views
    from .. import rules_state as _rs
    _rs.iv1(m, run, [('NURBS', 'Curve'), ('NURBS', 'Surface'), ('NURBS', 'Volume')], caches_filter=lambda c: c in ("_cache['ctrlpts']", "_cache['weights']"))
    from .. import skel_drivers as _sdt
    _sdt.trm2(m, run)      # every kind of trim a file can carry is accepted by the setter the importers use


def aggregate_after_loop(m, run):
    """AGG1: a list that is collected by append() inside a loop is handed to the object (attribute assignment or add()) after that loop,
    not inside it: several of the importing setters accumulate (Surface.trims appends), so assigning the growing list in every
    iteration stores the first elements again and again"""
    def findings(fn):
        out = []
        for lp in [x for x in walk_no_nested(fn) if isinstance(x, ast.For)]:
            appended = {c.func.value.id for c in ast.walk(lp) if isinstance(c, ast.Call) and isinstance(c.func, ast.Attribute) and c.func.attr == 'append'
                        and isinstance(c.func.value, ast.Name)}
            # only lists created before the loop (accumulators of this loop)
            created = {a.targets[0].id for a in walk_no_nested(fn) if isinstance(a, ast.Assign) and isinstance(a.targets[0], ast.Name)
                       and isinstance(a.value, (ast.List, ast.Call)) and a.lineno < lp.lineno and (isinstance(a.value, ast.List) and not a.value.elts
                                                                                              or (isinstance(a.value, ast.Call) and norm(a.value.func) == 'list' and not a.value.args))}
            inner_created = {a.targets[0].id for a in ast.walk(lp) if isinstance(a, ast.Assign) and isinstance(a.targets[0], ast.Name)}
            accs = (appended & created) - inner_created
            for acc in sorted(accs):
                handed = [a for a in walk_no_nested(fn) if isinstance(a, ast.Assign) and isinstance(a.targets[0], ast.Attribute) and isinstance(a.value, ast.Name) and a.value.id == acc]
                for h in handed:
                    out.append((h, acc, any(x is h for x in ast.walk(lp))))
        return out
    n = 0
    for fi in sorted(m.functions_in('_exchange'), key=lambda f: f.key):
        for h, acc, inside in findings(fi.node):
            n += 1
            run.ob('AGG1.collected-list-handed-over-after-its-loop', '%s :: %s' % (fi.key, norm(h)), not inside,
                   'assigned once, after the loop that fills `%s`' % acc if not inside else
                   '`%s` is executed in every iteration of the loop that is still filling `%s`: with an accumulating setter the first elements are stored repeatedly '
                   '(n items come back as n(n+1)/2)' % (norm(h), acc), site(fi, h))
    ctl = ast.parse('def f(o, data):\n    xs = []\n    for d in data:\n        xs.append(d)\n        o.items = xs\n').body[0]
    if [x[2] for x in findings(ctl)] != [True]:
        raise AnalysisError('AGG1 positive control not reported: rule is broken')
    run.ob('AGG1.collected-list-handed-over-after-its-loop', '_exchange', True, '%d hand-overs of collected lists found; positive control reported' % n)


def im1(m, run):
    """IM1: the knot vectors read from a file reach the imported shape unchanged: the shape an importer fills is created with
    normalize_kv=False (directly or through a flag read from the data) - a default-constructed shape re-normalises every knot vector it is
    given, so a shape exported with un-normalised knot vectors comes back with other knot vectors (same geometry, other parametrisation)"""
    n = 0
    for key in ('_exchange.import_dict_crv', '_exchange.import_dict_surf', '_exchange.import_dict_vol', '_exchange.import_surf_mesh', '_exchange.import_vol_mesh'):
        fi = m.func(key)
        seen = run.extra.get('imported_kv_normalize', {})
        if key in seen:
            # decided on the shape the importer actually returned when JR2 / SM2 interpreted it (whatever helper builds the shape)
            n += 1
            keeps = seen[key] is False
            run.ob('IM1.imported-knot-vectors-are-stored-unchanged', key, keeps,
                   'the imported shape does not normalise the knot vectors it is given' if keeps else
                   'the importer returns a shape created with the default normalize_kv=True and assigns the knot vectors of the file to it: a shape that was exported with '
                   'un-normalised knot vectors is imported with normalised ones (the formats carry no normalisation flag)', site(fi))
            continue
        ctor = [a for a in walk_no_nested(fi.node) if isinstance(a, ast.Assign) and isinstance(a.value, ast.Call) and
                (norm(a.value.func).startswith('shortcuts.generate_') or norm(a.value.func).split('.')[-1] in ('Curve', 'Surface', 'Volume'))]
        kvs = [a for a in walk_no_nested(fi.node) if isinstance(a, ast.Assign) and isinstance(a.targets[0], ast.Attribute) and a.targets[0].attr.startswith('knotvector')]
        if not ctor or not kvs:
            raise AnalysisError('%s: shape construction / knot vector assignment not found' % key)
        n += 1
        c = ctor[0].value
        keeps = any(k.arg == 'normalize_kv' for k in c.keywords)
        run.ob('IM1.imported-knot-vectors-are-stored-unchanged', key, keeps,
               'the shape is created with an explicit normalize_kv' if keeps else
               '`%s` creates a shape with the default normalize_kv=True and then assigns the knot vectors of the file: a shape that was exported with '
               'un-normalised knot vectors is imported with normalised ones (the formats carry no normalisation flag)' % norm(c), site(fi, ctor[0]))
    return n


def guard_keys(m, run):
    """GK1: a lookup M[k] guarded by `if k' in M` uses the key it tested (k == k'): the type maps dispatch each element on its own type and
    optional fields are read under the key that was found present"""
    n = 0
    for fi in sorted(m.functions_in('_exchange'), key=lambda f: f.key):
        for st in walk_no_nested(fi.node):
            if isinstance(st, ast.If) and isinstance(st.test, ast.Compare) and len(st.test.ops) == 1 and isinstance(st.test.ops[0], ast.In):
                M, A = norm(st.test.comparators[0]), norm(st.test.left)
                for b in st.body:
                    for x in ast.walk(b):
                        if isinstance(x, ast.Subscript) and norm(x.value) == M and isinstance(x.ctx, ast.Load):
                            n += 1
                            ok = norm(x.slice) == A
                            run.ob('GK1.guard-key-is-lookup-key', '%s :: %s[%s]' % (fi.key, M, norm(x.slice)), ok,
                                   'looked up under the tested key' if ok else
                                   'the presence test is on `%s` but the lookup uses `%s`: the guard does not protect this lookup (wrong branch / KeyError for the other key)'
                                   % (A, norm(x.slice)), site(fi, x))
    run.floor('GK1.guard-key-is-lookup-key', 20, 'optional fields and type maps of the dict importers/exporters')
    return n


# ---------------------------------------------------------------------------------------------- AG1
def written_keys(fn):
    """{key path tuple: attribute name written (or None)} for dict(...) literals and later data['k'] = ... / data['a']['b'] = ..."""
    out = {}

    def attr_of(v):
        v0 = v
        while isinstance(v, ast.Call) and isinstance(v.func, ast.Name) and v.func.id in ('list', 'tuple') and v.args:
            v = v.args[0]
        if isinstance(v, ast.Attribute):
            return v.attr
        return None

    def walk_dict(call, prefix):
        for k in call.keywords:
            if not k.arg:
                continue
            path = prefix + (k.arg,)
            if isinstance(k.value, ast.Call) and isinstance(k.value.func, ast.Name) and k.value.func.id == 'dict':
                out[path] = None
                walk_dict(k.value, path)
            else:
                out[path] = attr_of(k.value)
    rets = [r.value.id for r in walk_no_nested(fn) if isinstance(r, ast.Return) and isinstance(r.value, ast.Name)]
    dvar = rets[-1] if rets else 'data'
    for n in walk_no_nested(fn):
        if isinstance(n, ast.Assign) and isinstance(n.value, ast.Call) and isinstance(n.value.func, ast.Name) and n.value.func.id == 'dict' \
                and isinstance(n.targets[0], ast.Name) and n.targets[0].id == dvar:
            walk_dict(n.value, ())
        if isinstance(n, ast.Assign) and isinstance(n.targets[0], ast.Subscript):
            t, path = n.targets[0], []
            while isinstance(t, ast.Subscript) and isinstance(t.slice, ast.Constant):
                path.append(t.slice.value)
                t = t.value
            if isinstance(t, ast.Name) and t.id == dvar and path:
                out[tuple(reversed(path))] = attr_of(n.value)
                if isinstance(n.value, ast.Name):
                    # data['trims'] = trim_data  with  trim_data = dict(count=..., data=...)
                    for d in walk_no_nested(fn):
                        if isinstance(d, ast.Assign) and isinstance(d.targets[0], ast.Name) and d.targets[0].id == n.value.id and \
                                isinstance(d.value, ast.Call) and isinstance(d.value.func, ast.Name) and d.value.func.id == 'dict':
                            walk_dict(d.value, tuple(reversed(path)))
    return out


def read_keys(fn):
    """[(key path, attribute assigned or None, mandatory?, node)] for data['k'](['k2']) reads of the importer"""
    out = []
    dname = params_of(fn)[0]
    for n in walk_no_nested(fn):
        if isinstance(n, ast.Subscript) and isinstance(n.ctx, ast.Load) and isinstance(n.slice, ast.Constant) and isinstance(n.slice.value, str):
            par = getattr(n, '_sa_parent', None)
            if isinstance(par, ast.Subscript) and par.value is n and isinstance(par.slice, ast.Constant) and isinstance(par.slice.value, str):
                continue
            t, path = n, []
            while isinstance(t, ast.Subscript) and isinstance(t.slice, ast.Constant):
                path.append(t.slice.value)
                t = t.value
            if not (isinstance(t, ast.Name) and t.id == dname):
                continue
            path = tuple(reversed(path))
            # mandatory = not under an `if 'k' in data...` guard
            guarded = False
            p = n
            while getattr(p, '_sa_parent', None) is not None:
                p = p._sa_parent
                if isinstance(p, ast.If) and any(isinstance(x, ast.Compare) and isinstance(x.ops[0], ast.In) and isinstance(x.left, ast.Constant)
                                                 and x.left.value == path[-1] for x in ast.walk(p.test)):
                    guarded = True
                # ... or inside a try whose KeyError handler swallows the error (the key is simply skipped when absent)
                if isinstance(p, ast.Try) and any(n is y for b_ in p.body for y in ast.walk(b_)) and p.handlers and all(
                        (h.type is None or any(isinstance(t_, ast.Name) and t_.id in ('KeyError', 'LookupError', 'Exception') for t_ in ast.walk(h.type)))
                        and not any(isinstance(z, ast.Raise) for s_ in h.body for z in ast.walk(s_)) for h in p.handlers):
                    guarded = True
            st = n
            while st is not None and not isinstance(st, ast.stmt):
                st = getattr(st, '_sa_parent', None)
            attr = None
            if isinstance(st, ast.Assign) and isinstance(st.targets[0], ast.Attribute) and st.value is n:
                attr = st.targets[0].attr
            out.append((path, attr, not guarded, n))
    return out


def typemap(fn):
    out = {}
    for n in walk_no_nested(fn):
        if isinstance(n, ast.Assign) and isinstance(n.value, ast.Call) and isinstance(n.value.func, ast.Name) and n.value.func.id == 'dict' \
                and n.value.keywords and all(isinstance(k.value, ast.Name) and k.value.id.startswith(('export_dict', 'import_dict')) for k in n.value.keywords):
            out.update({k.arg: k.value.id for k in n.value.keywords})
        if isinstance(n, ast.Assign) and isinstance(n.value, ast.Dict) and n.value.values and all(
                isinstance(v, ast.Name) and v.id.startswith(('export_dict', 'import_dict')) for v in n.value.values):
            out.update({k.value: v.id for k, v in zip(n.value.keys, n.value.values)})
    return out


def ag1(m, run):
    for ex, im in PAIRS:
        fe, fi = m.func('_exchange.' + ex), m.func('_exchange.' + im)
        W = written_keys(fe.node)
        R = read_keys(fi.node)
        if not R:
            raise AnalysisError('%s: no key reads found' % fi.key)
        for path, attr, mandatory, node in R:
            if path[-1] in ('type',):
                continue
            key = '%s <- %s :: %s' % (im, ex, '.'.join(path))
            if path in W:
                wa = W[path]
                ra_ = KEY_ATTR.get(path[-1], path[-1]) if wa is None else wa
                same = attr is None or wa is None or attr == wa
                run.ob('AG1.keys', key, same, "written from `.%s`, read into `.%s`" % (wa, attr) if same else
                       "key %r is written from property `%s` but read into property `%s`" % ('.'.join(path), wa, attr), site(fi, node))
            elif mandatory:
                run.ob('AG1.keys', key, False, "the importer requires key %r, the exporter writes only %s" % ('.'.join(path), sorted('.'.join(p) for p in W)), site(fi, node))
            elif path[-1] in INPUT_ONLY:
                run.note('AG1.keys', key, 'optional input-only key (not written by the exporter)')
            else:
                run.ob('AG1.keys', key, False, "optional key %r is read but never written and not a documented input-only key" % '.'.join(path), site(fi, node))
        # every defining key written is also read
        readpaths = {p for p, _, _, _ in R}
        for path, wa in sorted(W.items()):
            if path[-1] in ('type', 'rational', 'dimension', 'count', 'name') or wa is None and path[-1] == 'control_points':
                continue
            if any(p[:len(path)] == path and len(p) > len(path) for p in readpaths):
                continue      # a parent key: its children are read
            run.ob('AG1.written-keys-read', '%s -> %s :: %s' % (ex, im, '.'.join(path)), path in readpaths,
                   'read by the importer' if path in readpaths else 'key %r is exported but the importer never reads it: the information is lost on a round trip' % '.'.join(path), site(fe))
        # type maps
        te, ti = typemap(fe.node), typemap(fi.node)
        for t, fname in sorted(te.items()):
            dual = fname.replace('export_', 'import_')
            ok = ti.get(t) == dual
            run.ob('AG1.type-map', '%s/%s :: %r' % (ex, im, t), ok, '%s <-> %s' % (fname, dual) if ok else
                   'the exporter writes curves of type %r with %s but the importer maps %r to %s: such curves are dropped or misread on import' % (t, fname, t, ti.get(t)), site(fi))
    # top-level wrapper: export_dict_str / import_dict_str
    fe, fi = m.func('_exchange.export_dict_str'), m.func('_exchange.import_dict_str')
    kinds = {}
    for n in walk_no_nested(fe.node):
        if isinstance(n, ast.If):
            et = [x.value.value for x in n.body if isinstance(x, ast.Assign) and isinstance(x.value, ast.Constant)]
            fn_ = [c.func.id for x in n.body for c in ast.walk(x) if isinstance(c, ast.Call) and isinstance(c.func, ast.Name) and c.func.id.startswith('export_dict')]
            if et and fn_:
                kinds[et[0]] = fn_[0]
    tm = typemap(fi.node)
    for t, fname in sorted(kinds.items()):
        ok = tm.get(t) == fname.replace('export_', 'import_')
        run.ob('AG1.type-map', 'export_dict_str/import_dict_str :: %r' % t, ok, '%s <-> %s' % (fname, tm.get(t)) if ok else 'shape type %r exported with %s, imported with %s' % (t, fname, tm.get(t)), site(fi))
    wk = {k.arg for n in walk_no_nested(fe.node) if isinstance(n, ast.Call) and isinstance(n.func, ast.Name) and n.func.id == 'dict' for k in n.keywords}
    rk = {n.slice.value for n in walk_no_nested(fi.node) if isinstance(n, ast.Subscript) and isinstance(n.slice, ast.Constant) and isinstance(n.slice.value, str)}
    run.ob('AG1.keys', 'import_dict_str <- export_dict_str :: wrapper keys', rk <= wk, 'wrapper keys %s' % sorted(rk) if rk <= wk else 'wrapper reads %s, writes %s' % (sorted(rk), sorted(wk)), site(fi))


# ---------------------------------------------------------------------------------------------- AG2 + layout + weight form
def writer_records(fn, objvar):
    """header records of a line-oriented writer: list of lists of attribute names, up to the point loop; -> (records, trailing)"""
    wf = [c for c in walk_no_nested(fn) if isinstance(c, ast.Call) and norm(c.func).endswith('write_file') and len(c.args) >= 2 and isinstance(c.args[1], ast.Name)]
    lvar = wf[0].args[1].id if wf else 'line'
    recs = []
    for n in sorted([x for x in walk_no_nested(fn) if isinstance(x, (ast.Assign, ast.AugAssign))], key=lambda x: (x.lineno, x.col_offset)):
        val = None
        if isinstance(n, ast.Assign) and isinstance(n.targets[0], ast.Name) and n.targets[0].id == lvar:
            val = n.value
        elif isinstance(n, ast.AugAssign) and isinstance(n.target, ast.Name) and n.target.id == lvar and not _in_point_loop(n):
            val = n.value
        if val is None:
            continue
        attrs = [x.attr for x in ast.walk(val) if isinstance(x, ast.Attribute) and isinstance(x.value, ast.Name) and x.value.id == objvar]
        # keep textual order
        attrs = sorted(set(attrs), key=lambda a: norm(val).find('.' + a))
        recs.append(attrs if attrs else [norm(val)])
    return recs


def _in_point_loop(n):
    p = getattr(n, '_sa_parent', None)
    while p is not None:
        if isinstance(p, ast.For) and isinstance(p.target, ast.Name) and isinstance(p.iter, ast.Name):
            return True
        p = getattr(p, '_sa_parent', None)
    return False


def content_var(fn):
    """the local holding the split lines of the file: the name most often indexed [const][const]"""
    cnt = {}
    for x in walk_no_nested(fn):
        if isinstance(x, ast.Subscript) and isinstance(x.value, ast.Subscript) and isinstance(x.value.value, ast.Name) \
                and isinstance(x.slice, ast.Constant) and isinstance(x.value.slice, ast.Constant):
            cnt[x.value.value.id] = cnt.get(x.value.value.id, 0) + 1
    if not cnt:
        raise AnalysisError('reader: no record/field accesses found')
    return max(cnt, key=cnt.get)


def reader_fields(fn):
    """{(record, field or None): attribute or local name} from content[i][j] / content[i] reads"""
    out = {}
    content = content_var(fn)
    for n in walk_no_nested(fn):
        if isinstance(n, ast.Assign):
            t = n.targets[0]
            tname = t.attr if isinstance(t, ast.Attribute) else (t.id if isinstance(t, ast.Name) else None)
            for x in ast.walk(n.value):
                if isinstance(x, ast.Subscript) and isinstance(x.value, ast.Subscript) and norm(x.value.value) == content \
                        and isinstance(x.slice, ast.Constant) and isinstance(x.value.slice, ast.Constant):
                    out[(x.value.slice.value, x.slice.value)] = tname
                elif isinstance(x, ast.Subscript) and norm(x.value) == content and isinstance(x.slice, ast.Constant) and \
                        not (isinstance(getattr(x, '_sa_parent', None), ast.Subscript) and x._sa_parent.value is x):
                    out[(x.slice.value, None)] = tname
    return out


def weight_form(fn, objvar, start=None):
    """forward typestate of the weight form of point lists: W weighted homogeneous, U4 (x, y, z, w), P plain"""
    env = dict(start or {})

    def form(e):
        if isinstance(e, ast.Name):
            return env.get(e.id)
        if isinstance(e, ast.Attribute):
            return {'ctrlptsw': 'W', 'ctrlpts': 'P'}.get(e.attr)
        if isinstance(e, ast.IfExp):
            a, b = form(e.body), form(e.orelse)
            return a if a == b else 'MIXED(%s|%s)' % (a, b)
        if isinstance(e, ast.Subscript):
            return form(e.value)
        if isinstance(e, ast.Call):
            f = norm(e.func).split('.')[-1]
            a = form(e.args[0]) if e.args else None
            if f in ('flip_ctrlpts', 'flip_ctrlpts_u', 'list', 'tuple'):
                return a
            if f == 'combine_ctrlpts_weights':
                return 'W' if a == 'P' else 'BAD(combine of %s)' % a
            if f == 'generate_ctrlpts_weights':
                return 'U4' if a == 'W' else 'BAD(generate_ctrlpts_weights of %s)' % a
            if f == 'generate_ctrlptsw':
                return 'W' if a == 'U4' else 'BAD(generate_ctrlptsw of %s)' % a
        return None

    def walk(body):
        for st in body:
            if isinstance(st, ast.Assign) and isinstance(st.targets[0], ast.Name):
                f = form(st.value)
                if f is not None:
                    env[st.targets[0].id] = f
                elif isinstance(st.value, ast.List) and not st.value.elts:
                    env.setdefault(st.targets[0].id, None)
            elif isinstance(st, ast.AugAssign) and isinstance(st.target, ast.Name):
                f = form(st.value)
                if f is not None:
                    env[st.target.id] = f
            elif isinstance(st, ast.If):
                e1 = dict(env)
                walk(st.body)
                a = dict(env)
                env.clear()
                env.update(e1)
                walk(st.orelse)
                for k in set(a) | set(env):
                    if a.get(k) != env.get(k):
                        env[k] = a.get(k) if env.get(k) is None else (env.get(k) if a.get(k) is None else 'MIXED(%s|%s)' % (a.get(k), env.get(k)))
            elif isinstance(st, (ast.For, ast.While, ast.With)):
                walk(st.body)
    walk(fn.body)
    return env, form


def ag2_and_layout(m, run):
    summ, _ = layout.flip_summaries(m)
    for wname, rname, pdim in (('exchange.export_smesh', '_exchange.import_surf_mesh', 2), ('exchange.export_vmesh', '_exchange.import_vol_mesh', 3)):
        fw, fr = m.func(wname), m.func(rname)
        loops = [n for n in walk_no_nested(fw.node) if isinstance(n, ast.For) and isinstance(n.iter, ast.Call) and norm(n.iter.func) == 'enumerate']
        if len(loops) != 1:
            raise AnalysisError('%s: per-shape loop not found' % wname)
        ovar = loops[0].target.elts[1].id
        recs = writer_records(fw.node, ovar)
        rf = reader_fields(fr.node)
        ax = 'uvw'[:pdim]
        want = [['dimension'], ['degree_' + a for a in ax], ['ctrlpts_size_' + a for a in ax]] + [['knotvector_' + a] for a in ax]
        for i, w in enumerate(want):
            got = recs[i] if i < len(recs) else None
            run.ob('AG2.record-table', '%s :: record %d' % (wname, i), got == w, 'record %d holds %s' % (i, w) if got == w else 'record %d of the file holds %s, the format defines %s' % (i, got, w), site(fw))
        # reader side
        rmap = {'degree_': 1, 'dim_': 2}
        for (rec, fld), tname in sorted(rf.items(), key=lambda kv: (kv[0][0], kv[0][1] if kv[0][1] is not None else -1)):
            if rec == 0 or tname is None:
                continue
            key = '%s :: content[%d]%s -> %s' % (rname, rec, '' if fld is None else '[%d]' % fld, tname)
            if rec in (1, 2) and fld is not None:
                a = suffix_axis(tname)
                wattr = want[rec][fld] if fld < len(want[rec]) else None
                if rec == 2:
                    # the size local flows to position `fld` of set_ctrlpts(list, su, sv[, sw]) (checked by LY3 below); here: record/field only
                    ok = wattr is not None
                else:
                    ok = a == fld and wattr is not None and tname == wattr
                run.ob('AG2.record-table', key, ok, 'field %d of record %d is `%s` on both sides' % (fld, rec, wattr) if ok else
                       'the reader takes `%s` from field %d of record %d, where the writer puts `%s`' % (tname, fld, rec, wattr), site(fr))
            elif rec >= 3 and fld is None and tname.startswith('knotvector'):
                ok = rec < len(want) and want[rec] == [tname]
                run.ob('AG2.record-table', key, ok, 'record %d is %s on both sides' % (rec, tname) if ok else 'the reader takes %s from record %d, where the writer puts %s' % (tname, rec, want[rec] if rec < len(want) else 'points'), site(fr))
        # points start after the header
        cvar = content_var(fr.node)
        sl = [x for x in walk_no_nested(fr.node) if isinstance(x, ast.Subscript) and norm(x.value) == cvar and isinstance(x.slice, ast.Slice)]
        okp = len(sl) == 1 and isinstance(sl[0].slice.lower, ast.Constant) and sl[0].slice.lower.value == len(want)
        run.ob('AG2.record-table', '%s :: first point record' % rname, okp, 'points are read from record %d, after %d header records' % (len(want), len(want)) if okp else
               'the writer emits %d header records but the reader starts reading points at %s' % (len(want), norm(sl[0].slice.lower) if sl else '?'), site(fr))
        # ---------------- layout through the file
        S = Obj('S', pdim)
        itw = Interp(wname, {ovar: S}, summ, select=lambda t: None)
        itw.run(loops[0].body)
        ld.emit(run, fw, itw, '[writer]')
        wf = [c for c in walk_no_nested(fw.node) if isinstance(c, ast.Call) and norm(c.func).endswith('write_file') and len(c.args) >= 2 and isinstance(c.args[1], ast.Name)]
        lvar = wf[0].args[1].id if wf else 'line'
        ploops = [n for n in ast.walk(loops[0]) if isinstance(n, ast.For) and isinstance(n.iter, ast.Name) and isinstance(n.target, ast.Name) and _writes_line(n, lvar)]
        written_reported = False
        if len(ploops) != 1:
            # the point records are not written from one named list: decide at least the weight form of whatever is written
            envw0, formw0 = weight_form(fw.node, ovar)
            any_loops = [n for n in ast.walk(loops[0]) if isinstance(n, ast.For) and isinstance(n.target, ast.Name) and _writes_line(n, lvar)
                         and not any(isinstance(x, ast.For) and x is not n and _writes_line(x, lvar) for x in ast.walk(n))]
            forms = [formw0(n.iter) for n in any_loops]
            forms = [f for f in forms if f is not None]
            if forms and any(f != 'U4' for f in forms):
                bad = [f for f in forms if f != 'U4'][0]
                run.ob('WV1.weight-form', '%s :: points written' % wname, False,
                       'the point records are written in form %s; the format stores (x, y, z, w), i.e. weighted points passed through generate_ctrlpts_weights' % bad, site(fw))
                written_reported = True
            else:
                raise AnalysisError('%s: point record loop not found' % wname)
        if not written_reported:
            Lfile = itw.env.get(ploops[0].iter.id)
            Lfile = itw.finish(Lfile) if isinstance(Lfile, Fresh) else Lfile
            if not isinstance(Lfile, Lay):
                raise AnalysisError('%s: file layout of the point records not resolved (%r)' % (wname, Lfile))
            run.extra.setdefault('file_layouts', {})[wname] = repr(Lfile)

            class RInterp(Interp):
                def ev(self, e, _L=Lfile, _c=cvar):
                    if isinstance(e, ast.Subscript) and norm(e.value) == _c and isinstance(e.slice, ast.Slice):
                        return _L
                    if isinstance(e, ast.Call) and norm(e.func) == 'int' and e.args and isinstance(e.args[0], ast.Subscript) \
                            and isinstance(e.args[0].value, ast.Subscript) and norm(e.args[0].value.value) == _c:
                        rec, fld = e.args[0].value.slice.value, e.args[0].slice.value
                        if rec == 2:
                            return S.size(fld)
                        return UNK
                    if isinstance(e, ast.Call) and isinstance(e.func, ast.Attribute) and e.func.attr in ('generate_volume', 'generate_surface'):
                        return Obj('R', pdim, labels=S.labels)
                    return Interp.ev(self, e)
            itr = RInterp(rname, {}, summ, select=lambda t: False)
            itr.run(fr.node.body)
            n_ = ld.emit(run, fr, itr, '[reader of %s]' % repr(Lfile))
            if not any(c[0] == 'LY3' and c[2] is not None for c in itr.checked):
                raise AnalysisError('%s: set_ctrlpts of the reader not resolved' % rname)
        # ---------------- weight form
        envw, formw = weight_form(fw.node, ovar)
        emitted = [n.iter for n in walk_no_nested(fw.node) if isinstance(n, ast.For) and isinstance(n.iter, ast.Name) and n.iter.id in envw and _writes_line(n, lvar)]
        fw_form = envw.get(emitted[0].id) if emitted else None
        if not written_reported:
          run.ob('WV1.weight-form', '%s :: points written' % wname, fw_form == 'U4',
               'file receives (x, y, z, w): weighted points divided by their weight' if fw_form == 'U4' else
               'the point records are written in form %s; the format stores (x, y, z, w), i.e. weighted points passed through generate_ctrlpts_weights' % fw_form, site(fw))
        start = {}
        for n in walk_no_nested(fr.node):
            if isinstance(n, ast.Assign) and isinstance(n.targets[0], ast.Name) and isinstance(n.value, ast.Subscript) and norm(n.value.value) == cvar:
                start[n.targets[0].id] = 'U4'
        envr, formr = weight_form(fr.node, None, start)
        sc = [c for c in walk_no_nested(fr.node) if isinstance(c, ast.Call) and isinstance(c.func, ast.Attribute) and c.func.attr == 'set_ctrlpts']
        rform = formr(sc[0].args[0]) if sc else None
        run.ob('WV1.weight-form', '%s :: points stored' % rname, rform == 'W',
               'the (x, y, z, w) records are converted to weighted points before set_ctrlpts' if rform == 'W' else
               'set_ctrlpts of the rational shape receives points in form %s, it expects weighted points' % rform, site(fr))


def _writes_line(loop, lvar='line'):
    return any(isinstance(x, ast.AugAssign) and isinstance(x.target, ast.Name) and x.target.id == lvar for x in ast.walk(loop))


# ---------------------------------------------------------------------------------------------- text / csv
def text_formats(m, run):
    # the control point text / CSV formats are decided by a text round trip on shapes of the real classes (TX2: documented line and column
    # order of the file, then the reader applied to that file); the rules that read the loop nest of the writer and the counters of the
    # reader corroborate
    from .. import skel_drivers as _sd
    n0 = len(run.obs)
    try:
        _sd.tx2(m, run)
    except AnalysisError as ex:
        run.error(str(ex))
    ok = len(run.obs) > n0 and all(o.ok for o in run.obs[n0:])
    with run.corroborating(ok, 'TX2', rules=('TX1.row-column-order', 'LY1.canonical-stride', 'AX5.cross-axis-compare')):
        _text_formats_syntactic(m, run)


def _text_formats_syntactic(m, run):
    fe = m.func('_exchange.export_text_data')
    rl.ly1_canonical(m, run, [fe])
    ra.ax5_cross_axis_compare(m, run, [fe, m.func('compatibility._save_ctrlpts2d_file')])
    sc = ra.scope_of(fe)
    nest = [n for n in walk_no_nested(fe.node) if isinstance(n, ast.For) and isinstance(n.iter, ast.Call) and norm(n.iter.func) == 'range']
    axes = [next(iter(sc.int_tags(n.target, n.body[0])), None) if isinstance(n.target, ast.Name) else None for n in nest[:2]]
    run.ob('TX1.row-column-order', fe.key, axes == [0, 1], 'one line per u, columns along v' if axes == [0, 1] else 'line/column loops run over directions %s; the format is row = u, column = v' % axes, site(fe))
    fi = m.func('_exchange.import_text_data')
    tx1_import(run, fi)
    tx1_import(run, m.func('compatibility._read_ctrltps2d_file'))
    run.floor('LY1.canonical-stride', 1, 'export_text_data')
    run.floor('AX5.cross-axis-compare', 2, 'separator decisions')


def tx1_import(run, fi):
    """returns (points, count of lines, count of columns): position 1 is incremented once per line (outer loop), position 2 per column"""
    rets = [n for n in walk_no_nested(fi.node) if isinstance(n, ast.Return) and isinstance(n.value, ast.Tuple) and len(n.value.elts) == 3]
    if not rets:
        raise AnalysisError('%s: 3-tuple return not found' % fi.key)
    a, b = rets[0].value.elts[1], rets[0].value.elts[2]

    def depth_of_incr(name):
        ds = []
        for n in walk_no_nested(fi.node):
            if isinstance(n, ast.AugAssign) and isinstance(n.target, ast.Name) and n.target.id == name and isinstance(n.op, ast.Add):
                d, p = 0, getattr(n, '_sa_parent', None)
                while p is not None:
                    if isinstance(p, ast.For):
                        d += 1
                    p = getattr(p, '_sa_parent', None)
                ds.append(d)
        return ds
    da, db = depth_of_incr(a.id) if isinstance(a, ast.Name) else [], depth_of_incr(b.id) if isinstance(b, ast.Name) else []
    ok = bool(da) and bool(db) and max(da) < min(db)
    run.ob('TX1.row-column-order', fi.key, ok, 'size_u counts lines, size_v counts columns' if ok else
           'the second returned value must count lines (u) and the third columns (v); increments found at loop depths %s / %s' % (da, db), site(fi))


# ---------------------------------------------------------------------------------------------- 2-D file helpers
def file_helpers(m, run, which=('pure', 'file')):
    """the converters and their X_file variants are decided on monomial cells (CV3); the syntactic rules on the X_file bodies corroborate"""
    from .. import skel_drivers as _sd
    n0 = len(run.obs)
    _sd.cv3(m, run, which)
    ok = all(o.ok for o in run.obs[n0:])
    with run.corroborating(ok, 'CV3', rules=('FH1.file-variant-applies-its-helper', 'LY3f.saved-sizes')):
        _file_helpers_syntactic(m, run)


def _file_helpers_syntactic(m, run):
    """X_file helpers: the array handed to _save_ctrlpts2d_file(arr, size_u, size_v) is [size_u][size_v]"""
    for name, transforms in (('flip_ctrlpts2d_file', True), ('generate_ctrlptsw2d_file', False), ('generate_ctrlpts2d_weights_file', False)):
        fi = m.func('compatibility.' + name)
        calls = [c for c in walk_no_nested(fi.node) if isinstance(c, ast.Call) and norm(c.func) == '_save_ctrlpts2d_file']
        reads = [n for n in walk_no_nested(fi.node) if isinstance(n, ast.Assign) and isinstance(n.value, ast.Call) and norm(n.value.func) == '_read_ctrltps2d_file'
                 and isinstance(n.targets[0], ast.Tuple) and len(n.targets[0].elts) == 3]
        if len(calls) != 1 or len(reads) != 1:
            raise AnalysisError('%s: read/save calls not found' % fi.key)
        arr0, su, sv = [e.id for e in reads[0].targets[0].elts]
        c = calls[0]
        arr = c.args[0]
        # is the saved array the transpose of the one read?
        flipped = False
        if isinstance(arr, ast.Name):
            ds = [n.value for n in walk_no_nested(fi.node) if isinstance(n, ast.Assign) and isinstance(n.targets[0], ast.Name) and n.targets[0].id == arr.id]
            flipped = bool(ds) and isinstance(ds[0], ast.Call) and norm(ds[0].func) == 'flip_ctrlpts2d'
        # the file variant applies the helper it is named after to the array it read, and saves that helper's result
        base = name[:-5]
        ds = [n.value for n in walk_no_nested(fi.node) if isinstance(arr, ast.Name) and isinstance(n, ast.Assign) and isinstance(n.targets[0], ast.Name)
              and n.targets[0].id == arr.id and isinstance(n.value, ast.Call)]
        okh = len(ds) == 1 and isinstance(ds[0].func, ast.Name) and ds[0].func.id == base and len(ds[0].args) >= 1 and norm(ds[0].args[0]) == arr0
        run.ob('FH1.file-variant-applies-its-helper', fi.key, okh, 'saves %s(%s)' % (base, arr0) if okh else
               'the saved array is `%s`: %s must save the result of %s applied to the array it read (a different converter, e.g. the inverse one, '
               'silently writes other data)' % (norm(ds[0])[:50] if ds else norm(arr), name, base), site(fi, c))
        passed = [norm(a) for a in c.args[1:3]]
        want = [sv, su] if flipped else [su, sv]
        run.ob('LY3f.saved-sizes', fi.key, passed == want,
               'saves a [%s][%s] array with sizes %s' % (want[0], want[1], passed) if passed == want else
               'the array saved is [%s][%s]%s but _save_ctrlpts2d_file is told the sizes %s: rows and columns are exchanged (IndexError or truncated file for non-square nets)'
               % (want[0], want[1], ' (u and v flipped)' if flipped else '', passed), site(fi, c))


def wrappers(m, run):
    """public txt/csv wrappers: separator options have the same keys and defaults on both sides and reach the parameter of the
    same role; the CSV reader skips exactly the header lines the writer emits"""
    ex, im = m.func('exchange.export_txt'), m.func('exchange.import_txt')
    opts = {}
    for fi in (ex, im):
        sc = ra.scope_of(fi)
        d = {}
        for n in walk_no_nested(fi.node):
            if isinstance(n, ast.Assign) and isinstance(n.value, ast.Call) and isinstance(n.value.func, ast.Attribute) and n.value.func.attr == 'get' \
                    and len(n.value.args) == 2 and isinstance(n.value.args[0], ast.Constant) and isinstance(n.value.args[1], ast.Constant):
                d[n.value.args[0].value] = n.value.args[1].value
        opts[fi.key] = d
        # argument roles at the delegation call
        calls = [c for c in walk_no_nested(fi.node) if isinstance(c, ast.Call) and norm(c.func).endswith(('export_text_data', 'import_text_data'))]
        if len(calls) != 1:
            raise AnalysisError('%s: delegation to *_text_data not found' % fi.key)
        callee = m.resolve_callable(fi.mod, calls[0].func)
        cps = params_of(callee.node)
        want = {'separator': 'sep', 'col_separator': 'col_sep'}
        for pos, a in enumerate(calls[0].args):
            org = sc.api_origin(a) if isinstance(a, ast.Name) else None
            if org in want:
                ok = pos < len(cps) and cps[pos] == want[org]
                run.ob('TXW.option-roles', '%s :: %s' % (fi.key, org), ok, 'option %r reaches parameter `%s`' % (org, cps[pos]) if ok else
                       'option %r is passed as parameter `%s` of %s; it is the `%s`' % (org, cps[pos] if pos < len(cps) else '?', callee.key, want[org]), site(fi, calls[0]))
            if isinstance(a, ast.Name) and a.id == 'two_dimensional':
                ok = pos < len(cps) and cps[pos] == 'two_dimensional'
                run.ob('TXW.option-roles', '%s :: two_dimensional' % fi.key, ok, 'flag reaches the same-named parameter', site(fi, calls[0]))
    a, b = opts[ex.key], opts[im.key]
    common = {k for k in a if k in b and 'separator' in k}
    okd = len(common) == 2 and all(a[k] == b[k] for k in common) and a.get('separator') != a.get('col_separator')
    run.ob('TXW.same-defaults', 'exchange.export_txt / import_txt', okd, 'separator defaults %s on both sides' % {k: a[k] for k in sorted(common)} if okd else
           'separator defaults differ between writer %s and reader %s: a file written with defaults cannot be read with defaults' % (a, b), site(im))
    # CSV: header lines written vs skipped, separator
    ec, ic = m.func('exchange.export_csv'), m.func('exchange.import_csv')
    skips = [k.value.value for c in walk_no_nested(ic.node) if isinstance(c, ast.Call) and norm(c.func).endswith('read_file') for k in c.keywords
             if k.arg == 'skip_lines' and isinstance(k.value, ast.Constant)]
    # header: statements that add "\n" to the output before the point loop
    ploop = [n for n in ec.node.body if isinstance(n, ast.For) and any(isinstance(x, ast.Call) and isinstance(x.func, ast.Attribute) and x.func.attr == 'join' for x in ast.walk(n))]
    hdr = 0
    if ploop:
        for n in ec.node.body:
            if n is ploop[0]:
                break
            if isinstance(n, (ast.Assign, ast.AugAssign)) and not isinstance(n, ast.For):
                hdr += norm(n.value).count('\\n')
    okc = bool(skips) and bool(ploop) and skips[0] == hdr
    run.ob('TXW.csv-header', 'exchange.export_csv / import_csv', okc, 'writer emits %d header line, reader skips %s' % (hdr, skips[0] if skips else '?') if okc else
           'the CSV writer emits %d header line(s) but the reader skips %s: the first data point is lost or the header is parsed as a point' % (hdr, skips), site(ic))
    joins = [c for c in ast.walk(ploop[0]) if isinstance(c, ast.Call) and isinstance(c.func, ast.Attribute) and c.func.attr == 'join'] if ploop else []
    wsep = joins[0].func.value.value if joins and isinstance(joins[0].func.value, ast.Constant) else None
    rsep = [n.value.args[1].value for n in walk_no_nested(ic.node) if isinstance(n, ast.Assign) and isinstance(n.value, ast.Call) and isinstance(n.value.func, ast.Attribute)
            and n.value.func.attr == 'get' and len(n.value.args) == 2 and isinstance(n.value.args[1], ast.Constant)]
    run.ob('TXW.same-defaults', 'exchange.export_csv / import_csv', wsep is not None and rsep and wsep == rsep[0], 'value separator %r on both sides' % wsep if rsep and wsep == rsep[0] else
           'CSV writer separates values with %r, reader default is %r' % (wsep, rsep), site(ic))
