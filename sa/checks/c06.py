"""C06 - removing a removable knot (structural part)."""
from .. import ops_common as oc

DECIDES = ('for remove_knot x {curve, surface u/v, volume u/v/w}: same block/direction, stride, gather/scatter and size-order rules as C04 '
           '(AX3, AX1, LY1, LY2, LY3); the net shrinks by num[k] on direction k only; every mutation is dominated by the false outcome of '
           '`check_num and num[k] > s_k`, s_k = find_multiplicity(param[k], knotvector_k) (GD2); wrappers as in C04 (WR1).')
NOT_DECIDED = ('exactness of A5.8 (removability test, alpha_i/alpha_j blending, restoration of the original control points). In particular the '
               'pinned tree\'s insert-then-remove failure inside helpers.knot_removal is numerical and has no structural signature: out of reach, not claimed.')
TECHNIQUE = 'axis-tag dataflow, stride rule in polynomial normal form, CFG dominance of guards, structural gather/scatter rules'


def check(m, run):
    fi = m.func('operations.remove_knot')
    oc.block_rules(m, run, fi, 'remove')
    oc.wrapper_rules(m, run, 'remove_knot', '_remove_knot_func')
