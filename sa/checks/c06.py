"""C06 - removing a removable knot (structural part)."""
from .. import ops_common as oc
from .. import skel_drivers

DECIDES = ('for remove_knot x {curve, surface u/v, volume u/v/w}: same block/direction, stride, gather/scatter and size-order rules as C04 '
           '(AX3, AX1, LY1, LY2, LY3); the net shrinks by num[k] on direction k only; every mutation is dominated by the false outcome of '
           '`check_num and num[k] > s_k`, s_k = find_multiplicity(param[k], knotvector_k) (GD2); wrappers as in C04 (WR1). [SKEL, bounded, exact per tuple] '
           'helpers.knot_removal runs the in-place algorithm A5.8 on a working copy: no element of the input array is read after the corresponding '
           'element of the working copy has been replaced - neither by a later removal step nor by the final shift (SS1) - and the result has '
           'n - num cells, every one a defined point of the input shape, for rows and for volume slabs (SK3). [ORDER TYPES, exact per type] helpers.knot_removal_kv returns the old knot vector without exactly num copies of the removed knot (KRM1). the [0, 1] parameter rejection is only evaluated for shapes with normalised knot vectors (RG1). the unweighted-points / weights views of rational shapes cannot survive the replacement of the net (IV1 restricted to these caches). the wrappers reach the operation on every normally returning path (WR1.always-delegates), optional coordinates are tested with `is None` (NONE1), the gathered control point view is re-read after the previous block replaced the net (GA1), and knot_removal_kv leaves its input knot vector untouched (PU1). [SKEL, abstract object] interpreted on an object created with normalize_kv=False, the named methods never reach utilities.check_params and hand the request on to the evaluator / operation (RG2: spelling-independent form of RG1). [SKEL, abstract objects] the whole operation interpreted on abstract curves, surfaces and volumes with index-labelled control points, ordered knots and a row helper of known effect: per requested direction and for all directions at once the net changes along the requested directions only, set_ctrlpts receives the new sizes in (u, v, w) order and every cell of the new flat list is the input cell at the mapped coordinates, the row helper receives the degree, row count and count of its direction, knot vectors of other directions are untouched, and no parameter value is used as a truth value (OPS2: spelling-independent form of AX3 / LY1 / LY2 / LY3 / GA1).')
NOT_DECIDED = ('exactness of A5.8 outside the enumerated nets (degree 2 and 3, insert-then-remove histories at span interiors and at existing knots) and to floating-point rounding; knots that are removable without having been inserted by these histories; the tolerance of the removability test (decided with an exact-equality stand-in).')
TECHNIQUE = 'axis-tag dataflow, stride rule in polynomial normal form, CFG dominance of guards, structural gather/scatter rules, bounded index-skeleton interpretation with working-copy tracking'
DECIDES += (' [ABSTRACT INTERPRETATION, exact] KR3: helpers.knot_removal applied to a net in which u was inserted r times returns, for t = 1..r removals, exactly the net with r - t copies inserted (t = r: the original control points), as a polynomial identity in the control points over rational knots; the removability test is decided exactly. This decides Eqs. 5.28 / 5.29 (alpha_i, alpha_j with their removal-index offsets) and the final shift indices.')
DECIDES += (' KD5: the setters store floats in fresh lists; TOL2: the multiplicity count compares every knot with the parameter through the tolerance.')


def kv_pure(m, run, key):
    """the knot vector helpers return a new list and leave the caller's knot vector alone (it is the object's live knot vector, and with
    normalize_kv=False possibly a list the user shares between directions or shapes)"""
    from ..pure import Purity
    from ..model import norm
    fi = m.func(key)
    s = Purity(m).summary(fi)
    mu = [x for x in s.mutations if x.root.startswith('param:')]
    run.ob('PU1.input-not-mutated', key, not mu, 'the input knot vector is only read' if not mu else
           'the caller\'s knot vector is modified in place at `%s`' % norm(mu[0].node)[:60], 'geomdl/%s.py:%s in %s' % (fi.mod, getattr(mu[0].node, 'lineno', '?') if mu else fi.node.lineno, key))


def check(m, run):
    fi = m.func('operations.remove_knot')
    from .. import skel_drivers as _sd
    _sd.kir3(m, run, ('insert', 'remove'))   # A5.8 undoes A5.1 exactly: removing t of r inserted copies leaves the net with r - t copies
    oc.shared_dependencies(m, run)
    oc.block_rules(m, run, fi, 'remove')
    oc.wrapper_rules(m, run, 'remove_knot', '_remove_knot_func')
    oc.optional_coordinate_rule(m, run)
    from .. import rules_state as rs
    rs.iv1(m, run, [('NURBS', 'Curve'), ('NURBS', 'Surface'), ('NURBS', 'Volume')], caches_filter=lambda c: c in ("_cache['ctrlpts']", "_cache['weights']"))
    oc.unit_range_rule(m, run, ('remove_knot',))
    run.floor('RG2.no-unit-range-test-for-un-normalised-shapes', 3, 'remove_knot of the three shape classes')
    skel_drivers.c06(m, run)
    skel_drivers.c06_kv(m, run)
    kv_pure(m, run, 'helpers.knot_removal_kv')
    run.floor('SS1.reads-follow-the-working-copy', 2, 'rows and slabs')
    from . import c03 as _c03
    _c03.multiplicity_rules(m, run)
    from .. import skel_drivers as _sdk
    _sdk.kd5(m, run)       # the per-row helpers dispatch on isinstance(point[0], float): the setters store floats


