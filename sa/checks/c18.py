"""C18 - shapes stay inside the hull of their control points (structural part)."""
import ast
from ..model import norm, AnalysisError, walk_no_nested, params_of
from ..poly import Poly, to_poly, NotPoly, range_bounds
from .. import rules_axis as ra
from .. import rules_layout as rl
from .. import rules_state as rs
from . import c01

DECIDES = ('the bounding box is computed from the unweighted control points (KD4) by a scan in which, for every point and every coordinate, '
           'the minimum is replaced on `<` and - independently - the maximum on `>`, starting from +inf / -inf, each coordinate against its own '
           'slot (AL6), and the cached box can never be stale after an edit of the control points (IV1 restricted to the bounding box cache, '
           'inductive over histories); the control points reported as active at a parameter are span - degree + i, i = 0..degree, per direction, '
           'of the same direction\'s span/degree/size (AG7) - the same set the evaluators accumulate over, which address the net canonically '
           '(LY1, BP1); the approximate length sums the distance of every consecutive pair of sampled points exactly once (LN1). the sampled points whose hull/box containment is claimed are sampled over the domain: default start/stop are the domain ends of their direction (DOM1). a deep copy shares neither its control points nor its cached views with its source, so editing one never changes the box or the hull of the other (IV4). the rational evaluators evaluate the requested parameters (they forward start/stop to their parent: EV2).')
NOT_DECIDED = ('hull containment itself, clamped end-point interpolation and the length bounds: they follow mathematically from non-negative partition of unity '
               '(C03, numerical) together with the structural facts above, and are not decided here.')
TECHNIQUE = 'view/kind rule, comparison-orientation rule, cache typestate, index-range rule in polynomial normal form'
DECIDES += (" BB2: evaluate_bounding_box on points of every order type of the coordinates returns the coordinate-wise extremes; LN2: length_curve is exactly the sum of the chords of consecutive sample points; CB2: a container's box follows its elements; BF3 (shared with C03): basis values are the Cox-de Boor polynomials, summing to one on every span.")
DECIDES += (' OWN2: two new objects of a class share no list or dictionary, so a cached box or control point view belongs to one shape.')


def site(fi, node=None):
    return 'geomdl/%s.py:%s in %s' % (fi.mod, getattr(node or fi.node, 'lineno', '?'), fi.key)


def check(m, run):
    kd4(m, run)
    al6(m, run)
    keep = lambda c: c == '_bounding_box'
    rs.iv1(m, run, rs.GEOM, caches_filter=keep)
    run.floor('IV1.no-stale-cache', 150, 'geometry classes x entries x bounding box cache')
    from . import c12
    # a container's box follows its elements: decided by read / edit an element / read again on real containers (CB2); the rule that looks
    # for an aggregate box cache filled from element state corroborates
    from .. import skel_drivers as _sd
    n_cb = len(run.obs)
    try:
        _sd.cb2(m, run)
    except AnalysisError as ex:
        run.error(str(ex))
    cb_ok = len(run.obs) > n_cb and all(o.ok for o in run.obs[n_cb:])
    with run.corroborating(cb_ok, 'CB2', rules=()):
        c12.iv5(m, run, keep=lambda key: 'box' in key)
    _sd.own2(m, run, rs.CONCRETE)      # the control points, caches and boxes read here are those of the shape asked: no container is shared between two new objects
    ag7(m, run)
    funcs = c01.evaluator_funcs(m)
    n_ev = len(run.obs)
    _sd.evx(m, run)
    _sd.a36s(m, run)
    _sd.a34s(m, run)
    ev_ok = all(o.ok for o in run.obs[n_ev:])
    with run.corroborating(ev_ok, 'EVX/A36S/A34S', rules=('LY1.canonical-stride',), only=lambda o: o.rule.startswith('LY1')):
        rl.ly1_canonical(m, run, funcs)
    c01.bp1(m, run, funcs)
    ln1(m, run)
    from . import c17
    c17.dom1(m, run)
    c17.ev2(m, run)
    # the hull property rests on the basis values being the Cox-de Boor polynomials - non-negative on their span and summing to one (BF3, shared with C03)
    from .. import skel_drivers as _sdb
    _sdb.bf3(m, run)
    # (EVX runs above) ... and every evaluated point being the combination of exactly the degree + 1 (per direction) active control points with them (EVX, shared with C01)
    _sdb.cp2(m, run)      # parameters are accepted exactly when they lie in the (normalised) domain: no tolerance lets an evaluation out of it
    rs.iv4_deepcopy(m, run)
    _sdb.sc2(m, run)
    rs.iv9_edits_through_setters(m, run)       # whoever moves control points goes through the setters, so the cached box is dropped (IV9, shared with C10 / C12)
    run.floor('LY1.canonical-stride', 3, 'surface/volume evaluators')


def kd4(m, run):
    fi = m.cls('abstract', 'SplineGeometry').getters.get('bbox')
    if fi is None:
        raise AnalysisError('SplineGeometry.bbox not found')
    calls = [c for c in walk_no_nested(fi.node) if isinstance(c, ast.Call) and norm(c.func).endswith('evaluate_bounding_box')]
    ok = len(calls) == 1 and norm(calls[0].args[0]) == 'self.ctrlpts'
    run.ob('KD4.bbox-view', fi.key, ok, 'box of self.ctrlpts (unweighted for rational shapes)' if ok else
           'the bounding box is computed from `%s`; homogeneous coordinates (x*w, y*w, z*w, w) are not points of the shape' % (norm(calls[0].args[0]) if calls else '?'), site(fi))
    # no subclass overrides bbox with another view, containers aggregate element boxes
    for k in m.subclasses(('abstract', 'SplineGeometry')):
        g = m.classes[k].getters.get('bbox')
        if g is not None and k != ('abstract', 'SplineGeometry'):
            run.ob('KD4.bbox-view', '%s.%s.bbox' % k, False, 'subclass overrides bbox', site(g))


def al6(m, run):
    # the bounding box scan is decided on points of every order type of the coordinates (BB2); the rule that reads the two update loops
    # corroborates
    from .. import skel_drivers as _sd
    n0 = len(run.obs)
    try:
        _sd.bb2(m, run)
    except AnalysisError as ex:
        run.error(str(ex))
    ok = len(run.obs) > n0 and all(o.ok for o in run.obs[n0:])
    with run.corroborating(ok, 'BB2', rules=('AL6.bbox-scan',)):
        _al6_syntactic(m, run)


def _al6_syntactic(m, run):
    fi = m.func('utilities.evaluate_bounding_box')
    inits = {}
    for n in walk_no_nested(fi.node):
        if isinstance(n, ast.Assign) and isinstance(n.targets[0], ast.Name) and isinstance(n.value, ast.ListComp) and isinstance(n.value.elt, ast.Call) \
                and norm(n.value.elt.func) == 'float' and isinstance(n.value.elt.args[0], ast.Constant):
            inits[n.targets[0].id] = n.value.elt.args[0].value
    rets = [r for r in walk_no_nested(fi.node) if isinstance(r, ast.Return)]
    order = [norm(e.args[0]) if isinstance(e, ast.Call) else norm(e) for e in rets[-1].value.elts] if rets and isinstance(rets[-1].value, ast.Tuple) else []
    if len(order) != 2 or not all(o in inits for o in order):
        raise AnalysisError('evaluate_bounding_box: (min, max) arrays not recognised')
    mn, mx = order
    run.ob('AL6.bbox-scan', fi.key + ' :: initial values', inits[mn] in ('inf', '+inf') and inits[mx] == '-inf',
           'min starts at +inf, max at -inf' if inits[mn] in ('inf', '+inf') and inits[mx] == '-inf' else 'initial values are min=%s max=%s' % (inits[mn], inits[mx]), site(fi))
    found = {}
    for test in [n for n in walk_no_nested(fi.node) if isinstance(n, ast.If)]:
        stores = [s for s in test.body if isinstance(s, ast.Assign) and isinstance(s.targets[0], ast.Subscript) and norm(s.targets[0].value) in (mn, mx)]
        if not stores or not isinstance(test.test, ast.Compare) or len(test.test.ops) != 1:
            continue
        arr = norm(stores[0].targets[0].value)
        op = test.test.ops[0]
        l, r = test.test.left, test.test.comparators[0]
        # which side is the coordinate, which the current bound? resolve through the zip(cpt, bound) loop
        loop = test
        while loop is not None and not isinstance(loop, ast.For):
            loop = getattr(loop, '_sa_parent', None)
        zipargs = []
        if loop is not None and isinstance(loop.iter, ast.Call):
            z = loop.iter.args[0] if norm(loop.iter.func) == 'enumerate' else loop.iter
            if isinstance(z, ast.Call) and norm(z.func) == 'zip':
                zipargs = [norm(a) for a in z.args]

        def role(e):
            if isinstance(e, ast.Subscript) and isinstance(e.slice, ast.Constant) and zipargs and e.slice.value < len(zipargs):
                return 'bound' if zipargs[e.slice.value] == arr else 'coord'
            if isinstance(e, ast.Subscript) and norm(e.value) == arr:
                return 'bound'
            return 'coord'
        rl_, rr = role(l), role(r)
        if {rl_, rr} != {'coord', 'bound'}:
            continue
        # normalise to  coord OP bound
        opn = type(op)
        if rl_ == 'bound':
            opn = {ast.Lt: ast.Gt, ast.Gt: ast.Lt, ast.LtE: ast.GtE, ast.GtE: ast.LtE}.get(opn, opn)
        want = (ast.Lt, ast.LtE) if arr == mn else (ast.Gt, ast.GtE)
        ok = opn in want
        # stored value is the coordinate and the slot is the same index
        sv = stores[0].value
        okst = role(sv) == 'coord'
        # independent of the other update: not in the orelse of an if that updates the other array
        par = getattr(test, '_sa_parent', None)
        dependent = isinstance(par, ast.If) and any(x is test for x in par.orelse)
        found[arr] = True
        run.ob('AL6.bbox-scan', '%s :: update of %s' % (fi.key, 'min' if arr == mn else 'max'), ok and okst and not dependent,
               '%s replaced when coordinate %s bound' % ('min' if arr == mn else 'max', '<' if arr == mn else '>') if ok and okst and not dependent else
               ('the %s update is only tried when the other bound was not updated (elif): a coordinate that sets a new minimum is never considered for the maximum'
                % ('min' if arr == mn else 'max') if dependent else 'the %s is replaced under `%s`' % ('min' if arr == mn else 'max', norm(test.test))), site(fi, test))
    run.ob('AL6.bbox-scan', fi.key + ' :: both bounds updated', set(found) == {mn, mx}, 'min and max scans found' if set(found) == {mn, mx} else 'only %s is updated' % sorted(found), site(fi))
    # every point is scanned
    loops = [n for n in fi.node.body if isinstance(n, ast.For)]
    okall = bool(loops) and norm(loops[0].iter) == params_of(fi.node)[0]
    run.ob('AL6.bbox-scan', fi.key + ' :: all points', okall, 'iterates over every input point' if okall else 'outer loop is `%s`' % (norm(loops[0].iter) if loops else '?'), site(fi))


def ag7(m, run, rule='AG7.active-control-points'):
    fc = m.func('_operations.find_ctrlpts_curve')
    fs = m.func('_operations.find_ctrlpts_surface')
    for fi, pdim in ((fc, 1), (fs, 2)):
        sc = ra.scope_of(fi)
        ra.ax1_helper_calls(m, run, [fi])
        # slot calls through span_func: AX1-like direction uniformity
        for c in [x for x in walk_no_nested(fi.node) if isinstance(x, ast.Call) and isinstance(x.func, ast.Name) and sc.api_origin(x.func) == 'find_span_func']:
            tags = set()
            for a in c.args[:3]:
                tags |= sc.int_tags(a, c)
            run.ob(rule, '%s :: %s' % (fi.key, norm(c)[:70]), len(tags) <= 1, 'span of one direction %s' % ra.fmt(tags) if len(tags) <= 1 else 'span search mixes directions %s' % ra.fmt(tags), site(fi, c))
        # source subscripts  ctrlpts[idx + i]  /  ctrlpts2d[idx_u + k][idx_v + l]
        subs = [x for x in walk_no_nested(fi.node) if isinstance(x, ast.Subscript) and isinstance(x.ctx, ast.Load) and 'ctrlpts' in norm(x.value)
                and not isinstance(getattr(x, '_sa_parent', None), ast.Subscript)]
        subs = [x for x in subs if (norm(x.value).endswith(('.ctrlpts', '.ctrlpts2d')) or (isinstance(x.value, ast.Subscript) and norm(x.value.value).endswith('.ctrlpts2d')))]
        if not subs:
            # the net is addressed through the flat array: the stride rule decides whether (u-part, v-part) are composed canonically
            n_flat = rl.ly1_canonical(m, run, [fi], rule=rule)
            if n_flat == 0:
                raise AnalysisError('%s: control point subscript not found' % fi.key)
            run.note(rule, fi.key, 'active control points are read from the flat array: composition checked by the stride rule (v + Sv*u), '
                     'the span - degree + i form of each part is not separated in this spelling')
            continue
        R = rl.Resolver(fi)
        for x in subs:
            chain = []
            b = x
            while isinstance(b, ast.Subscript):
                chain.append(b.slice)
                b = b.value
            chain.reverse()
            if len(chain) != pdim:
                continue
            for d, idx in enumerate(chain):
                try:
                    p = to_poly(idx, env=R.env(x))
                except NotPoly:
                    run.ob(rule, '%s :: %s index %d' % (fi.key, norm(x)[:50], d), False, 'index not polynomial', site(fi, x))
                    continue
                atoms = p.atoms()
                loopvars = [a for a in atoms if a.isidentifier() and sc.reaching(a, x) and sc.reaching(a, x)[0][3] == 'loop']
                def is_span(a):
                    if a.startswith('helpers.find_span'):
                        return True
                    if a.isidentifier():
                        ds_ = sc.reaching(a, x)
                        if len(ds_) == 1 and isinstance(ds_[0][1], ast.Call):
                            f_ = ds_[0][1].func
                            return norm(f_).startswith('helpers.find_span') or (isinstance(f_, ast.Name) and sc.api_origin(f_) == 'find_span_func')
                    return False
                spans = [a for a in atoms if is_span(a)]
                loopvars = [a for a in loopvars if a not in spans]
                degs = [a for a in atoms if 'degree' in a and not is_span(a)]
                ok = len(loopvars) == 1 and len(spans) == 1 and len(degs) == 1 and p == Poly.atom(spans[0]) - Poly.atom(degs[0]) + Poly.atom(loopvars[0])
                okrange = False
                if ok:
                    ds = sc.reaching(loopvars[0], x)
                    it = ds[0][1]
                    if isinstance(it, ast.Call) and norm(it.func) == 'range':
                        try:
                            hi = to_poly(it.args[-1] if len(it.args) < 3 else it.args[1])
                            lo = to_poly(it.args[0]) if len(it.args) >= 2 else Poly()
                            okrange = lo == Poly() and hi == Poly.atom(degs[0]) + 1
                        except NotPoly:
                            pass
                    if pdim == 2:
                        t = sc.int_tags(idx, x)
                        ok = ok and t == {d}
                run.ob(rule, '%s :: %s index %d' % (fi.key, norm(x)[:50], d), ok and okrange,
                       'index = span - degree + i, i = 0..degree of direction %s' % 'uvw'[d] if ok and okrange else
                       'active control point index is `%s` (range ok=%s); the non-vanishing basis functions at a parameter are span - degree .. span of the same direction' % (p, okrange), site(fi, x))
    # dispatcher passes (u, obj) and (u, v, obj)
    fd = m.func('operations.find_ctrlpts')
    calls = {c.func.attr: [norm(a) for a in c.args] for c in walk_no_nested(fd.node) if isinstance(c, ast.Call) and isinstance(c.func, ast.Attribute) and c.func.attr.startswith('find_ctrlpts_')}
    ps = params_of(fd.node)
    ok = calls.get('find_ctrlpts_curve') == [ps[1], ps[0]] and calls.get('find_ctrlpts_surface') == [ps[1], ps[2], ps[0]]
    run.ob(rule, fd.key + ' :: dispatch', ok, 'find_ctrlpts_curve(u, obj) / find_ctrlpts_surface(u, v, obj)' if ok else 'dispatch arguments are %s' % calls, site(fd))
    run.floor(rule, 6, 'curve index, surface indices u and v, span calls, dispatch')


def ln1(m, run):
    # the polyline length is decided on labelled sample points with symbolic chords (LN2); the rule that reads the accumulation loop corroborates
    from .. import skel_drivers as _sd
    n0 = len(run.obs)
    try:
        _sd.ln2(m, run)
    except AnalysisError as ex:
        run.error(str(ex))
    ok = len(run.obs) > n0 and all(o.ok for o in run.obs[n0:])
    with run.corroborating(ok, 'LN2', rules=('LN1.polyline-length',)):
        _ln1_syntactic(m, run)


def _ln1_syntactic(m, run):
    fi = m.func('operations.length_curve')
    loops = [n for n in walk_no_nested(fi.node) if isinstance(n, ast.For)]
    ok = False
    why = 'accumulation loop not recognised'
    if len(loops) == 1:
        lp = loops[0]
        acc = [s for s in lp.body if isinstance(s, ast.AugAssign) and isinstance(s.op, ast.Add) and isinstance(s.value, ast.Call) and norm(s.value.func).endswith('point_distance')]
        rb0 = range_bounds(lp.iter)
        if acc and rb0 is not None and rb0[0] == Poly.const(0):
            i = lp.target.id
            a0, a1 = acc[0].value.args
            sub = lambda e: to_poly(e.slice) if isinstance(e, ast.Subscript) else None
            try:
                pa, pb = sub(a0), sub(a1)
                n_ = to_poly(lp.iter.args[-1], env=lambda nm: next((x.value for x in walk_no_nested(fi.node) if isinstance(x, ast.Assign) and isinstance(x.targets[0], ast.Name)
                                                                 and x.targets[0].id == nm.id), None))
                same_arr = norm(a0.value) == norm(a1.value)
                lenatoms = [a for a in n_.atoms() if a.startswith('len(')]
                ok = pa is not None and {repr(pa), repr(pb)} == {repr(Poly.atom(i)), repr(Poly.atom(i) + 1)} and same_arr and len(lenatoms) == 1 and n_ == Poly.atom(lenatoms[0]) - 1 \
                    and 'evalpts' in lenatoms[0]
                why = 'sum over i = 0 .. n-2 of |P[i+1] - P[i]| on the sampled points' if ok else 'pairs (%s, %s) over range(%s)' % (pa, pb, n_)
            except NotPoly:
                pass
    run.ob('LN1.polyline-length', fi.key, ok, why, site(fi))
