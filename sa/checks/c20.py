"""C20 - planar predicates and spatial queries (structural part)."""
import ast
from ..model import norm, AnalysisError, walk_no_nested, params_of
from ..poly import Poly, to_poly, NotPoly, range_bounds
from .. import rules_axis as ra
from . import c16, c17, c18, c15

DECIDES = ('the control points looked up at a parameter are span - degree + i, i = 0..degree, per direction of the same direction\'s data (AG7), and an optional coordinate of the public lookups and wrappers is tested with `is None`, so 0.0 is a coordinate and not a missing argument (NONE1); '
           'voxelisation runs the same occupancy worker with the same arguments serially and in parallel through the order-preserving Pool.map '
           '(AG5), the per-axis step / origin range / extent of the voxel grid belong to one axis, the origin ranges are generated from the '
           'same steps that size the voxels, and the serial branch stores exactly the predicate\'s value (VX1); the orientation test is the 2-D '
           'cross product (p1 - p0) x (p2 - p0) as a polynomial identity (AL3) and is used with mirrored crossing rules by the winding test: upward '
           'edges (start <= y < end) count +1 when the point is strictly left, downward edges (start > y >= end) count -1 when strictly right, '
           'and inside means winding number != 0 (AL7, WN1); ray intersection classifies COLINEAR exactly under the zero cross product test, '
           'INTERSECT under the distance test and SKEW otherwise, and every tolerance-taking callee receives the caller\'s tolerance (RS1, TF1).')
NOT_DECIDED = 'the numerical values of ray parameters, convex hull output, voxel occupancy against sampled points, behaviour exactly on boundaries: numerical/geometric.'
TECHNIQUE = 'polynomial identities, comparison-operator lattice, branch equivalence, reaching definitions, tolerance-forwarding rule'
DECIDES += (' [ORDER TYPES, exact] WN2: wn_poly returns bool(sum over edges of [V_i.y <= P.y < V_i+1.y and P left] - [V_i+1.y <= P.y < V_i.y and P right]) for all 1215 (vertex-height order type, query height, side assignment) cases of a closed three-edge polygon; VX3 / AG52: voxelisation per element and serial = parallel (AL7 only corroborates).')
DECIDES += (' CH2: linalg.convex_hull on every 3 .. 5 point subset of the 3 x 3 grid in three input orders and every 4-point set of the 4 x 4 grid in general position: all extreme points, boundary points only, once each, counter-clockwise.')
DECIDES += (' KD5 / GV2: the 2-D view find_ctrlpts reads is the flat array at v + size_v * u; KD4: the voxel grid is laid over the bounding box of the unweighted control points.')


def site(fi, node=None):
    return 'geomdl/%s.py:%s in %s' % (fi.mod, getattr(node or fi.node, 'lineno', '?'), fi.key)


def check(m, run):
    c18.ag7(m, run)
    # find_ctrlpts, the bounding box and voxelisation read the unweighted view of rational shapes: it is the current one (IV1 on the rational
    # caches) and it is the object's own storage (ES1), shared with C09
    from .. import rules_state as _rs20
    from . import c09 as _c09
    _rs20.iv1(m, run, [('NURBS', 'Curve'), ('NURBS', 'Surface'), ('NURBS', 'Volume')], caches_filter=lambda c: c in ("_cache['ctrlpts']", "_cache['weights']"))
    _c09.no_escape(m, run)
    from .. import ops_common as oc
    oc.optional_coordinate_rule(m, run)
    c17.ag5(m, run)
    # the voxel grid is decided by exact interpretation on boxes of three different extents (VX2); the rules that read the comprehension
    # indices and the order of the step assignments corroborate
    from .. import skel_drivers as _sdv
    n_vx = len(run.obs)
    try:
        _sdv.vx2(m, run)
    except AnalysisError as ex:
        run.error(str(ex))
    vx_ok = len(run.obs) > n_vx and all(o.ok for o in run.obs[n_vx:])
    with run.corroborating(vx_ok, 'VX2', rules=('VX1.voxel-grid',)):
        vx1(m, run)
    c16.check_is_left(m, run, 'AL3.is-left')
    from .. import skel_drivers as _sd
    n0 = len(run.obs)
    _sd.wn2(m, run)
    _sd.ch2(m, run)        # the convex hull on every small point set, exact integers (collinear points and shared coordinates included)
    wn_ok = all(o.ok for o in run.obs[n0:])
    with run.corroborating(wn_ok, 'WN2', rules=('AL7.crossing-rule',)):
        al7(m, run)
    c15.wn1(m, run)
    # the ray statuses are decided on rays of the real class with exact coordinates (RS2); the rule that reads which facts hold at
    # each return corroborates
    n_rs = len(run.obs)
    try:
        _sdv.rs2(m, run)
    except AnalysisError as ex:
        run.error(str(ex))
    rs_ok = len(run.obs) > n_rs and all(o.ok for o in run.obs[n_rs:])
    with run.corroborating(rs_ok, 'RS2', rules=('RS1.ray-status',)):
        rs1(m, run)
    tf1(m, run, [m.func(k) for k in ('ray.intersect', 'ray._intersect2d', 'ray._intersect3d', '_voxelize.find_inouts_st', '_voxelize.find_inouts_mp')])
    run.floor('AG5.serial-parallel', 4, 'voxelize and container tessellate')
    run.floor('AL7.crossing-rule', 4, 'two edge classes x (range test, side test)')
    run.floor('TF1.tolerance-forwarded', 4, 'ray and voxel callees')
    c18.kd4(m, run)        # the voxel grid covers the bounding box of the shape: the box is taken over the unweighted control points
    from .. import skel_drivers as _sdk
    _sdk.kd5(m, run)       # find_ctrlpts reads the 2-D view: [u][v] of the view is the point stored at v + size_v * u


def vx1(m, run):
    fi = m.func('_voxelize.generate_voxel_grid')
    sc = ra.scope_of(fi)
    # per-axis coherence of  steps[idx] / bbox[.][idx] / szval[idx]  in the comprehensions
    for comp in [n for n in walk_no_nested(fi.node) if isinstance(n, ast.ListComp) and isinstance(n.generators[0].target, ast.Name)]:
        var = comp.generators[0].target.id
        subs = [x for x in ast.walk(comp.elt) if isinstance(x, ast.Subscript) and isinstance(x.slice, (ast.Name, ast.Constant))]
        idxs = {norm(x.slice) for x in subs if isinstance(x.slice, ast.Name) or (isinstance(x.slice, ast.Constant) and isinstance(x.value, ast.Subscript) is False and False)}
        per_axis = [x for x in subs if isinstance(x.slice, ast.Name)]
        if not per_axis:
            continue
        ok = all(x.slice.id == var for x in per_axis)
        run.ob('VX1.voxel-grid', '%s :: %s' % (fi.key, norm(comp)[:70]), ok, 'every per-axis quantity is indexed by the same axis variable' if ok else
               'per-axis quantities are indexed by different variables %s' % sorted({x.slice.id for x in per_axis}), site(fi, comp))
    # ranges are generated from the steps that also size the voxels: after the origin ranges have been generated, the step array is not
    # re-assigned before it sizes the voxels (e.g. by the use_cubes override) - otherwise origins are spaced by one step and voxels sized by another
    from ..cfg import CFG
    cfg = CFG(fi.node)
    fr = [c for c in walk_no_nested(fi.node) if isinstance(c, ast.Call) and norm(c.func).endswith('frange') and len(c.args) >= 3]
    if not fr:
        raise AnalysisError('generate_voxel_grid: frange call not found')
    a3 = fr[0].args[2]
    stepname = None
    if isinstance(a3, ast.Subscript) and isinstance(a3.value, ast.Name):
        stepname = a3.value.id
    elif isinstance(a3, ast.Name):
        for c in walk_no_nested(fi.node):
            if isinstance(c, ast.Call) and isinstance(c.func, ast.Attribute) and c.func.attr == 'append' and isinstance(c.func.value, ast.Name) \
                    and c.args and isinstance(c.args[0], ast.Name) and c.args[0].id == a3.id:
                stepname = c.func.value.id
    if stepname is None:
        raise AnalysisError('generate_voxel_grid: the step passed to frange is not an element of a step array (unknown idiom)')
    use = [n for n in walk_no_nested(fi.node) if isinstance(n, ast.Assign) and any(isinstance(z, ast.Call) and norm(z.func) == 'zip' and any(
        isinstance(x, ast.Name) and x.id == stepname for x in z.args) for z in ast.walk(n.value))]
    if not use:
        raise AnalysisError('generate_voxel_grid: voxel size statement (zip with the step array) not found')
    rnode, unode = cfg.node_of(fr[0]), cfg.node_of(use[0])
    redefs = [cfg.of[n] for n in walk_no_nested(fi.node) if isinstance(n, ast.Assign) and any(isinstance(t, ast.Name) and t.id == stepname for t in n.targets) and n in cfg.of]
    after_r = set()
    for sc_, lab in rnode.succ:
        after_r |= cfg.reach_from(sc_)
    between = [d for d in redefs if d in after_r and d is not rnode and unode in cfg.reach_from(d)]
    run.ob('VX1.voxel-grid', fi.key + ' :: ranges use the final steps', not between,
           'voxel origins and voxel sizes use the same step values' if not between else
           'the step array `%s` is re-assigned at line %d after the origin ranges were generated (line %d) and before it sizes the voxels: origins are spaced by '
           'one step and voxels sized by another, so the grid has gaps and does not cover the bounding box' % (stepname, between[0].ast.lineno, fr[0].lineno), site(fi, fr[0]))
    # nest order u, v, w and voxel = [bbmin, bbmax] with bbmax = bbmin + steps
    st = m.func('_voxelize.find_inouts_st')
    init = [n for n in walk_no_nested(st.node) if isinstance(n, ast.Assign) and isinstance(n.value, ast.ListComp) and isinstance(n.value.elt, ast.Constant) and n.value.elt.value == 0]
    setone = [n for n in walk_no_nested(st.node) if isinstance(n, ast.Assign) and isinstance(n.targets[0], ast.Subscript) and isinstance(n.value, ast.Constant) and n.value.value == 1]
    ok = False
    if init and setone:
        tst = getattr(setone[0], '_sa_parent', None)
        if isinstance(tst, ast.If) and isinstance(tst.test, ast.Name):
            d = [n for n in walk_no_nested(st.node) if isinstance(n, ast.Assign) and norm(n.targets[0]) == tst.test.id and isinstance(n.value, ast.Call)
                 and norm(n.value.func) == 'is_point_inside_voxel']
            lp = tst
            while lp is not None and not isinstance(lp, ast.For):
                lp = getattr(lp, '_sa_parent', None)
            same_idx = lp is not None and isinstance(lp.target, ast.Tuple) and norm(setone[0].targets[0].slice) == lp.target.elts[0].id and d and \
                norm(d[0].value.args[0]) == lp.target.elts[1].id
            rb = range_bounds(init[0].value.generators[0].iter)
            ok = bool(d) and bool(same_idx) and rb is not None and rb[0] == Poly.const(0) and rb[1] == Poly.atom('len(%s)' % params_of(st.node)[0])
    run.ob('VX1.voxel-grid', st.key + ' :: filled flag', ok, 'filled[k] = 1 exactly when the predicate holds for voxel k, 0 otherwise' if ok else 'serial occupancy flags are not the predicate value per voxel', site(st))


def al7(m, run):
    fi = m.func('linalg.wn_poly')
    pt, vs = params_of(fi.node)[:2]
    loops = [n for n in walk_no_nested(fi.node) if isinstance(n, ast.For)]
    if len(loops) != 1:
        raise AnalysisError('wn_poly: edge loop not found')
    lp = loops[0]
    if not isinstance(lp.target, ast.Name):
        raise AnalysisError('wn_poly: the edge loop does not run over a vertex index')
    i = lp.target.id
    outer = [n for n in lp.body if isinstance(n, ast.If)]
    if len(outer) != 1:
        raise AnalysisError('wn_poly: start-vertex test not found')
    o = outer[0]

    def ycmp(e):
        """(vertex offset 0/1, op with the vertex on the left) for `vertices[i(+1)][1] OP point[1]`"""
        if not (isinstance(e, ast.Compare) and len(e.ops) == 1):
            return None
        l, r, op = e.left, e.comparators[0], type(e.ops[0])
        flip = {ast.Lt: ast.Gt, ast.Gt: ast.Lt, ast.LtE: ast.GtE, ast.GtE: ast.LtE}
        if norm(r) == '%s[1]' % pt and isinstance(l, ast.Subscript) and norm(l.slice) == '1' and norm(l.value.value) == vs:
            off = to_poly(l.value.slice) - Poly.atom(i)
            return int(off.const_value()), op
        if norm(l) == '%s[1]' % pt and isinstance(r, ast.Subscript) and norm(r.slice) == '1' and norm(r.value.value) == vs:
            off = to_poly(r.value.slice) - Poly.atom(i)
            return int(off.const_value()), flip.get(op, op)
        return None

    def side(body):
        """(is_left op 0, increment) of the innermost test"""
        for n in ast.walk(ast.Module(body=body, type_ignores=[])):
            if isinstance(n, ast.If) and isinstance(n.test, ast.Compare) and isinstance(n.test.left, ast.Call) and norm(n.test.left.func) == 'is_left':
                inc = [s for s in n.body if isinstance(s, ast.AugAssign)]
                args = []
                for a in n.test.left.args:
                    if isinstance(a, ast.Subscript):
                        try:
                            args.append('%s[%s]' % (norm(a.value), to_poly(a.slice)))
                        except NotPoly:
                            args.append(norm(a))
                    else:
                        args.append(norm(a))
                return type(n.test.ops[0]), norm(n.test.comparators[0]), (type(inc[0].op), norm(inc[0].value)) if inc else None, args
        return None
    start = ycmp(o.test)
    up_in = [n for n in o.body if isinstance(n, ast.If)]
    dn_in = [n for n in o.orelse if isinstance(n, ast.If)]
    ok_up = start == (0, ast.LtE) and bool(up_in) and ycmp(up_in[0].test) == (1, ast.Gt)
    run.ob('AL7.crossing-rule', fi.key + ' :: upward edge range', ok_up, 'upward crossing: V[i].y <= P.y < V[i+1].y (start included, end excluded)' if ok_up else
           'upward-edge test is `%s` then `%s`; the crossing rule includes the start and excludes the end of an upward edge' % (norm(o.test), norm(up_in[0].test) if up_in else '?'), site(fi, o))
    ok_dn = start == (0, ast.LtE) and bool(dn_in) and ycmp(dn_in[0].test) == (1, ast.LtE)
    run.ob('AL7.crossing-rule', fi.key + ' :: downward edge range', ok_dn, 'downward crossing: V[i].y > P.y >= V[i+1].y (mirror image of the upward rule)' if ok_dn else
           'downward-edge test (else branch) is `%s`; it must be V[i+1].y <= P.y so that an edge ending exactly at P.y is counted by exactly one of the two rules'
           % (norm(dn_in[0].test) if dn_in else '?'), site(fi, o))
    su, sd = side(o.body), side(o.orelse)
    edge = ['%s[%s]' % (vs, Poly.atom(i)), '%s[%s]' % (vs, Poly.atom(i) + 1), pt]
    ok_su = su is not None and su[0] is ast.Gt and su[1] == '0' and su[2] == (ast.Add, '1') and su[3] == edge
    ok_sd = sd is not None and sd[0] is ast.Lt and sd[1] == '0' and sd[2] == (ast.Sub, '1') and sd[3] == edge
    run.ob('AL7.crossing-rule', fi.key + ' :: upward side test', ok_su, 'P strictly left of the upward edge: wn += 1' if ok_su else 'upward edge side test/increment is %s' % (su,), site(fi, o))
    run.ob('AL7.crossing-rule', fi.key + ' :: downward side test', ok_sd, 'P strictly right of the downward edge: wn -= 1' if ok_sd else 'downward edge side test/increment is %s' % (sd,), site(fi, o))
    # every edge V[i] -> V[i+1], i = 0 .. n-1 with n = len(vertices) - 1 (closed polygon, last vertex repeats the first)
    try:
        rb = range_bounds(lp.iter, env=lambda nm: next((x.value for x in walk_no_nested(fi.node) if isinstance(x, ast.Assign) and isinstance(x.targets[0], ast.Name)
                                                         and x.targets[0].id == nm.id), None))
        okr = rb is not None and rb[0] == Poly.const(0) and rb[1] == Poly.atom('len(%s)' % vs) - 1
    except NotPoly:
        okr = False
    run.ob('AL7.crossing-rule', fi.key + ' :: all edges', okr, 'edges 0 .. len(vertices) - 2' if okr else 'edge loop does not cover every edge of the closed polygon', site(fi, lp))


def rs1(m, run):
    fi = m.func('ray._intersect3d')
    from ..cfg import CFG
    cfg = CFG(fi.node)
    rets = [r for r in walk_no_nested(fi.node) if isinstance(r, ast.Return) and isinstance(r.value, ast.Tuple) and len(r.value.elts) == 3]
    seen = {}
    for r in rets:
        status = norm(r.value.elts[2]).split('.')[-1]
        facts = cfg.facts_at(cfg.node_of(r))
        zero = [pol for e, pol in facts if isinstance(e, ast.Call) and norm(e.func).endswith('vector_is_zero')]
        dist = [pol for e, pol in facts if isinstance(e, ast.Compare) and isinstance(e.left, ast.Call) and norm(e.left.func).endswith('point_distance')
                and isinstance(e.ops[0], (ast.Lt, ast.LtE))]
        seen[status] = (zero, dist)
    want = {'COLINEAR': ([True], []), 'INTERSECT': ([False], [True]), 'SKEW': ([False], [False])}
    for st, w in want.items():
        got = seen.get(st)
        run.ob('RS1.ray-status', '%s :: %s' % (fi.key, st), got == w,
               '%s is returned exactly when cross-is-zero=%s and distance-below-tolerance=%s' % (st, w[0], w[1]) if got == w else
               'status %s is returned under cross-is-zero=%s, distance test=%s; expected %s' % (st, got[0] if got else None, got[1] if got else None, w), site(fi))
    # the zero test is applied to the cross product of the two directions
    z = [c for c in walk_no_nested(fi.node) if isinstance(c, ast.Call) and norm(c.func).endswith('vector_is_zero')]
    okz = False
    if z and isinstance(z[0].args[0], ast.Name):
        d = [n.value for n in walk_no_nested(fi.node) if isinstance(n, ast.Assign) and norm(n.targets[0]) == z[0].args[0].id]
        okz = bool(d) and isinstance(d[0], ast.Call) and norm(d[0].func).endswith('vector_cross') and sorted(norm(a) for a in d[0].args) == ['ray1.d', 'ray2.d']
    run.ob('RS1.ray-status', fi.key + ' :: parallel test operand', okz, 'parallel test on d1 x d2' if okz else 'the zero test is not applied to the cross product of the two directions', site(fi))


def tf1(m, run, funcs, rule='TF1.tolerance-forwarded'):
    """inside a function that has a tolerance (parameter or kwargs.get('tol')), every call to a package function that takes a
    tolerance passes the caller's tolerance"""
    for fi in funcs:
        tolnames = {p for p in params_of(fi.node) if p == 'tol'}
        for n in walk_no_nested(fi.node):
            if isinstance(n, ast.Assign) and isinstance(n.targets[0], ast.Name) and isinstance(n.value, ast.Call) and isinstance(n.value.func, ast.Attribute) \
                    and n.value.func.attr == 'get' and n.value.args and isinstance(n.value.args[0], ast.Constant) and n.value.args[0].value == 'tol':
                tolnames.add(n.targets[0].id)
        if not tolnames:
            continue
        for c in [x for x in walk_no_nested(fi.node) if isinstance(x, ast.Call)]:
            target = c.func
            inner_kw = []
            if isinstance(c.func, ast.Name) and c.func.id == 'partial' and c.args:
                target = c.args[0]
                inner_kw = c.keywords
                pos = c.args[1:]
            else:
                inner_kw = c.keywords
                pos = c.args
            callee = m.resolve_callable(fi.mod, target) if isinstance(target, (ast.Name, ast.Attribute)) else None
            if callee is None or callee is fi:
                continue
            cps = params_of(callee.node)
            takes = 'tol' in cps or any(isinstance(x, ast.Call) and isinstance(x.func, ast.Attribute) and x.func.attr == 'get' and x.args and
                                        isinstance(x.args[0], ast.Constant) and x.args[0].value == 'tol' for x in ast.walk(callee.node))
            if not takes:
                continue
            passed = None
            if 'tol' in cps and cps.index('tol') < len(pos) and target is c.func:
                passed = pos[cps.index('tol')]
            for k in inner_kw:
                if k.arg == 'tol':
                    passed = k.value
            ok = passed is not None and isinstance(passed, ast.Name) and passed.id in tolnames
            run.ob(rule, '%s :: %s' % (fi.key, norm(c)[:80]), ok,
                   'the caller\'s tolerance is passed on' if ok else
                   '%s takes a tolerance but is called without the caller\'s `%s`: it silently uses its own default, so the option has no effect on this test'
                   % (callee.key, sorted(tolnames)[0]), site(fi, c))
