"""C07 - splitting and Bezier decomposition (structural part)."""
import ast
from ..model import norm, AnalysisError, walk_no_nested, params_of
from ..cfg import CFG
from ..poly import Poly, to_poly, NotPoly
from ..pure import Purity
from ..axis import suffix_axis, fmt, AXN
from .. import rules_axis as ra

DECIDES = ('the input of split_curve / split_surface_u / split_surface_v / decompose_curve / decompose_surface (and of the other '
           'non-mutating constructors: derivative_curve/surface, sweep_vector, construct.*, extract_*, convert.*) is never mutated: all '
           'mutation happens on copy.deepcopy(obj) or freshly constructed objects, shallow copies are not used (PU1); the rejection of a '
           'split at a domain end dominates all work and tests both ends of the split direction\'s own domain (GD3); the u/v variants are '
           'direction-coherent: degree, knot vector, size, multiplicity and the position of the parameter and of the insertion count in '
           'the per-direction lists all belong to the function\'s direction, the other direction is copied unchanged (AX3/AXL/AXK); the '
           'insertion count is degree - multiplicity of the split direction; decomposition iterates over exactly the interior knots '
           'kv[p+1 : -(p+1)] and uses the split functions in (u, v) order (DC1); [SKEL, bounded] the knot insertion skeleton used for splitting defines every output cell for every existing-knot multiplicity. the knot insertion helper that splitting is built on never hands a cell of its in-place-updated work array to the output without a deep copy (AL1). both span searches that the split functions accept (find_span_func) return exactly the half-open interval of the split parameter, also when it lies on a knot (OT1, order types); the working copy made by deepcopy shares no cache with the input (IV4). the fresh pieces receive the homogeneous control points of the refined copy - sliced from ctrlptsw when rational (or the weighted grid) and stored through set_ctrlpts / ctrlpts2d, never through the unweighted setter (RV1).')
NOT_DECIDED = ('coincidence of the pieces with the original under the affine domain map, slice offsets ks + r of the control net inside split_curve / split_surface_* (decided by the syntactic split rules only): index-arithmetic facts of the split functions themselves.')
TECHNIQUE = 'alias/mutation analysis with deep-mutation summaries, CFG dominance, axis tags'
DECIDES += (' [ABSTRACT INTERPRETATION] DC2: decompose_curve / decompose_surface on recorder shapes with order-token knots (repeated interior knots included) and stub split functions split once at every distinct interior knot of a requested direction, in ascending order, never along another direction, never on the input itself, and return the Bezier pieces in (u-major) parameter order; DC9: the deep copy the splits start from shares nothing with the input; KI3 / OPS2: the insertion the splits rely on SP3: split_curve (and split_surface_u / _v on a non-square net with different degrees) on recorder shapes with exact rational knots and symbolic (homogeneous when rational) control points returns exactly the left and right halves of the net refined to full multiplicity, with the knot vectors [knots < u, u x (p+1)] / [u x (p+1), knots > u], leaves its input untouched and rejects the domain ends (DC1 only corroborates).')
DECIDES += (' DC2 also requires that no piece is the input object; DC9 copies a non-square (2 x 4) surface net.')

PURE_FUNCS = ['operations.split_curve', 'operations.split_surface_u', 'operations.split_surface_v', 'operations.decompose_curve',
              'operations.decompose_surface', 'operations.derivative_curve', 'operations.derivative_surface', 'operations.length_curve',
              'operations.find_ctrlpts', 'operations.tangent', 'operations.normal',
              'sweeping.sweep_vector', 'construct.construct_surface', 'construct.construct_volume', 'construct.extract_curves',
              'construct.extract_surfaces', 'construct.extract_isosurface', 'convert.bspline_to_nurbs', 'convert.nurbs_to_bspline',
              '_convert.convert_curve', '_convert.convert_surface', '_convert.convert_volume']
SPLITS = {'operations.split_curve': (None, 1), 'operations.split_surface_u': (0, 2), 'operations.split_surface_v': (1, 2)}


def site(fi, node=None):
    return 'geomdl/%s.py:%s in %s' % (fi.mod, getattr(node or fi.node, 'lineno', '?'), fi.key)


def check(m, run):
    P = Purity(m)
    for key in PURE_FUNCS:
        fi = m.func(key)
        s = P.summary(fi)
        ps = params_of(fi.node)
        mu = [x for x in s.mutations if x.root.startswith('param:') and x.root[6:] in ps and x.root[6:] not in ('kwargs', 'kws')]
        run.ob('PU1.input-not-mutated', key, not mu,
               'no parameter is mutated (mutations only on deep copies / fresh objects)' if not mu else
               'parameter %s is mutated: %s at `%s`' % (mu[0].root[6:], mu[0].how[:120], norm(mu[0].node)[:70]), site(mu[0].func, mu[0].node) if mu else '')
        # no shallow copy of the geometry argument
        for n in walk_no_nested(fi.node):
            if isinstance(n, ast.Call) and norm(n.func) in ('copy.copy', 'copy') and n.args and isinstance(n.args[0], ast.Name) and n.args[0].id in ps:
                run.ob('PU1.no-shallow-copy', '%s :: %s' % (key, norm(n)), False,
                       'shallow copy of the input geometry shares its knot vectors and control points; later setters write through to the input', site(fi, n))
    run.ob('PU1.no-shallow-copy', 'listed functions', True, 'scanned %d functions' % len(PURE_FUNCS))
    run.floor('PU1.input-not-mutated', 20, 'non-mutating operations')
    # the split functions are decided on recorder shapes (SP3, SP3s: exact pieces - homogeneous for rational inputs -, input untouched,
    # domain ends rejected); the rules that read the guards, the directions of the helper calls and the view the pieces are filled
    # from corroborate
    from .. import skel_drivers as _sd
    n_sp = len(run.obs)
    _sd.sp3(m, run)          # split_curve on recorder curves: the pieces are the halves of the fully refined net, exactly
    _sd.sp3s(m, run)         # split_surface_u / _v on recorder surfaces (non-square net, different degrees), plain and rational
    sp_ok = len(run.obs) > n_sp and all(o.ok for o in run.obs[n_sp:])
    with run.corroborating(sp_ok, 'SP3/SP3s', rules=('GD3.domain-end-rejected', 'RV1.pieces-get-homogeneous-points', 'AX3.split-direction', 'AX3.piece-complete', 'AXL.list-position')):
        for key, (axis, pdim) in SPLITS.items():
            split_rules(m, run, m.func(key), axis, pdim)
        rv1(m, run)
    n0 = len(run.obs)
    _sd.dc2(m, run)
    dc_ok = all(o.ok for o in run.obs[n0:])
    with run.corroborating(dc_ok, 'DC2', rules=('DC1.interior-knots', 'DC1.split-functions-in-axis-order', 'DC1.direction-dispatch', 'DC1.repeated-split')):
        decompose_rules(m, run)
    # splitting inserts the split parameter up to full multiplicity, usually at an existing knot (s >= 1): the A5.1 cell skeleton
    from .. import skel_drivers
    skel_drivers.c04(m, run)
    from .. import ops_common as oc
    n_ki = len(run.obs)
    skel_drivers.kir3(m, run, ('insert',))
    ki_ok = all(o.ok for o in run.obs[n_ki:])
    with run.corroborating(ki_ok, 'KI3', rules=('AL1.no-shared-cells', 'PU1.rows-not-mutated')):
        oc.helper_alias_rules(m, run, 'helpers.knot_insertion')
    skel_drivers.ops2(m, run, 'insert_knot', 'knot_insertion', 1)     # every split is an insertion up to full multiplicity followed by a cut
    skel_drivers.c03_order(m, run)
    from .. import rules_state as rs
    rs.iv4_deepcopy(m, run)
    _sd.sc2(m, run)        # the pieces get their control points through set_ctrlpts: stored as given, whatever the precision
    _sd.kd5(m, run)        # ... and split_surface reads the 2-D view: [u][v] of the view is the point stored at v + size_v * u
    from . import c17 as _c17
    _c17.domain_getter(m, run)      # the split guards compare the parameter with the ends of the domain the getter reports (DG2, shared with C17)


def rv1(m, run):
    """RV1: the pieces are fresh objects, so they must receive the *homogeneous* data of the refined copy: the array that is sliced comes
    from `ctrlptsw` when the input is rational (or from `ctrlpts2d`, which is the weighted grid for rational surfaces) and is stored
    through set_ctrlpts / ctrlptsw / ctrlpts2d - never through the unweighted `ctrlpts` setter, which gives a fresh rational piece unit weights"""
    n = 0
    for key in SPLITS:
        fi = m.func(key)
        defs = {}
        for a in walk_no_nested(fi.node):
            if isinstance(a, ast.Assign) and len(a.targets) == 1 and isinstance(a.targets[0], ast.Name):
                defs.setdefault(a.targets[0].id, []).append(a.value)

        # names fed by X.append(v) inside a loop, and loop variables bound by iterating a view
        for x in walk_no_nested(fi.node):
            if isinstance(x, ast.Call) and isinstance(x.func, ast.Attribute) and x.func.attr in ('append', 'extend') and isinstance(x.func.value, ast.Name) and x.args:
                defs.setdefault(x.func.value.id, []).append(x.args[0])
            if isinstance(x, ast.For) and isinstance(x.target, ast.Name):
                defs.setdefault(x.target.id, []).append(x.iter)

        def root_view(e, depth=0, seen=None):
            """set of control point views the VALUE of an expression is taken from (indices and sizes are not followed)"""
            seen = seen if seen is not None else set()
            out = set()
            if depth > 8 or e is None:
                return out
            if isinstance(e, ast.Attribute):
                if e.attr in ('ctrlpts', 'ctrlptsw', 'ctrlpts2d'):
                    out.add(e.attr)
                return out
            if isinstance(e, ast.IfExp):
                b, o = root_view(e.body, depth + 1, seen), root_view(e.orelse, depth + 1, seen)
                if 'rational' in norm(e.test) and b == {'ctrlptsw'} and o == {'ctrlpts'}:
                    return {'w-if-rational'}
                return b | o | ({'other-conditional'} if (b | o) else set())
            if isinstance(e, ast.Subscript):
                return root_view(e.value, depth + 1, seen)
            if isinstance(e, ast.Name):
                if e.id in seen:
                    return out
                seen = seen | {e.id}
                for d in defs.get(e.id, []):
                    out |= root_view(d, depth + 1, seen)
                return out
            if isinstance(e, ast.Call):
                if isinstance(e.func, ast.Name) and e.func.id in ('list', 'tuple', 'deepcopy', 'reversed') and e.args:
                    return root_view(e.args[0], depth + 1, seen)
                if isinstance(e.func, ast.Attribute) and e.func.attr == 'deepcopy' and e.args:
                    return root_view(e.args[0], depth + 1, seen)
                return out
            if isinstance(e, (ast.List, ast.Tuple)):
                for x in e.elts:
                    out |= root_view(x, depth + 1, seen)
                return out
            if isinstance(e, ast.BinOp):
                return root_view(e.left, depth + 1, seen) | root_view(e.right, depth + 1, seen)
            if isinstance(e, ast.ListComp):
                return root_view(e.elt, depth + 1, seen) | root_view(e.generators[0].iter, depth + 1, seen)
            return out
        for st in walk_no_nested(fi.node):
            how, val = None, None
            if isinstance(st, ast.Expr) and isinstance(st.value, ast.Call) and isinstance(st.value.func, ast.Attribute) and st.value.func.attr == 'set_ctrlpts' and st.value.args:
                how, val = 'set_ctrlpts', st.value.args[0]
            elif isinstance(st, ast.Assign) and len(st.targets) == 1 and isinstance(st.targets[0], ast.Attribute) and st.targets[0].attr in ('ctrlpts', 'ctrlptsw', 'ctrlpts2d'):
                how, val = st.targets[0].attr, st.value
            if how is None:
                continue
            n += 1
            views = root_view(val)
            ok = how != 'ctrlpts' and views and views <= {'w-if-rational', 'ctrlptsw', 'ctrlpts2d'}
            run.ob('RV1.pieces-get-homogeneous-points', '%s :: %s' % (key, norm(st)[:60]), bool(ok),
                   'stored through %s from %s' % (how, sorted(views)) if ok else
                   'a fresh piece is filled through `%s` from the view(s) %s: for a rational input the weights of the piece are lost (unit weights) '
                   '- the refined copy\'s ctrlptsw (or ctrlpts2d) must be sliced and stored with set_ctrlpts' % (how, sorted(views)), site(fi, st))
    if n < 6:
        raise AnalysisError('RV1: only %d piece stores found in the split functions' % n)


def split_rules(m, run, fi, axis, pdim):
    cfg = CFG(fi.node)
    sc = ra.scope_of(fi)
    obj, param = params_of(fi.node)[:2]
    # ---- GD3
    copies = [n for n in walk_no_nested(fi.node) if isinstance(n, ast.Call) and norm(n.func) in ('copy.deepcopy', 'deepcopy', 'copy.copy')]
    first_work = min([n for n in walk_no_nested(fi.node) if isinstance(n, ast.Call) and not norm(n.func).startswith(('isinstance', 'GeomdlException', 'kwargs.'))],
                     key=lambda n: (n.lineno, n.col_offset))
    for target, label in ([(copies[0], 'copy of the input')] if copies else []) + [(first_work, 'first computation')]:
        facts = cfg.facts_at(cfg.node_of(target))
        ends = set()
        for e, pol in facts:
            if pol or not (isinstance(e, ast.Compare) and len(e.ops) == 1 and isinstance(e.ops[0], ast.Eq)):
                continue
            l, r = e.left, e.comparators[0]
            d = r if (isinstance(l, ast.Name) and l.id == param) else (l if isinstance(r, ast.Name) and r.id == param else None)
            if d is None:
                continue
            txt = norm(d)
            for end in (0, 1):
                want = '%s.domain[%d]' % (obj, end) if pdim == 1 else '%s.domain[%d][%d]' % (obj, axis, end)
                if txt == want:
                    ends.add(end)
        ok = ends == {0, 1}
        run.ob('GD3.domain-end-rejected', '%s :: before %s' % (fi.key, label), ok,
               'every path to the %s has passed param != domain start and param != domain end of the split direction' % label if ok else
               'the %s is reachable with param equal to a domain end of the split direction (ends tested: %s of %s)' % (
                   label, sorted(ends), '%s.domain' % obj + ('' if pdim == 1 else '[%d]' % axis)), site(fi, target))
    if pdim == 1:
        return
    # ---- AX3: helper calls carry the function's direction
    for call in [x for x in walk_no_nested(fi.node) if isinstance(x, ast.Call)]:
        f = call.func
        is_slot = isinstance(f, ast.Name) and sc.api_origin(f) == 'find_span_func'
        name = ra.helper_name(call)
        if not (is_slot or name):
            continue
        tags = set()
        for a in list(call.args) + [k.value for k in call.keywords]:
            tags |= sc.int_tags(a, call)
        if not tags:
            continue
        run.ob('AX3.split-direction', '%s :: %s' % (fi.key, norm(call)[:80]), tags == {axis},
               'direction %s' % AXN[axis] if tags == {axis} else 'split along %s but the call uses data of direction %s' % (AXN[axis], fmt(tags)), site(fi, call))
    # ---- r = degree_a - s ; s = find_multiplicity(param, knotvector_a)
    for n in walk_no_nested(fi.node):
        if isinstance(n, ast.Assign) and len(n.targets) == 1 and isinstance(n.targets[0], ast.Name) and isinstance(n.value, ast.BinOp) \
                and isinstance(n.value.op, ast.Sub) and isinstance(n.value.left, ast.Attribute) and n.value.left.attr.startswith('degree'):
            t = sc.int_tags(n.value, n)
            run.ob('AX3.split-direction', '%s :: %s' % (fi.key, norm(n)), t == {axis},
                   'insertion count uses the degree of direction %s' % AXN[axis] if t == {axis} else
                   'insertion count `%s` uses direction %s in the %s-split' % (norm(n.value), fmt(t), AXN[axis]), site(fi, n))
    # ---- AXL: positions in the per-direction lists handed to the insertion function
    ins = [x for x in walk_no_nested(fi.node) if isinstance(x, ast.Call) and isinstance(x.func, ast.Name) and sc.api_origin(x.func) == 'insert_knot_func']
    if len(ins) != 1:
        raise AnalysisError('%s: expected one call of the insertion slot' % fi.key)
    c = ins[0]
    lists = [(c.args[1] if len(c.args) > 1 else None, 'param'), (next((k.value for k in c.keywords if k.arg == 'num'), c.args[2] if len(c.args) > 2 else None), 'num')]
    for lst, what in lists:
        if not isinstance(lst, ast.List) or len(lst.elts) != pdim:
            run.ob('AXL.list-position', '%s :: %s list' % (fi.key, what), False, '`%s` is not a %d-element list' % (norm(lst), pdim), site(fi, c))
            continue
        for pos, el in enumerate(lst.elts):
            neutral = isinstance(el, ast.Constant) and el.value in (None, 0)
            ok = (not neutral) if pos == axis else neutral
            run.ob('AXL.list-position', '%s :: %s[%d]' % (fi.key, what, pos), ok,
                   ('slot %s carries `%s`' % (AXN[pos], norm(el))) if ok else
                   'the %s-split must put its %s in slot %s and a neutral value elsewhere; slot %s holds `%s`' % (AXN[axis], what, AXN[axis], AXN[pos], norm(el)), site(fi, c))
            if pos == axis and what == 'num' and not neutral:
                t = sc.int_tags(el, c)
                run.ob('AXL.list-position', '%s :: num[%d] direction' % (fi.key, pos), t <= {axis} and bool(t),
                       'count derives from direction %s' % AXN[axis] if t == {axis} else 'count `%s` derives from direction %s' % (norm(el), fmt(t)), site(fi, c))
    # ---- AXK: pieces copy every per-direction property from the same direction
    ra.axk_keyword_suffix(m, run, [fi])
    # ---- both pieces get all defining properties
    want = {'degree_u', 'degree_v', 'knotvector_u', 'knotvector_v', 'ctrlpts2d'}
    by_obj = {}
    for n in walk_no_nested(fi.node):
        if isinstance(n, ast.Assign) and len(n.targets) == 1 and isinstance(n.targets[0], ast.Attribute) and isinstance(n.targets[0].value, ast.Name):
            by_obj.setdefault(n.targets[0].value.id, set()).add(n.targets[0].attr)
    pieces = [k for k, v in by_obj.items() if 'ctrlpts2d' in v or 'ctrlpts' in v]
    for p in pieces:
        miss = want - by_obj[p]
        run.ob('AX3.piece-complete', '%s :: %s' % (fi.key, p), not miss, 'all defining properties set' if not miss else 'piece never receives %s' % sorted(miss), site(fi))
    run.ob('AX3.piece-complete', fi.key + ' :: two pieces', len(pieces) == 2, 'pieces %s' % pieces, site(fi))


def decompose_rules(m, run):
    from ..poly import Poly
    # interior-knot slices  kv[p+1 : -(p+1)]
    for key in ('operations.decompose_curve', 'operations.decompose_surface'):
        fi = m.func(key)
        nodes = [fi.node] + [n for n in ast.walk(fi.node) if isinstance(n, ast.FunctionDef) and n is not fi.node]
        cnt = 0
        for fn in nodes:
            for n in walk_no_nested(fn):
                if isinstance(n, ast.Assign) and isinstance(n.value, ast.Subscript) and isinstance(n.value.slice, ast.Slice) \
                        and 'knotvector' in norm(n.value.value):
                    sl = n.value.slice
                    try:
                        lo, hi = to_poly(sl.lower), to_poly(sl.upper)
                    except (NotPoly, TypeError):
                        continue
                    cnt += 1
                    datoms = [a for a in lo.atoms()]
                    ok = len(datoms) == 1 and 'degree' in datoms[0] and lo == Poly.atom(datoms[0]) + 1 and hi == -(Poly.atom(datoms[0]) + 1)
                    # same direction for knot vector and degree
                    kvt, dgt = norm(n.value.value), datoms[0] if datoms else ''
                    same = kvt.replace('knotvector', 'X') == dgt.replace('degree', 'X')
                    run.ob('DC1.interior-knots', '%s :: %s' % (key, norm(n)[:90]), ok and same,
                           'interior knots kv[p+1 : -(p+1)] of one direction' if ok and same else
                           'interior knot slice is [%s : %s] of %s; expected [p+1 : -(p+1)] with p the degree of the same direction' % (lo, hi, kvt), site(fi, n))
        if cnt < 2:
            raise AnalysisError('%s: interior knot slices not found (unknown idiom)' % key)
    fi = m.func('operations.decompose_surface')
    lists = [n for n in walk_no_nested(fi.node) if isinstance(n, ast.Assign) and isinstance(n.value, ast.List) and n.value.elts
             and all(isinstance(e, ast.Name) and e.id.startswith('split_surface') for e in n.value.elts)]
    ok = len(lists) == 1 and [suffix_axis(e.id) for e in lists[0].value.elts] == [0, 1]
    run.ob('DC1.split-functions-in-axis-order', fi.key, ok, 'split function list is %s' % (norm(lists[0].value) if lists else '?'), site(fi))
    # direction index passed to the inner decompose matches the requested direction letters
    for n in walk_no_nested(fi.node):
        if isinstance(n, ast.If) and isinstance(n.test, ast.Compare) and isinstance(n.test.comparators[0], ast.Constant) and n.test.comparators[0].value in ('u', 'v'):
            want = 'uv'.index(n.test.comparators[0].value)
            calls = [c for s in n.body for c in ast.walk(s) if isinstance(c, ast.Call) and isinstance(c.func, ast.Name) and c.func.id == 'decompose']
            ok = len(calls) == 1 and len(calls[0].args) >= 2 and isinstance(calls[0].args[1], ast.Constant) and calls[0].args[1].value == want
            run.ob('DC1.direction-dispatch', '%s :: %s' % (fi.key, norm(n.test)), ok, 'direction %r -> index %d' % (n.test.comparators[0].value, want), site(fi, n))
    # decompose_curve works on a deep copy and splits the remainder
    dc = m.func('operations.decompose_curve')
    loops = [n for n in walk_no_nested(dc.node) if isinstance(n, ast.While)]
    okl = len(loops) == 1 and any(isinstance(x, ast.Call) and norm(x.func) == 'split_curve' for x in ast.walk(loops[0]))
    run.ob('DC1.repeated-split', dc.key, okl, 'splits at the first interior knot until none is left' if okl else 'loop structure not recognised', site(dc))
