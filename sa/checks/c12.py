"""C12 - no stale derived state after any sequence of edits (inductive cache typestate)."""
from .. import rules_state as rs

DECIDES = ('INDUCTIVE INVARIANT over all finite histories of public calls: every public method / property setter / deleter of the 6 '
           'concrete geometry classes, the 3 containers and the grid generators (MRO-resolved, callees inlined, incl. operations.* '
           'applied in place) leaves every derived cache (evaluated points, bounding box, 2-D control grid, unweighted points and '
           'weights, tessellation, container aggregates, weighted grid) empty or consistent on every normal path (IV1); only the '
           'owning modules write defining fields (IV2); every cache key read is created on every construction path incl. deep copy '
           '(IV3); deep copies bind every attribute through copy.deepcopy and never share the cache (IV4); tessellator reset clears '
           'everything the tessellated-test reads (IV6). the transforms called without inplace return a deep copy on every path - also for the identity (multiplier 1, zero vector, zero angle) - so that editing the result never changes the argument (PU2, may-alias analysis).')
NOT_DECIDED = ('staleness through aliases handed out by getters (user mutating a returned list), evaluate(start=, stop=) partial ranges, '
               'container caches that depend on the state of elements stored by reference (IV5: design-level known finding), numerical '
               'equality of a recomputed view with a fresh object.')
TECHNIQUE = 'static typestate dataflow (cache state E/V/S) over MRO-resolved entries with inlining; who-may-write and construction-path rules'
DECIDES += (' DC9: the deep copy of every shape class, interpreted with the memo contract modelled, shares no container with its source (cache included), has the same content and the same aliasing structure; DOM2: a plain evaluate() asks the evaluator for the whole domain also when evaluated points are already stored; transposition follows the setter protocol (degrees, net, knots).')
DECIDES += (' IV9: outside the geometry classes nothing edits data reached from a geometry argument in place; IV8: cached views are read through their getters; TP2: transposition through the real setters.')
DECIDES += (" CK3: cache keys exist, empty and unshared, on new objects and deep copies of every concrete class; CB2: a container's bounding box follows edits of its elements (read / edit through the setter / read again, on real containers). INVAL propagates constant cache keys (loops over class-level key tuples, dictionary updates) and treats a missing tessellation component as an empty tessellation cache.")
DECIDES += (' CT2: a real SurfaceContainer of recorder surfaces through four rebuilds (first, after add, forced, after reset; container delta pushed or delta=False): vertices and faces once each, in order, numbered without gaps; OWN2: two new objects share no container.')


def check(m, run):
    n = rs.iv1(m, run, rs.CONCRETE)
    run.extra['entries_analysed'] = n
    rs.iv2_who_may_write(m, run)
    rs.iv3_cache_keys(m, run, rs.CONCRETE)
    rs.iv4_deepcopy(m, run)
    rs.iv6_reset_complete(m, run)
    # aggregates of a container filled from element state: the box aggregate is decided by read / edit an element / read again on real
    # containers (CB2) - a cached box that is validated against the current element boxes on every read is not stale-prone; the other
    # aggregates (evaluated points, vertices, faces) stay with IV5
    from .. import skel_drivers as _sd0
    from ..model import AnalysisError as _AE
    n_cb = len(run.obs)
    try:
        _sd0.cb2(m, run)
        _sd0.evx(m, run)       # sampled points are recomputed from the current definition: the evaluators keep nothing between calls (EVX, shared with C01)
        _sd0.tt2(m, run)       # the tessellation components rebuild whenever they are asked (what a forced rebuild relies on)
        _sd0.ct2(m, run)       # the mesh aggregate equals that of a freshly built container after every rebuild (CT2, shared with C15)
    except _AE as ex:
        run.error(str(ex))
    cb_ok = len(run.obs) > n_cb and all(o.ok for o in run.obs[n_cb:])
    with run.corroborating(cb_ok, 'CB2', rules=(), only=lambda o: o.rule.startswith('IV5') and 'box' in o.key):
        iv5(m, run)
    iv7(m, run)
    # a plain evaluate() re-evaluates the whole domain whatever points are stored (they may come from a sub-range)
    from .. import skel_drivers as _sd
    _sd.dom2(m, run)
    # transposition follows the definition protocol of the setters (degrees first, then the net, then the knots), otherwise a valid
    # transposed net is validated against the old degrees, rejected, and the surface is left reset
    from . import c13
    from .. import layout
    summ, _contracts = layout.flip_summaries(m)
    c13.transpose_checks(m, run, summ)
    _sd.fl3(m, run)      # flipping a surface goes through the setter: every cached view follows the reversed net
    from . import c10
    c10.pu2(m, run)      # without inplace, the transforms return an object that shares nothing with their argument: editing one never changes the other
    run.floor('IV1.no-stale-cache', 600, 'class x entry x cache triples on the pinned tree')
    run.floor('IV3.cache-key-init', 10, 'NURBS x2 keys x3 classes, containers, grid')
    run.floor('IV4.deepcopy-independent', 4, 'memo/attrs obligations')
    run.assume('a list returned by a getter is not mutated by the caller')
    from . import c09 as _c09
    _c09.reads_through_getters(m, run)      # a cached view is read only through its lazily filling getter (a direct read sees an empty or stale cache)
    rs.iv9_edits_through_setters(m, run)


def iv5(m, run, keep=None):
    """container caches are filled from the state of elements held by reference and handed out by add()/__getitem__/__iter__:
    every `self._cache[K]` store in a container class whose value derives from attributes of the contained elements is a cache the
    container cannot invalidate when an element is edited (one obligation per class and key)"""
    import ast
    from ..model import norm, walk_no_nested
    found = {}
    for ck in sorted(k for k in m.classes if k[0] == 'multi'):
        ci = m.classes[ck]
        hands_out = any(m.lookup(ck, nm, 'methods') is not None for nm in ('__getitem__', '__iter__'))
        members = list(ci.methods.values()) + list(ci.getters.values()) + list(ci.setters.values())
        for fi in members:
            tainted = set()
            changed = True
            while changed:
                changed = False
                for n in walk_no_nested(fi.node):
                    if isinstance(n, ast.For) and isinstance(n.target, ast.Name) and n.target.id not in tainted:
                        it = norm(n.iter)
                        if it in ('self._elements', 'self') or any(isinstance(x, ast.Name) and x.id in tainted for x in ast.walk(n.iter)):
                            tainted.add(n.target.id)
                            changed = True
                    if isinstance(n, (ast.Assign, ast.AugAssign)):
                        tg = n.targets[0] if isinstance(n, ast.Assign) else n.target
                        src = any((isinstance(x, ast.Name) and x.id in tainted) or norm(x) == 'self._elements' for x in ast.walk(n.value))
                        if src and isinstance(tg, ast.Name) and tg.id not in tainted:
                            tainted.add(tg.id)
                            changed = True
            for n in walk_no_nested(fi.node):
                if isinstance(n, (ast.Assign, ast.AugAssign)):
                    tg = n.targets[0] if isinstance(n, ast.Assign) else n.target
                    if isinstance(tg, ast.Subscript) and norm(tg.value) == 'self._cache' and isinstance(tg.slice, ast.Constant):
                        if any(isinstance(x, ast.Name) and x.id in tainted for x in ast.walk(n.value)):
                            found.setdefault((ck, tg.slice.value), (fi, n, hands_out))
    if keep is not None:
        found = {k: v for k, v in found.items() if keep(k[1])}
    for (ck, key), (fi, n, hands_out) in sorted(found.items()):
        run.ob('IV5.foreign-state-cache', "multi.%s :: _cache['%s'] depends on element state" % (ck[1], key), not hands_out,
               'the aggregate cache is filled (in %s) from attributes of elements that add()/__getitem__/__iter__ hand out by reference: editing an element '
               'after reading the container aggregate leaves the aggregate stale, and the container cannot observe the edit' % fi.key
               if hands_out else 'elements are not handed out', rs.site(fi, n))
    if not found:
        run.ob('IV5.foreign-state-cache', 'multi :: no aggregate cache', True, 'no container cache is filled from element state', '')


def foreign_cache_in(m, run, mod, holders, rule='IV5.foreign-state-cache'):
    """classes of `mod`: no `self._cache[K]` entry is filled from attributes of the objects held in `holders` (objects that other code
    renumbers or edits: a Triangle's vertices are renumbered by fix_numbering and by the container offsets)"""
    import ast
    from ..model import norm, walk_no_nested
    found = []
    for ck in sorted(k for k in m.classes if k[0] == mod):
        ci = m.classes[ck]
        for fi in list(ci.methods.values()) + list(ci.getters.values()) + list(ci.setters.values()):
            for n in walk_no_nested(fi.node):
                if not isinstance(n, (ast.Assign, ast.AugAssign)):
                    continue
                tg = n.targets[0] if isinstance(n, ast.Assign) else n.target
                if not (isinstance(tg, ast.Subscript) and norm(tg.value) == 'self._cache'):
                    continue
                src = False
                for c in ast.walk(n.value):
                    if isinstance(c, (ast.ListComp, ast.GeneratorExp, ast.SetComp)):
                        for g in c.generators:
                            if norm(g.iter) in holders and isinstance(g.target, ast.Name) and any(
                                    isinstance(x, ast.Attribute) and isinstance(x.value, ast.Name) and x.value.id == g.target.id for x in ast.walk(c.elt)):
                                src = True
                if src:
                    found.append((ck, norm(tg.slice), fi, n))
    for ck, key, fi, n in found:
        run.ob(rule, '%s.%s :: _cache[%s] depends on the state of held objects' % (ck[0], ck[1], key), False,
               'the cached value is computed from attributes of the objects in %s, which other code updates in place (vertex ids are renumbered after the '
               'triangles are built): a later read returns the stale value' % '/'.join(holders), rs.site(fi, n))
    if not found:
        run.ob(rule, '%s :: no cache over held objects' % mod, True, 'no class of %s caches values derived from the objects it holds' % mod, '')


def iv7(m, run):
    """the tessellation cache lives in the tessellator object: a component assigned to several elements inside a loop
    must be a fresh object per element (a call evaluated in the loop), never one loop-invariant reference"""
    import ast
    from ..model import norm, walk_no_nested
    n = 0
    for fi in m.functions_in('multi'):
        for loop in [x for x in walk_no_nested(fi.node) if isinstance(x, ast.For)]:
            for st in ast.walk(loop):
                if isinstance(st, ast.Assign) and len(st.targets) == 1 and isinstance(st.targets[0], ast.Attribute) \
                        and st.targets[0].attr in ('tessellator', '_tsl_component') and not (
                            isinstance(st.targets[0].value, ast.Name) and st.targets[0].value.id == 'self'):
                    n += 1
                    v = st.value
                    fresh = isinstance(v, ast.Call) and not (isinstance(v.func, ast.Attribute) and v.func.attr in ('get',))
                    run.ob('IV7.cache-holder-not-shared', '%s :: %s' % (fi.key, norm(st.targets[0])), fresh,
                           'each element receives its own component (`%s` is evaluated per iteration)' % norm(v) if fresh else
                           'every element of the container is given the same tessellator object `%s`; the tessellator stores vertices/faces, '
                           'so all elements share one tessellation cache and report the last surface\'s mesh' % norm(v), rs.site(fi, st))
    run.floor('IV7.cache-holder-not-shared', 1, 'SurfaceContainer.tessellator setter')
