"""C01 - evaluated points equal the B-spline/NURBS definition (structural part)."""
import ast
from ..model import norm, AnalysisError, walk_no_nested, params_of
from ..poly import Poly, to_poly, NotPoly
from .. import rules_axis as ra
from .. import rules_layout as rl
from .. import rules_agree as ag
from .. import pointmap
from . import c17

DECIDES = ('necessary conditions of the tensor-product sum: the control net is addressed as v + Sv*(u + Su*w) with the net\'s own sizes in every '
           'evaluator (LY1); each basis factor basis[d][.][x] is indexed by a variable of its own direction d which also offsets the direction-d '
           'component of the control point index, and runs over exactly degree[d] + 1 entries (BP1, LY5); span/basis helper calls and the '
           'linspace parameter grid use degree, knot vector, size, start, stop and sample count of one direction (AX1); every key read from '
           'the data dictionary is produced by the matching data property with per-direction arity (AG3); rational evaluators divide every '
           'coordinate but the last of a point by that same point\'s last slot (RP1); default start/stop parameters are the domain ends of '
           'their own direction (DOM1); all entry points of a class share one evaluator object call (EP1, reported); [SKEL, bounded] no index '
           'error and no placeholder consumed in A3.1/A3.5 skeletons. the [0, 1] parameter rejection is only evaluated for shapes with normalised knot vectors (RG1). the cached evaluated points can never be stale after an edit of the definition or of the sampling (IV1 restricted to the evaluated points cache, inductive over histories). every rational evaluator forwards all of its arguments, the start/stop range in **kwargs included, to its non-rational parent (EV2); [SKEL, bounded, exact per tuple] every evaluated point is computed from exactly the control points span - degree .. span of each direction at the canonical flat index (SK5 dependency footprint). both pluggable span searches return the non-empty half-open span of every parameter, knots of any multiplicity and the domain end included (OT1, order types). [SKEL, abstract object] interpreted on an object created with normalize_kv=False, the named methods never reach utilities.check_params and hand the request on to the evaluator / operation (RG2: spelling-independent form of RG1).')
NOT_DECIDED = ('numerical equality with the Cox-de Boor sum; correctness of span search and basis values (C03); exact end points of the sampled grid '
               '(floating point in linspace); the floating-point rounding of the sums themselves (the exact rules decide the algebra, not the last bit).')
TECHNIQUE = 'stride rule in polynomial normal form, axis-tag dataflow, key-set agreement, per-point map extraction'
DECIDES += (' [ABSTRACT INTERPRETATION, exact] EVX: evaluate() of all six evaluator classes, interpreted with symbolic basis tables and control points and recorder helpers, returns for every sample of the grid exactly the tensor-product sum (over the weight sum for rational shapes), listed u-major, every helper asked with the data of its own direction; A36S / A34S: the zeroth and higher derivatives of both evaluator families are the exact sums of A3.2 / A3.4 / A3.6 / A3.8 (spelling-independent: LY1, BP1, RP1, GO1 on the evaluators only corroborate). FD2: no sample-size getter truncates the float quotient 1 / delta.')
DECIDES += (' DG2: the domain getter returns (knot[degree], knot[-(degree+1)]) per direction; DC9: a deep copy (what every operation without inplace evaluates) shares nothing with its source; RG2: on an un-normalised shape every parameter of every entry point reaches the evaluator.')

EVAL_CLASSES = ['CurveEvaluator', 'CurveEvaluatorRational', 'CurveEvaluator2', 'SurfaceEvaluator', 'SurfaceEvaluatorRational', 'SurfaceEvaluator2',
                'VolumeEvaluator', 'VolumeEvaluatorRational']
DECIDES += (' BF3 (shared with C03): the basis values the evaluators combine equal the Cox-de Boor polynomials on every span of the enumerated rational knot vectors.')


def site(fi, node=None):
    return 'geomdl/%s.py:%s in %s' % (fi.mod, getattr(node or fi.node, 'lineno', '?'), fi.key)


def evaluator_funcs(m):
    out = []
    for c in EVAL_CLASSES:
        ci = m.cls('evaluators', c)
        out += [fi for fi in ci.methods.values() if fi.name in ('evaluate', 'derivatives')]
    return out


def check(m, run):
    funcs = evaluator_funcs(m) + [m.func('helpers.surface_deriv_cpts'), m.func('helpers.curve_deriv_cpts')]
    # point evaluation and the derivative tables are decided as exact identities on symbolic basis tables and control points (EVX, A36S,
    # A34S); the rules that read the index / loop spelling of the evaluators corroborate
    from .. import skel_drivers as _sd0
    n0 = len(run.obs)
    _sd0.evx(m, run)
    _sd0.a36s(m, run)
    _sd0.a34s(m, run)
    sem_ok = all(o.ok for o in run.obs[n0:])
    _sd0.bf3(m, run)
    _sd0.cp2(m, run)      # parameters are accepted exactly when they lie in the (normalised) domain: no tolerance lets an evaluation out of it
    from . import c16 as _c16r
    _c16r.rnd1(m, run)        # evenly spaced parameters / generated knots reach the end of their interval exactly (shared with C16)      # the basis values the evaluators combine are the Cox-de Boor polynomials on every span (shared with C03)
    with run.corroborating(sem_ok, 'EVX/A36S/A34S', rules=('LY1.canonical-stride', 'LY1.index-matches-layout', 'BP1.basis-axis-pairing', 'RP1.rational-projection', 'GO1.grid-order')):
        rl.ly1_canonical(m, run, evaluator_funcs(m))
        bp1(m, run, funcs)
        rp1(m, run)
        grid_order(m, run)
    rl.ly1_canonical(m, run, [m.func('helpers.surface_deriv_cpts'), m.func('helpers.curve_deriv_cpts')])
    run.floor('LY1.canonical-stride', 4, 'surface/volume evaluators and surface_deriv_cpts')
    ra.HELPER_SCALARS.setdefault('linspace', [0, 1, 2])
    ra.ax1_helper_calls(m, run, funcs + [fi for fi in m.funcs.values() if fi.mod == 'BSpline' and fi.name in ('evaluate', 'evaluate_single', 'evaluate_list', 'derivatives')])
    run.floor('AX1.helper-call-one-axis', 10, 'find_spans/basis_functions/linspace/_span_func calls')
    from . import c16 as _c16
    _c16.sample_count_getters(m, run)       # the sampled grid has the documented size: no getter truncates 1 / delta
    c17.ev1_ag3(m, run)
    c17.dom1(m, run)
    c17.domain_getter(m, run)
    ep1(m, run)
    ep2(m, run)
    c17.ev2(m, run)
    from .. import skel_drivers as _sd
    _sd.c03_order(m, run)     # both pluggable span searches: the evaluators index basis functions and control points by the span they return
    from .. import rules_state as rs
    rs.iv1(m, run, rs.GEOM, caches_filter=lambda c: c == '_eval_points')
    run.floor('IV1.no-stale-cache', 150, 'geometry classes x entries x evaluated points cache')
    from .. import ops_common as oc
    oc.unit_range_rule(m, run, ('evaluate', 'evaluate_single', 'evaluate_list'))
    run.floor('RG2.no-unit-range-test-for-un-normalised-shapes', 8, 'evaluate / evaluate_single / evaluate_list of the three shape classes')
    try:
        from .. import skel_drivers
        skel_drivers.c01(m, run)
    except ImportError:
        run.note('SK1', 'evaluators', 'SKEL drivers not available in this build')
    run.floor('BP1.basis-axis-pairing', 7, 'basis factors in surface/volume evaluate and derivatives')
    run.floor('AG3.data-keys', 40, 'keys read by evaluator methods')
    run.floor('RP1.rational-projection', 3, 'three rational evaluate methods')
    # a shape handed to the evaluators may be a deep copy (every operation without inplace makes one): a copy that shares its cache with
    # its source evaluates the source's weights
    rs.iv4_deepcopy(m, run)
    from .. import skel_drivers as _sdsc
    _sdsc.ls2(m, run)      # a single parameter reaches the evaluator as it was given (LS2)
    _sdsc.sc2(m, run)      # the control points evaluated are the ones given (no rounding on the way in, whatever the precision)


def bp1(m, run, funcs):
    """basis[d][..][x]: x (and the order index, if any) is a variable of direction d running over degree[d] + 1 entries"""
    for fi in funcs:
        sc = ra.scope_of(fi)
        # pairing variables: loop variables that occur (after substitution of single-definition locals) in the index of the control net
        R = rl.Resolver(fi)
        pairing = set()
        for cs in [x for x in walk_no_nested(fi.node) if isinstance(x, ast.Subscript) and not isinstance(x.slice, (ast.Slice, ast.Constant))]:
            if R.resolve_array(cs.value, cs) is None:
                continue
            try:
                p = to_poly(cs.slice, env=R.env(cs))
            except NotPoly:
                continue
            pairing |= {a for a in p.atoms() if a.isidentifier()}
        for sub in [x for x in walk_no_nested(fi.node) if isinstance(x, ast.Subscript) and isinstance(x.ctx, ast.Load)]:
            chain = []
            b = sub
            while isinstance(b, ast.Subscript):
                chain.append(b.slice)
                b = b.value
            chain.reverse()
            if not (isinstance(b, ast.Name) and b.id in sc.dirnames and len(chain) >= 3 and isinstance(chain[0], ast.Constant) and isinstance(chain[0].value, int)):
                continue
            if getattr(sub, '_sa_parent', None) is not None and isinstance(sub._sa_parent, ast.Subscript) and sub._sa_parent.value is sub:
                continue
            # only factors of a product
            par = getattr(sub, '_sa_parent', None)
            if not (isinstance(par, ast.BinOp) and isinstance(par.op, ast.Mult)):
                continue
            d = chain[0].value
            last = chain[-1]
            key = '%s :: %s' % (fi.key, norm(sub))
            vars_last = [x for x in ast.walk(last) if isinstance(x, ast.Name)]
            if not vars_last or not all(v.id in pairing for v in vars_last):
                continue      # A3.4/A3.8 form (basis_function_all tables indexed [function][degree level]): decided in C02
            tl = set()
            for v in vars_last:
                tl |= sc.int_tags(v, sub)
            # SurfaceEvaluator2 uses basis[d][j][degree[d] - k]: both indices carry d
            ok = tl == {d}
            others = chain[1:-1]
            for oidx in others:
                for v in [x for x in ast.walk(oidx) if isinstance(x, ast.Name)]:
                    # sample index (i, j, k of the point grid) is tagged through spans[d]
                    t = sc.int_tags(v, sub)
                    if t and t != {d}:
                        ok = False
            run.ob('BP1.basis-axis-pairing', key, ok,
                   'factor of direction %s indexed by variables of direction %s' % ('uvw'[d], 'uvw'[d]) if ok else
                   'basis factor of direction %s is indexed by `%s` which runs along %s: the factor is paired with the wrong control point offset'
                   % ('uvw'[d], norm(last), ra.fmt(tl)), site(fi, sub))
            # LY5: full consumption  range(0, degree[d] + 1)   (A3.4/A3.8 variants: degree[d] - order + 1)
            for v in vars_last:
                ds = sc.reaching(v.id, sub)
                if len(ds) == 1 and ds[0][3] == 'loop' and isinstance(ds[0][1], ast.Call) and norm(ds[0][1].func) == 'range':
                    a = ds[0][1].args
                    try:
                        lo = to_poly(a[0]) if len(a) >= 2 else Poly.const(0)
                        hi = to_poly(a[1] if len(a) >= 2 else a[0], env=lambda nm, _sc=sc, _at=sub: single(_sc, nm, _at))
                    except NotPoly:
                        continue
                    datoms = [x for x in hi.atoms() if 'degree' in x]
                    full = lo == Poly.const(0) and len(datoms) == 1 and (hi == Poly.atom(datoms[0]) + 1 or
                                                                         (hi - Poly.atom(datoms[0]) - 1).atoms() and all('degree' not in x for x in (hi - Poly.atom(datoms[0]) - 1).atoms()))
                    run.ob('LY5.full-consumption', '%s :: %s over %s' % (fi.key, v.id, norm(ds[0][1])), full,
                           'all degree + 1 non-vanishing basis functions are consumed' if full else
                           'the basis loop `%s` does not run over the degree + 1 non-vanishing functions' % norm(ds[0][1]), site(fi, ds[0][0]))


def single(sc, name_node, at):
    ds = sc.reaching(name_node.id, at)
    if len(ds) == 1 and ds[0][3] == 'assign' and isinstance(ds[0][1], (ast.BinOp, ast.Subscript, ast.Name, ast.Attribute)):
        return ds[0][1]
    return None


def rp1(m, run):
    W = Poly.atom('W')
    c = Poly.atom('c')
    for cname in ('CurveEvaluatorRational', 'SurfaceEvaluatorRational', 'VolumeEvaluatorRational'):
        fi = m.cls('evaluators', cname).methods.get('evaluate')
        if fi is None:
            raise AnalysisError('evaluators.%s.evaluate not found' % cname)
        pms = pointmap.extract(fi.node)
        key = fi.key + ' :: projection'
        if len(pms) != 1:
            run.ob('RP1.rational-projection', key, False, 'no single per-point projection found (%d)' % len(pms), site(fi))
            continue
        pm = pms[0]
        okmap = pm.coord == c * Poly.atom('inv(W)')
        # domain: all but the last slot: pt[0:dimension - 1] with dimension = homogeneous length, or pt[:-1]
        okdom = pm.domain == ('upto', -1)
        if pm.domain[0] == 'slice' and pm.domain[1] == '0':
            # upper bound must be (homogeneous length) - 1, the homogeneous length being `dimension + 1 if rational else dimension` of the data dictionary
            up = pm.domain_node.slice.upper
            okdom = False
            if isinstance(up, ast.BinOp) and isinstance(up.op, ast.Sub) and norm(up.right) == '1' and isinstance(up.left, ast.Name):
                dims = [n.value for n in walk_no_nested(fi.node) if isinstance(n, ast.Assign) and isinstance(n.targets[0], ast.Name) and n.targets[0].id == up.left.id]
                dd = params_of(fi.node)[1]
                okdom = len(dims) == 1 and isinstance(dims[0], ast.IfExp) and norm(dims[0].body) == "%s['dimension'] + 1" % dd and norm(dims[0].test) == "%s['rational']" % dd
        # the projected points come from the parent (non-rational) evaluation of the weighted net
        src = norm(pm.loop.iter)
        sup = [n for n in walk_no_nested(fi.node) if isinstance(n, ast.Assign) and norm(n.targets[0]) == src and isinstance(n.value, ast.Call)
               and isinstance(n.value.func, ast.Attribute) and n.value.func.attr == 'evaluate' and 'super' in norm(n.value.func.value)]
        run.ob('RP1.rational-projection', key, okmap and okdom and bool(sup),
               'each coordinate c of a homogeneous point becomes c / (that point\'s last slot), over all coordinates but the last' if okmap and okdom and sup else
               'projection is c -> %s over %s of %s; expected c / pt[-1] over every coordinate except the weight of the points returned by the parent evaluate'
               % (pm.coord, pm.domain, src), site(fi, pm.node))


def ep1(m, run):
    """all evaluation entry points of a class go through self._evaluator.evaluate(self.data, ...) - reported, necessary only in the weak
    sense that each entry must reach *an* evaluator call"""
    for cname in ('Curve', 'Surface', 'Volume'):
        ci = m.cls('BSpline', cname)
        for meth in ('evaluate', 'evaluate_single'):
            fi = ci.methods.get(meth)
            if fi is None:
                raise AnalysisError('BSpline.%s.%s not found' % (cname, meth))
            calls = [c for c in walk_no_nested(fi.node) if isinstance(c, ast.Call) and isinstance(c.func, ast.Attribute) and c.func.attr == 'evaluate'
                     and norm(c.func.value) == 'self._evaluator']
            ok = len(calls) == 1 and calls[0].args and norm(calls[0].args[0]) == 'self.data'
            run.ob('EP1.entry-reaches-evaluator', fi.key, ok, 'calls self._evaluator.evaluate(self.data, ...)' if ok else 'entry point does not evaluate self.data through the evaluator', site(fi))
            if ok:
                # start/stop keywords are per-direction lists in axis order
                for kwn in ('start', 'stop'):
                    v = next((k.value for k in calls[0].keywords if k.arg == kwn), None)
                    if isinstance(v, (ast.List, ast.Tuple)) and len(v.elts) >= 2:
                        sc = ra.scope_of(fi)
                        tags = [sc.int_tags(e, calls[0]) for e in v.elts]
                        good = all((not t) or t == {k} for k, t in enumerate(tags))
                        run.ob('EP1.start-stop-order', '%s :: %s' % (fi.key, kwn), good, '%s list is in (u, v, w) order' % kwn if good else
                               '%s list `%s` is not in (u, v, w) order: directions %s' % (kwn, norm(v), [ra.fmt(t) for t in tags]), site(fi, calls[0]))


def ep2(m, run):
    """single-parameter and derivative entry points hand the caller's own parameter(s) to the evaluator, in (u, v, w) order"""
    for cname, pdim in (('Curve', 1), ('Surface', 2), ('Volume', 3)):
        ci = m.cls('BSpline', cname)
        fi = ci.methods.get('evaluate_single')
        ps = params_of(fi.node)
        calls = [c for c in walk_no_nested(fi.node) if isinstance(c, ast.Call) and isinstance(c.func, ast.Attribute) and c.func.attr == 'evaluate'
                 and norm(c.func.value) == 'self._evaluator']
        ok = False
        if len(calls) == 1:
            kw = {k.arg: norm(k.value) for k in calls[0].keywords}
            ok = kw.get('start') == ps[1] and kw.get('stop') == ps[1]
            rets = [r for r in walk_no_nested(fi.node) if isinstance(r, ast.Return) and r.value is not None]
            ok = ok and len(rets) == 1 and isinstance(rets[0].value, ast.Subscript) and norm(rets[0].value.slice) == '0'
        run.ob('EP2.single-parameter', fi.key, ok, 'evaluates the one-point grid start = stop = param and returns its point' if ok else
               'evaluate_single does not evaluate exactly at its own parameter (start/stop/returned element)', site(fi))
        fd = ci.methods.get('derivatives')
        if fd is None or pdim == 3:
            continue
        ps = params_of(fd.node)
        calls = [c for c in walk_no_nested(fd.node) if isinstance(c, ast.Call) and isinstance(c.func, ast.Attribute) and c.func.attr == 'derivatives'
                 and norm(c.func.value) == 'self._evaluator']
        ok = False
        if len(calls) == 1:
            kw = {k.arg: norm(k.value) for k in calls[0].keywords}
            pos = [norm(a) for a in calls[0].args]
            par = kw.get('parpos', pos[1] if len(pos) > 1 else None)
            order = kw.get('deriv_order', pos[2] if len(pos) > 2 else None)
            want_par = ps[1] if pdim == 1 else '(%s)' % ', '.join(ps[1:1 + pdim])
            ok = par == want_par and order == ps[1 + pdim] and (pos[:1] == ['self.data'] or kw.get('datadict') == 'self.data')
        run.ob('EP2.derivative-entry', fd.key, ok, 'derivatives(self.data, parpos=%s, deriv_order=order)' % ('u' if pdim == 1 else '(u, v)') if ok else
               'the derivative entry point does not pass its own parameters in (u, v) order and its own order', site(fd))
    run.floor('EP2.single-parameter', 3, 'curve, surface, volume')


def grid_order(m, run):
    """sampled grid ordering: the evaluators append points in a nest u (outer), v, w (inner) over all sample indices"""
    for cname, pdim in (('SurfaceEvaluator', 2), ('VolumeEvaluator', 3)):
        fi = m.cls('evaluators', cname).methods['evaluate']
        sc = ra.scope_of(fi)
        retn = [r.value.id for r in walk_no_nested(fi.node) if isinstance(r, ast.Return) and isinstance(r.value, ast.Name)]
        app = [c for c in walk_no_nested(fi.node) if isinstance(c, ast.Call) and isinstance(c.func, ast.Attribute) and c.func.attr == 'append'
               and retn and norm(c.func.value) == retn[0]]
        if len(app) != 1:
            raise AnalysisError('%s: expected one append to eval_points' % fi.key)
        nest = []
        p = getattr(app[0], '_sa_parent', None)
        while p is not None:
            if isinstance(p, ast.For):
                nest.append(p)
            p = getattr(p, '_sa_parent', None)
        nest.reverse()
        axes = []
        for l in nest:
            t = {x for x in sc._iter_tag(l.iter, l, 0) if isinstance(x, int)}
            axes.append(next(iter(t)) if len(t) == 1 else None)
        ok = axes == list(range(pdim))
        run.ob('GO1.grid-order', fi.key, ok, 'points appended in a nest %s (outer to inner) over len(spans[d])' % 'uvw'[:pdim] if ok else
               'append nest runs over directions %s' % axes, site(fi, app[0]))
