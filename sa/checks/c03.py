"""C03 - basis functions, knot-span search and knot vectors (structural part)."""
import ast
from ..model import norm, AnalysisError, walk_no_nested, params_of
from ..cfg import CFG
from ..poly import Poly, to_poly, NotPoly
from ..alg import Subst, unwrap_float
from .. import rules_axis as ra
from ..axis import suffix_axis, AXN

DECIDES = ('a knot vector of wrong length or decreasing order cannot reach storage: in the six concrete knot-vector setters the store is '
           'dominated on every path by a passing knotvector.check(degree_k, value, size_k) of the same direction and the same value, the raw '
           'base-class setter is shadowed for every concrete class, and no other function stores a knot vector except reversal (GD1); '
           'knotvector.check returns False when len != degree + n + 1 (exact polynomial form) and when any consecutive pair decreases '
           '(strict >, all pairs covered), and returns True only after both tests (KC1); knotvector.generate returns degree + n + 1 knots on both '
           '`clamped` branches with end multiplicity degree + 1 when clamped (LY4); knotvector.normalize is the affine map (k - first)/(last - first) '
           '(AL8); both span searches implement half-open spans: comparison operators on the lower/upper knot are exactly (<, >=) resp. (<=) (HO1); '
           'find_multiplicity compares absolute differences (TOL1); per-direction helper calls in helpers are direction-uniform (AX1); [ORDER TYPES, bounded box, exact per type] both span searches return exactly the half-open interval containing the parameter (the last non-empty one at the domain end) and agree with each other, find_multiplicity returns the number of equal knots, and knotvector.check accepts exactly the non-decreasing vectors of the right length - decided by interpreting the comparison-only skeleton of these functions over every knot order type of the box (OT1-OT3); the single-function routines return 1.0 in the boundary case, the literal 0.0 outside the half-open support, and never an untouched initial cell for derivative orders <= degree inside it, on every fork of their arithmetic zero tests (OT4); [SKEL, bounded] basis_function, basis_function_all and basis_function_ders are index-safe for degrees 1..7, every span and derivative orders 0..degree+2. the list variant find_spans returns for every parameter of a sorted list the span of the single-parameter search (OT1); a delegation wrapper that declares **kwargs forwards them, so the compatibility names in utilities honour clamped=False (KW1). knotvector.normalize returns a new list on every path (PU6). find_multiplicity lets the parameter meet the knots only inside abs(parameter - knot) compared with the tolerance (TOL2).')
NOT_DECIDED = ('span search beyond the enumerated box and inside the tolerance windows; non-negativity (an inequality, not an identity); partition of unity, '
               'derivative sums and Cox-de Boor equality for knot vectors outside the enumerated ones and to floating-point rounding; order-preservation of normalize to rounding.')
TECHNIQUE = 'CFG dominance (guards), polynomial normal forms, comparison-operator lattice, symbolic length algebra'
DECIDES += (' [ABSTRACT INTERPRETATION, exact] BF3: on every non-empty span of five rational knot vectors (degree 1..3, clamped and un-clamped, repeated interior knots, '
            'un-normalised range) with the parameter a symbolic atom ranging over the span, basis_function / basis_functions / basis_function_all / basis_function_one return '
            'exactly the Cox-de Boor polynomials (which sum to one) and basis_function_ders / basis_function_ders_one their exact derivatives for every order 0..degree+1 '
            '(zero above the degree): the routines agree with the recursion and with one another as polynomial identities in the parameter.')
DECIDES += (' [ABSTRACT INTERPRETATION, exact] BF4: basis_function_one by exact rational values on one unevenly spaced knot vector of every clamped order type, every function, every knot and mid-span point (the last knot taken in the last non-empty span); GD3: every public knot vector setter of the six classes, interpreted on objects built by the real classes, stores valid vectors in their own direction only and rejects - without storing - vectors that are too long, too short, decreasing, or valid for another direction.')
DECIDES += (' KG2 runs through every public name bound to knotvector.generate (utilities.generate_knot_vector ...) and requires a new list per call (lru_cache modelled); NM2 likewise through the aliases of normalize, on ranges whose images have up to ten decimals; KG3: no emission of a knot is governed by a comparison of a rounded quotient, in generate and its callees.')


def site(fi, node=None):
    return 'geomdl/%s.py:%s in %s' % (fi.mod, getattr(node or fi.node, 'lineno', '?'), fi.key)


def check(m, run):
    from .. import skel_drivers as _sd3
    # span search, multiplicity count, knot vector check and the single-function routines are decided per knot order type (OT1 - OT4, with
    # round-off neighbours of every knot for the tolerance clause); the basis routines as exact polynomials (BF3).  The rules that read
    # the comparison operators and loop shapes of the pinned spelling corroborate.
    n0 = len(run.obs)
    _sd3.bf3(m, run)      # the basis-function routines equal the Cox-de Boor polynomials and their exact derivatives on every span of the enumerated rational knot vectors
    _skel(m, run)
    single_function_rules(m, run, with_ho2=False)
    from . import c16 as _c16r
    _c16r.rnd1(m, run)        # evenly spaced parameters / generated knots reach the end of their interval exactly (shared with C16)
    sem = run.obs[n0:]

    def okp(*prefixes):
        sel = [o for o in sem if o.rule.startswith(prefixes)]
        return bool(sel) and all(o.ok for o in sel)
    # what the knot vector setters accept is decided by interpreting them on objects of the real classes (GD3); the rules that read how
    # each setter spells its check / store / delegation corroborate (who else may store a knot vector stays a who-may-write rule)
    n_gd = len(run.obs)
    try:
        _sd3.gd3(m, run)
    except AnalysisError as ex:
        run.error(str(ex))
    gd_ok = len(run.obs) > n_gd and all(o.ok for o in run.obs[n_gd:])
    with run.corroborating(gd_ok, 'GD3', rules=('GD1.check-dominates-store',), only=lambda o: o.rule != 'GD1.no-foreign-store'):
        gd1(m, run)
    with run.corroborating(okp('OT3'), 'OT3', rules=('KC1.check-structure',)):
        kc1(m, run)
    # generated knot vectors are decided by exact interpretation of knotvector.generate (KG2); the length evaluator that reads how the
    # three pieces are concatenated corroborates
    n_kg = len(run.obs)
    try:
        _sd3.kg2(m, run)
    except AnalysisError as ex:
        run.error(str(ex))
    kg_ok = len(run.obs) > n_kg and all(o.ok for o in run.obs[n_kg:])
    with run.corroborating(kg_ok, 'KG2', rules=('LY4.generate-length',)):
        ly4(m, run)
    kg3(m, run)        # ... for every count, not only the enumerated ones: the number of knots never depends on how a quotient rounds
    # normalisation is decided exactly on rational knot vectors (NM2); the rule that reads the element map of the comprehension corroborates
    n_nm = len(run.obs)
    try:
        _sd3.nm2(m, run)
    except AnalysisError as ex:
        run.error(str(ex))
    nm_ok = len(run.obs) > n_nm and all(o.ok for o in run.obs[n_nm:])
    with run.corroborating(nm_ok, 'NM2', rules=('AL8.normalize-affine',)):
        al8(m, run)
    with run.corroborating(okp('OT1'), 'OT1', rules=('HO1.half-open-span',)):
        ho1(m, run)
    with run.corroborating(okp('OT4', 'BF3', 'BF4'), 'OT4/BF3/BF4', rules=('HO2.half-open-support',)):
        ho2(m, run)
    from .c09 import tol_two_sided
    with run.corroborating(okp('OT2', 'OT1'), 'OT1/OT2', rules=('TOL1.two-sided-tolerance',)):
        n = tol_two_sided(m, run, [m.func('helpers.find_multiplicity'), m.func('helpers.find_span_binsearch')])
    ra.ax1_helper_calls(m, run, [fi for fi in m.funcs.values() if fi.mod in ('helpers', 'knotvector')])
    run.floor('GD1.check-dominates-store', 6, 'six concrete knot vector setters')
    run.floor('KC1.check-structure', 4, 'length test, order scan, coverage, final True')
    run.floor('LY4.generate-length', 2, 'clamped / unclamped')
    kw1(m, run)
    normalize_fresh(m, run)
    with run.corroborating(okp('OT2'), 'OT2', rules=('TOL2.parameter-meets-knots-through-the-tolerance',)):
        tol2(m, run)
    run.floor('OT1.span-is-the-half-open-interval', 2, 'linear and binary span search over the order-type box (HO1 is the syntactic fast path and may be absent)')
    run.floor('TOL1.two-sided-tolerance', 2, 'find_multiplicity, binsearch end snap')


def multiplicity_rules(m, run):
    """for the checks that rely on the multiplicity count (insertion and removal guards): OT2 decides it per order type incl. the
    round-off neighbours of every knot; TOL2 corroborates"""
    from .. import skel_drivers as _sd
    n0 = len(run.obs)
    _sd.c03_order(m, run)
    sel = [o for o in run.obs[n0:] if o.rule.startswith('OT2')]
    ok = bool(sel) and all(o.ok for o in sel)
    with run.corroborating(ok, 'OT2', rules=('TOL2.parameter-meets-knots-through-the-tolerance',)):
        tol2(m, run)


def tol2(m, run):
    """TOL2: find_multiplicity counts the knots that equal the parameter *within the tolerance*: the parameter meets the knots only inside
    abs(parameter - knot) compared with the tolerance.  Locating the run of equal knots by an exact comparison or a bisection of the raw
    values skips knots that differ from the parameter by round-off (a parameter computed as 1 - 2/3 against the knot 1/3)."""
    fi = m.func('helpers.find_multiplicity')
    knot = params_of(fi.node)[0]
    bad = []
    n = 0
    for x in walk_no_nested(fi.node):
        if isinstance(x, ast.Name) and x.id == knot and isinstance(x.ctx, ast.Load):
            n += 1
            p_ = getattr(x, '_sa_parent', None)
            ok = isinstance(p_, ast.BinOp) and isinstance(p_.op, ast.Sub)
            if ok:
                g = getattr(p_, '_sa_parent', None)
                ok = isinstance(g, ast.Call) and norm(g.func) == 'abs'
            if not ok:
                bad.append(x)
    if n == 0:
        raise AnalysisError('find_multiplicity: the parameter is never used')
    where = bad[0] if bad else fi.node
    ctx = getattr(bad[0], '_sa_parent', None) if bad else None
    run.ob('TOL2.parameter-meets-knots-through-the-tolerance', fi.key, not bad, 'every use of the parameter is abs(parameter - knot)' if not bad else
           '`%s` uses the raw parameter outside the tolerance comparison: knots equal to the parameter only up to round-off are not counted'
           % norm(ctx)[:60], site(fi, where))


def normalize_fresh(m, run):
    """knotvector.normalize returns a new list on every path that returns normally (may-alias analysis): the knot vector setters store its
    result, so a path that hands the argument back would make every shape built from one knot list share that list"""
    from ..pure import Purity
    fi = m.func('knotvector.normalize')
    s = Purity(m).summary(fi)
    p0 = params_of(fi.node)[0]
    alias = sorted((r, l) for r, l in s.ret if r == 'param:' + p0 and l == 0)
    bad = None
    for ret in s.returns:
        if any(r == 'param:' + p0 and l == 0 for r, l in ret[1]):
            bad = ret[0]
    run.ob('PU6.normalize-returns-a-new-list', fi.key, not alias, 'the result never is the argument itself' if not alias else
           '`%s` returns its argument: the setters store this list, so shapes given the same (already normalised) knot list share storage and an edit of '
           'one knot vector changes the others' % (norm(bad)[:40] if bad is not None else 'a path'), site(fi, bad if bad is not None else fi.node))


def kw1_findings(fns, resolve):
    out = []
    for mod, fn in fns:
        if not fn.args.kwarg:
            continue
        body = [x for x in fn.body if not (isinstance(x, ast.Expr) and isinstance(x.value, ast.Constant))]
        if len(body) == 1 and isinstance(body[0], (ast.Return, ast.Expr)) and isinstance(body[0].value, ast.Call):
            c = body[0].value
            tgt = resolve(mod, c.func)
            if tgt is None or not (tgt.args.kwarg or tgt.args.defaults or tgt.args.kwonlyargs):
                continue
            out.append((fn, c, any(k.arg is None for k in c.keywords)))
    return out


def kw1(m, run):
    """KW1: a pure delegation wrapper that declares **kwargs (the compatibility names in utilities delegate to knotvector.*) forwards them:
    otherwise documented options such as clamped=False are silently ignored.  Zero instances on a tree that uses plain aliases;
    a positive control is analysed on every run."""
    def resolve(mod, f):
        t = m.resolve_callable(mod, f)
        return t.node if t is not None else None
    fns = [(fi.mod, fi.node) for fi in m.funcs.values() if fi.kind == 'function' and fi.mod in ('utilities', 'knotvector', 'helpers')]
    n = 0
    for fn, c, fw in kw1_findings(fns, resolve):
        n += 1
        run.ob('KW1.delegation-forwards-options', '%s -> %s' % (fn.name, norm(c.func)), fw, 'forwards **kwargs' if fw else
               '`%s` declares **kwargs but calls %s without them: every option (e.g. clamped=False) is silently dropped' % (fn.name, norm(c.func)), '')
    ctl = ast.parse('def g(a, **kwargs):\n    return a\n\ndef w(a, **kwargs):\n    return g(a)\n')
    hits = kw1_findings([('x', ctl.body[1])], lambda mod, f: ctl.body[0] if isinstance(f, ast.Name) and f.id == 'g' else None)
    if [h[2] for h in hits] != [False]:
        raise AnalysisError('KW1 positive control not reported: rule is broken')
    run.ob('KW1.delegation-forwards-options', 'utilities/knotvector/helpers', True, '%d delegation wrappers found; positive control reported' % n)
    # the compatibility names resolve to the knotvector functions themselves
    for alias, target in (('generate_knot_vector', 'generate'), ('check_knot_vector', 'check'), ('normalize_knot_vector', 'normalize')):
        fi = m.lookup_modfunc('utilities', alias)
        run.note('KW1', 'utilities.' + alias, 'resolves to %s' % (fi.key if fi else None))


# ---------------------------------------------------------------------------------------------- GD1
STORE_EXCEPTIONS = {
    'abstract.SplineGeometry.__init__': 'constructor creates empty knot vectors',
    'abstract.Curve.reverse': 'reversing max - k of a non-decreasing vector is non-decreasing with the same length',
}


def kv_stores(fn):
    out = []
    for n in walk_no_nested(fn):
        if isinstance(n, ast.Assign):
            for t in n.targets:
                base = t
                idx = None
                if isinstance(base, ast.Subscript):
                    idx = base.slice
                    base = base.value
                if isinstance(base, ast.Attribute) and base.attr == '_knot_vector' and isinstance(base.value, ast.Name) and base.value.id == 'self':
                    out.append((n, idx))
        if isinstance(n, ast.Call) and isinstance(n.func, ast.Attribute) and n.func.attr in ('append', 'extend', 'insert') and \
                isinstance(n.func.value, (ast.Attribute, ast.Subscript)) and '_knot_vector' in norm(n.func.value):
            out.append((n, None))
    return out


def gd1(m, run):
    n_guarded = 0
    for fi in list(m.funcs.values()):
        if fi.mod not in ('abstract', 'BSpline', 'NURBS') or fi.cls is None:
            continue
        stores = kv_stores(fi.node)
        if not stores:
            continue
        if fi.key in STORE_EXCEPTIONS:
            run.note('GD1.check-dominates-store', fi.key, 'exception: ' + STORE_EXCEPTIONS[fi.key])
            continue
        raw = fi.key == 'abstract.SplineGeometry.knotvector#setter'
        if raw:
            continue
        cfg = CFG(fi.node)
        for st, idx in stores:
            node = cfg.node_of(st)
            facts = cfg.facts_at(node)
            checks = [(e, pol) for e, pol in facts if isinstance(e, ast.Call) and norm(e.func) in ('knotvector.check', 'utilities.check_knot_vector', 'check')]
            key = '%s :: %s' % (fi.key, norm(st.targets[0]) if isinstance(st, ast.Assign) else norm(st)[:60])
            ok = any(pol for _, pol in checks)
            run.ob('GD1.check-dominates-store', key, ok,
                   'every path to the store passes `%s` with a true outcome' % norm(checks[0][0])[:90] if ok else
                   'a path reaches the store of the knot vector without a passing knotvector.check(): a vector of wrong length or with decreasing '
                   'knots is stored', site(fi, st))
            if not ok:
                continue
            n_guarded += 1
            call = [e for e, pol in checks if pol][0]
            # same value, same direction
            valparam = params_of(fi.node)[1] if len(params_of(fi.node)) > 1 else None
            stored = st.value
            names = {x.id for x in ast.walk(stored) if isinstance(x, ast.Name)}
            okv = len(call.args) == 3 and isinstance(call.args[1], ast.Name) and call.args[1].id == valparam and valparam in names
            run.ob('GD1.checked-value-is-stored-value', key, okv,
                   'checked and stored value are both `%s`' % valparam if okv else 'the value checked (%s) is not the value stored (%s)' % (
                       norm(call.args[1]) if len(call.args) > 1 else '?', norm(stored)[:60]), site(fi, st))
            if isinstance(idx, ast.Constant) and len(call.args) == 3:
                k = idx.value
                sc = ra.scope_of(fi)
                own = suffix_axis(fi.name)
                t0, t2 = sc.int_tags(call.args[0], call), sc.int_tags(call.args[2], call)
                oka = (t0 <= {k}) and (t2 <= {k}) and (own is None or own == k)
                # curves use self.degree / len(ctrlpts) (untagged); surfaces and volumes must carry the tag
                if own is not None:
                    oka = oka and t0 == {k} and t2 == {k}
                run.ob('GD1.check-same-direction', key, oka,
                       'degree and size passed to check are those of direction %s' % AXN[k] if oka else
                       'slot %d of the knot vectors is stored, but check() receives degree of direction %s and size of direction %s' % (k, ra.fmt(t0), ra.fmt(t2)),
                       site(fi, call))
                # count argument is a control point count, not a degree or a knot count
                a2 = norm(call.args[2])
                okc = ('ctrlpts_size' in a2 or '_control_points' in a2 or 'ctrlpts' in a2)
                run.ob('GD1.check-same-direction', key + ' count', okc, 'third argument `%s` is a control point count' % a2, site(fi, call))
    # raw setter shadowed
    for ck in (('BSpline', 'Curve'), ('NURBS', 'Curve'), ('BSpline', 'Surface'), ('NURBS', 'Surface'), ('BSpline', 'Volume'), ('NURBS', 'Volume')):
        st = m.lookup(ck, 'knotvector', 'setters')
        ok = st is not None and st.key != 'abstract.SplineGeometry.knotvector#setter'
        run.ob('GD1.raw-setter-shadowed', '%s.%s.knotvector' % ck, ok, 'resolves to %s' % (st.key if st else None), site(st) if st else '')
        if ok and ck[1] != 'Curve':
            # composite setter delegates to the per-direction setters
            targets = {t.attr for n in walk_no_nested(st.node) if isinstance(n, ast.Assign) for t in n.targets if isinstance(t, ast.Attribute)}
            want = {'knotvector_u', 'knotvector_v'} | ({'knotvector_w'} if ck[1] == 'Volume' else set())
            run.ob('GD1.raw-setter-shadowed', '%s.%s.knotvector delegates' % ck, want <= targets, 'assigns %s' % sorted(targets), site(st))
    # who else stores knot vectors on objects: only through public setters (attribute stores to knotvector* go through GD1)
    foreign = []
    for fi in m.funcs.values():
        if fi.mod in ('abstract',):
            continue
        for n in walk_no_nested(fi.node):
            if isinstance(n, ast.Assign):
                for t in n.targets:
                    b = t.value if isinstance(t, ast.Subscript) else t
                    if isinstance(b, ast.Attribute) and b.attr == '_knot_vector':
                        foreign.append((fi, n))
    run.ob('GD1.no-foreign-store', 'package', not foreign, 'no function outside abstract.py stores _knot_vector' if not foreign else
           '%s stores _knot_vector directly' % foreign[0][0].key, site(*foreign[0]) if foreign else '')


# ---------------------------------------------------------------------------------------------- KC1
def kc1(m, run):
    fi = m.func('knotvector.check')
    ps = params_of(fi.node)
    if len(ps) != 3:
        raise AnalysisError('knotvector.check does not take (degree, knot_vector, num_ctrlpts)')
    deg, kv, num = ps
    cfg = CFG(fi.node)
    ret_false = [n for n in walk_no_nested(fi.node) if isinstance(n, ast.Return) and isinstance(n.value, ast.Constant) and n.value.value is False]
    ret_true = [n for n in walk_no_nested(fi.node) if isinstance(n, ast.Return) and isinstance(n.value, ast.Constant) and n.value.value is True]
    # (a) length test
    want = Poly.atom('len(%s)' % kv) - Poly.atom(deg) - Poly.atom(num) - 1
    len_ok, len_node = False, None
    for r in ret_false:
        for e, pol in cfg.facts_at(cfg.node_of(r)):
            if isinstance(e, ast.Compare) and len(e.ops) == 1 and isinstance(e.ops[0], (ast.NotEq, ast.Eq)):
                try:
                    p = to_poly(e.left) - to_poly(e.comparators[0])
                except NotPoly:
                    continue
                holds_ne = (isinstance(e.ops[0], ast.NotEq) and pol) or (isinstance(e.ops[0], ast.Eq) and not pol)
                if holds_ne and (p == want or p == -want):
                    len_ok, len_node = True, r
    run.ob('KC1.check-structure', fi.key + ' :: length test', len_ok,
           '`return False` under len(kv) != degree + num_ctrlpts + 1' if len_ok else
           'no `return False` guarded by the exact inequality len(knot_vector) - degree - num_ctrlpts - 1 != 0', site(fi, len_node or fi.node))
    # (b) order scan
    scan_ok, cover_ok, why, scan_node = False, False, 'no loop with a strict decreasing-pair test found', None
    for loop in [n for n in walk_no_nested(fi.node) if isinstance(n, ast.For)]:
        for r in ret_false:
            if not any(x is r for x in ast.walk(loop)):
                continue
            for e, pol in cfg.facts_at(cfg.node_of(r)):
                if not (isinstance(e, ast.Compare) and len(e.ops) == 1):
                    continue
                op = e.ops[0]
                l, rr = e.left, e.comparators[0]
                # normalise to  prev > cur  (strict)
                if isinstance(op, ast.Gt) and pol:
                    prev, cur, strict = l, rr, True
                elif isinstance(op, ast.Lt) and pol:
                    prev, cur, strict = rr, l, True
                elif isinstance(op, ast.LtE) and not pol:
                    prev, cur, strict = l, rr, True
                elif isinstance(op, ast.GtE) and not pol:
                    prev, cur, strict = rr, l, True
                elif isinstance(op, (ast.GtE, ast.LtE)) and pol:
                    why = 'non-strict comparison `%s` rejects repeated knots (multiplicity > 1 is valid)' % norm(e)
                    continue
                else:
                    continue
                cov, cwhy = pair_coverage(loop, prev, cur, kv, fi.node)
                if cov is None:
                    continue
                scan_ok, cover_ok, why, scan_node = True, cov, cwhy, r
    run.ob('KC1.check-structure', fi.key + ' :: decreasing pair rejected', scan_ok,
           'strict `previous > current` reaches `return False`' if scan_ok else why, site(fi, scan_node or fi.node))
    run.ob('KC1.check-structure', fi.key + ' :: all consecutive pairs covered', scan_ok and cover_ok, why, site(fi, scan_node or fi.node))
    # (c) return True only after both
    okt = bool(ret_true)
    for r in ret_true:
        node = cfg.node_of(r)
        # every path to `return True` passes the length test node and the scan loop
        loops = [n for n in cfg.nodes if n.kind == 'loop']
        okt = okt and cfg.dominated_by(node, lambda n: n.kind == 'loop') and \
            cfg.dominated_by(node, lambda n: n.kind == 'test' and 'len(' in norm(n.ast.test) and deg in norm(n.ast.test))
    run.ob('KC1.check-structure', fi.key + ' :: True only after both tests', okt,
           'every path to `return True` passes the length test and the order scan' if okt else 'a path reaches `return True` bypassing a test', site(fi))


def pair_coverage(loop, prev, cur, kv, fn):
    """(covers all consecutive pairs?, explanation) for the recognised scan idioms, (None, '') if not a scan over kv"""
    it = loop.iter
    # idiom 1: prev variable;  for knot in kv: if prev > knot ...; prev = knot
    if isinstance(loop.target, ast.Name) and isinstance(cur, ast.Name) and cur.id == loop.target.id and isinstance(prev, ast.Name):
        whole = (isinstance(it, ast.Name) and it.id == kv) or (isinstance(it, ast.Subscript) and isinstance(it.value, ast.Name) and it.value.id == kv
                                                                 and isinstance(it.slice, ast.Slice) and it.slice.upper is None and it.slice.step is None
                                                                 and (it.slice.lower is None or norm(it.slice.lower) in ('0', '1')))
        upd = [s for s in loop.body if isinstance(s, ast.Assign) and len(s.targets) == 1 and isinstance(s.targets[0], ast.Name)
               and s.targets[0].id == prev.id and isinstance(s.value, ast.Name) and s.value.id == cur.id]
        init = [s for s in fn.body if isinstance(s, ast.Assign) and isinstance(s.targets[0], ast.Name) and s.targets[0].id == prev.id
                and norm(s.value) == '%s[0]' % kv]
        ok = whole and bool(upd) and bool(init)
        return ok, ('previous-element idiom over the whole vector' if ok else
                    'scan does not visit every knot (iter `%s`), or `%s` is not initialised to %s[0] / advanced to the current knot' % (norm(it), prev.id, kv))
    # idiom 2: index pairs  kv[i+a] > kv[i+b]
    if isinstance(loop.target, ast.Name) and isinstance(prev, ast.Subscript) and isinstance(cur, ast.Subscript) \
            and norm(prev.value) == kv and norm(cur.value) == kv and isinstance(it, ast.Call) and norm(it.func) == 'range':
        i = loop.target.id
        try:
            pa, pb = to_poly(prev.slice), to_poly(cur.slice)
            args = it.args
            lo = to_poly(args[0]) if len(args) >= 2 else Poly.const(0)
            hi = to_poly(args[1] if len(args) >= 2 else args[0])
        except NotPoly:
            return False, 'index expressions not polynomial'
        a, b = pa - Poly.atom(i), pb - Poly.atom(i)
        L = Poly.atom('len(%s)' % kv)
        ok = (b - a == Poly.const(1)) and (lo + a == Poly.const(0)) and (hi - 1 + b == L - 1) and len(args) <= 2
        return ok, ('pairs (i%+d, i%+d) for i in range(%s, %s) cover 0..len-1' % (int(a.const_value() or 0), int(b.const_value() or 0), lo, hi) if ok else
                    'pairs (%s, %s) for i in range(%s, %s) do not cover every consecutive pair 0..len(kv)-1: a decrease at an uncovered position is accepted'
                    % (pa, pb, lo, hi))
    return None, ''


# ---------------------------------------------------------------------------------------------- LY4
class LenEval(object):
    """straight-line symbolic evaluation of scalar polynomials and list lengths under fixed keyword flags"""

    def __init__(self, fn, flags):
        self.fn, self.flags = fn, flags
        self.sc, self.ln = {}, {}
        self.first, self.last = {}, {}     # constant first/last element of list pieces
        self.kwname = fn.args.kwarg.arg if fn.args.kwarg else None
        self.ret = None
        self.pieces = []

    def poly(self, e):
        return to_poly(e, env=lambda n: self.sc.get(n.id))

    def length(self, e):
        if isinstance(e, ast.Name):
            return self.ln.get(e.id)
        if isinstance(e, ast.List):
            return Poly.const(len(e.elts))
        if isinstance(e, ast.ListComp) and len(e.generators) == 1 and not e.generators[0].ifs:
            it = e.generators[0].iter
            if isinstance(it, ast.Call) and norm(it.func) == 'range':
                a = it.args
                lo = self.poly(a[0]) if len(a) >= 2 else Poly.const(0)
                hi = self.poly(a[1] if len(a) >= 2 else a[0])
                return hi - lo
            l = self.length(it)
            return l
        if isinstance(e, ast.Call) and norm(e.func).split('.')[-1] == 'linspace' and len(e.args) >= 3:
            return self.poly(e.args[2])
        if isinstance(e, ast.BinOp) and isinstance(e.op, ast.Add):
            a, b = self.length(e.left), self.length(e.right)
            return a + b if a is not None and b is not None else None
        if isinstance(e, ast.Call) and norm(e.func) in ('list', 'tuple', 'sorted') and e.args:
            return self.length(e.args[0])
        return None

    def const_elem(self, e):
        if isinstance(e, ast.ListComp) and isinstance(e.elt, ast.Constant):
            return e.elt.value, e.elt.value
        if isinstance(e, ast.Call) and norm(e.func).split('.')[-1] == 'linspace' and len(e.args) >= 2 and \
                isinstance(e.args[0], ast.Constant) and isinstance(e.args[1], ast.Constant):
            return e.args[0].value, e.args[1].value
        return None, None

    def truth(self, t):
        if isinstance(t, ast.Name) and t.id in self.flags:
            return self.flags[t.id]
        if isinstance(t, ast.UnaryOp) and isinstance(t.op, ast.Not):
            v = self.truth(t.operand)
            return None if v is None else not v
        return None

    def run(self, body):
        for st in body:
            if isinstance(st, ast.Assign) and len(st.targets) == 1 and isinstance(st.targets[0], ast.Name):
                nm, v = st.targets[0].id, st.value
                if isinstance(v, ast.Call) and isinstance(v.func, ast.Attribute) and v.func.attr == 'get' and isinstance(v.func.value, ast.Name) \
                        and v.func.value.id == self.kwname and v.args and isinstance(v.args[0], ast.Constant):
                    if v.args[0].value in self.flags:
                        self.flags[nm] = self.flags[v.args[0].value]
                    continue
                l = self.length(v)
                if l is not None:
                    self.ln[nm] = l
                    self.pieces = [(nm, l, self.const_elem(v))]
                    continue
                try:
                    self.sc[nm] = self.poly(v)
                except NotPoly:
                    pass
            elif isinstance(st, ast.AugAssign) and isinstance(st.target, ast.Name) and isinstance(st.op, ast.Add):
                nm = st.target.id
                l = self.length(st.value)
                if nm in self.ln and l is not None:
                    self.ln[nm] = self.ln[nm] + l
                    self.pieces.append((nm, l, self.const_elem(st.value)))
                elif nm in self.sc:
                    try:
                        self.sc[nm] = self.sc[nm] + self.poly(st.value)
                    except NotPoly:
                        self.sc.pop(nm)
            elif isinstance(st, ast.If):
                tv = self.truth(st.test)
                if tv is True:
                    self.run(st.body)
                elif tv is False:
                    self.run(st.orelse)
                else:
                    # validation blocks that only raise are skipped
                    if all(isinstance(s, ast.Raise) for s in st.body) and not st.orelse:
                        continue
                    raise AnalysisError('undecided branch `%s` in length evaluation' % norm(st.test))
            elif isinstance(st, ast.Return):
                self.ret = st.value
                return


def ly4(m, run):
    fi = m.func('knotvector.generate')
    ps = params_of(fi.node)
    deg, num = ps[0], ps[1]
    want = Poly.atom(deg) + Poly.atom(num) + 1
    for clamped in (True, False):
        ev = LenEval(fi.node, {'clamped': clamped})
        ev.run(fi.node.body)
        got = ev.length(ev.ret) if ev.ret is not None else None
        key = '%s :: clamped=%s' % (fi.key, clamped)
        run.ob('LY4.generate-length', key, got is not None and got == want, 'length = %s' % got if got == want else 'generated vector has %s knots, the rule m = n + p + 1 needs %s' % (got, want), site(fi))
        if clamped and ev.pieces:
            # end multiplicities: leading constant piece + first knot of the middle piece
            pcs = ev.pieces
            okm = len(pcs) == 3 and pcs[0][1] == Poly.atom(deg) and pcs[2][1] == Poly.atom(deg) and \
                pcs[0][2][0] == pcs[1][2][0] and pcs[2][2][0] == pcs[1][2][1] and pcs[1][2][0] is not None
            run.ob('LY4.end-multiplicity', key, okm,
                   'degree repeated end knots plus the end knot of the middle part: multiplicity degree + 1' if okm else
                   'pieces %s do not give end multiplicity degree + 1' % [(str(p[1]), p[2]) for p in pcs], site(fi))
    run.assume('len(linspace(a, b, k)) == k for a != b and k >= 2 (linalg.linspace: k evenly spaced samples)')


# ---------------------------------------------------------------------------------------------- AL8
def al8(m, run):
    fi = m.func('knotvector.normalize')
    kv = params_of(fi.node)[0]
    sub = Subst(fi.node)
    rets = sub.returned()
    comp = None
    v = rets[-1].value if rets else None
    if isinstance(v, ast.Name):
        v = sub.definition(v.id)
    if not isinstance(v, ast.ListComp) or len(v.generators) != 1 or not isinstance(v.generators[0].target, ast.Name):
        run.note('AL8.normalize-affine', fi.key, 'not a single comprehension: not decidable (no obligation)')
        return
    g = v.generators[0]
    cvar = g.target.id
    elt = v.elt
    # strip the float("{:.Nf}".format(x)) rounding wrapper
    while isinstance(elt, ast.Call) and ((isinstance(elt.func, ast.Name) and elt.func.id in ('float', 'round')) or
                                         (isinstance(elt.func, ast.Attribute) and elt.func.attr == 'format')):
        elt = elt.args[0]
    sub2 = Subst(fi.node, elem_alias={})
    try:
        got = to_poly(elt, env=lambda n: None if n.id == cvar else sub2.definition(n.id),
                      atom_of=lambda e: ('c' if isinstance(e, ast.Name) and e.id == cvar else (
                          'K0' if norm(unwrap_float(e)) == kv + '[0]' else ('KL' if norm(unwrap_float(e)) == kv + '[-1]' else None))))
    except NotPoly as ex:
        run.note('AL8.normalize-affine', fi.key, 'element map not polynomial: %s' % ex)
        return
    c, k0, kl = Poly.atom('c'), Poly.atom('K0'), Poly.atom('KL')
    want = (c - k0) * Poly.atom('inv(%s)' % repr(kl - k0))
    over = norm(g.iter) == kv
    run.ob('AL8.normalize-affine', fi.key + ' :: element map', got == want and over,
           'k -> (k - first)/(last - first) over every knot' if got == want and over else 'element map is %s over %s; expected %s over %s' % (got, norm(g.iter), want, kv), site(fi))


# ---------------------------------------------------------------------------------------------- HO1
def cmp_norm(e, knot, kv):
    """normalise a comparison between the parameter and a knot to ('knot' OP, index poly text) with the parameter on the left"""
    if not (isinstance(e, ast.Compare) and len(e.ops) == 1):
        return None
    l, r, op = e.left, e.comparators[0], e.ops[0]
    flip = {ast.Lt: ast.Gt, ast.Gt: ast.Lt, ast.LtE: ast.GtE, ast.GtE: ast.LtE}
    if isinstance(l, ast.Name) and l.id == knot and isinstance(r, ast.Subscript) and norm(r.value) == kv:
        return type(op), r.slice
    if isinstance(r, ast.Name) and r.id == knot and isinstance(l, ast.Subscript) and norm(l.value) == kv and type(op) in flip:
        return flip[type(op)], l.slice
    return None


def ho1(m, run):
    # binary search: while (knot < kv[mid]) or (knot >= kv[mid + 1])
    fi = m.func('helpers.find_span_binsearch')
    ps = params_of(fi.node)
    kv, knot = ps[1], ps[3]
    loops = [n for n in walk_no_nested(fi.node) if isinstance(n, ast.While)]
    if len(loops) != 1:
        run.note('HO1.half-open-span', fi.key, 'not in the one-while-loop form: the comparison operators are not read off syntactically; the half-open '
                 'interval is decided by interpretation over the knot order types (OT1) only')
        return ho1_linear(m, run)
    test = loops[0].test
    parts = test.values if isinstance(test, ast.BoolOp) and isinstance(test.op, ast.Or) else [test]
    seen = {}
    for p in parts:
        c = cmp_norm(p, knot, kv)
        if c is None:
            continue
        op, idx = c
        try:
            ip = to_poly(idx)
        except NotPoly:
            continue
        atoms = sorted(ip.atoms())
        if len(atoms) != 1:
            continue
        off = ip - Poly.atom(atoms[0])
        seen[int(off.const_value())] = (op, p)
    lo, hi = seen.get(0), seen.get(1)
    run.ob('HO1.half-open-span', fi.key + ' :: lower knot', lo is not None and lo[0] is ast.Lt,
           'search continues while u < U[mid]: u == U[mid] belongs to span mid' if lo and lo[0] is ast.Lt else
           'lower-knot test is `%s`; a half-open span [U[mid], U[mid+1]) requires the strict test u < U[mid]' % (norm(lo[1]) if lo else 'missing'), site(fi, loops[0]))
    run.ob('HO1.half-open-span', fi.key + ' :: upper knot', hi is not None and hi[0] is ast.GtE,
           'search continues while u >= U[mid+1]: u == U[mid+1] belongs to the next span' if hi and hi[0] is ast.GtE else
           'upper-knot test is `%s`; a half-open span requires u >= U[mid+1] (with `>` a parameter on an interior knot lands in the span to its left, '
           'which is empty for repeated knots)' % (norm(hi[1]) if hi else 'missing'), site(fi, loops[0]))
    # the branch inside the loop uses the same lower test
    inner = [n for n in loops[0].body if isinstance(n, ast.If)]
    okb = bool(inner) and cmp_norm(inner[0].test, knot, kv) is not None and cmp_norm(inner[0].test, knot, kv)[0] is ast.Lt
    run.ob('HO1.half-open-span', fi.key + ' :: bisection branch', okb, 'high = mid when u < U[mid]' if okb else 'bisection branch test differs from the loop\'s lower-knot test', site(fi, loops[0]))
    ho1_linear(m, run)


def ho1_linear(m, run):
    # linear search: while span < n and kv[span] <= knot: span += 1 ; return span - 1
    fl = m.func('helpers.find_span_linear')
    ps = params_of(fl.node)
    kv, knot = ps[1], ps[3]
    loops = [n for n in walk_no_nested(fl.node) if isinstance(n, ast.While)]
    if len(loops) != 1:
        run.note('HO1.half-open-span', fl.key, 'not in the one-while-loop form: decided by interpretation over the knot order types (OT1) only')
        return
    test = loops[0].test
    parts = test.values if isinstance(test, ast.BoolOp) and isinstance(test.op, ast.And) else [test]
    found = None
    for p in parts:
        c = cmp_norm(p, knot, kv)
        if c is not None:
            found = (c[0], p)
    run.ob('HO1.half-open-span', fl.key + ' :: advance test', found is not None and found[0] is ast.GtE,
           'advances while U[span] <= u and returns span - 1: the last knot not greater than u starts the span' if found and found[0] is ast.GtE else
           'advance test is `%s`; it must be U[span] <= u' % (norm(found[1]) if found else 'missing'), site(fl, loops[0]))
    rets = [n for n in walk_no_nested(fl.node) if isinstance(n, ast.Return)]
    okr = len(rets) == 1 and isinstance(rets[0].value, ast.BinOp) and isinstance(rets[0].value.op, ast.Sub) and norm(rets[0].value.right) == '1'
    run.ob('HO1.half-open-span', fl.key + ' :: returns span - 1', okr, 'returns `%s`' % (norm(rets[0].value) if rets else '?'), site(fl))


def _skel(m, run):
    from .. import skel_drivers
    skel_drivers.c03(m, run)
    skel_drivers.c03_order(m, run)


def single_function_rules(m, run, with_ho2=True):
    """the single-function routines: basis_function_one is decided by its exact values on one knot vector of every clamped order type, at
    every knot and between (BF4); the rule that asks for the *literal* 0.0 / 1.0 outside the support and at the ends (OT4, which cannot see
    through arithmetic) corroborates for it and stays deciding for basis_function_ders_one; HO2 reads the spelling of the tests"""
    from .. import skel_drivers
    n0 = len(run.obs)
    skel_drivers.bf4(m, run)
    ok = all(o.ok for o in run.obs[n0:])
    with run.corroborating(ok, 'BF4', only=lambda o: o.key.startswith('helpers.basis_function_one')):
        skel_drivers.c03_single(m, run)
    if with_ho2:
        sel = run.obs[n0:]
        ok2 = bool(sel) and all(o.ok for o in sel)
        with run.corroborating(ok2, 'BF4/OT4', rules=('HO2.half-open-support',)):
            ho2(m, run)


def ho2(m, run):
    """single-function routines (A2.4 / A2.5): support test and degree-zero indicator are half-open: U[i] <= u < U[i+1]"""
    for name in ('basis_function_one', 'basis_function_ders_one'):
        fi = m.func('helpers.' + name)
        ps = params_of(fi.node)
        kv, knot = ps[1], ps[3]
        ind = [c for c in walk_no_nested(fi.node) if isinstance(c, ast.Compare) and len(c.ops) == 2 and isinstance(c.comparators[0], ast.Name)
               and c.comparators[0].id == knot]
        ok = False
        why = 'degree-zero indicator (chained comparison around the parameter) not found'
        for c in ind:
            l, r = c.left, c.comparators[1]
            if isinstance(l, ast.Subscript) and isinstance(r, ast.Subscript) and norm(l.value) == kv and norm(r.value) == kv:
                try:
                    d = to_poly(r.slice) - to_poly(l.slice)
                except NotPoly:
                    continue
                ok = isinstance(c.ops[0], ast.LtE) and isinstance(c.ops[1], ast.Lt) and d == Poly.const(1)
                why = 'N_{i,0}(u) = 1 on the half-open span U[i] <= u < U[i+1]' if ok else \
                    'degree-zero indicator is `%s`; spans are half-open [U[i], U[i+1]): with a closed right end a parameter on an interior knot switches on two neighbouring functions' % norm(c)
        run.ob('HO2.half-open-support', fi.key + ' :: degree-zero indicator', ok, why, site(fi, ind[0] if ind else None))
        # support test: u < U[span] or u >= U[span + p + 1] -> 0
        sup = None
        for n in walk_no_nested(fi.node):
            if isinstance(n, ast.If) and isinstance(n.test, ast.BoolOp) and isinstance(n.test.op, ast.Or):
                def core(v):
                    # `u >= U[i+p+1] and not <end-of-domain exception>`: the comparison is the core, the exception is decided by OT4
                    if isinstance(v, ast.BoolOp) and isinstance(v.op, ast.And):
                        for w in v.values:
                            c_ = cmp_norm(w, knot, kv)
                            if c_ is not None:
                                return c_
                        return None
                    return cmp_norm(v, knot, kv)
                cs = [core(v) for v in n.test.values]
                if all(x is not None for x in cs) and len(cs) == 2 and not any(x[0] in (ast.Eq, ast.NotEq) for x in cs):
                    sup = (n, cs)
        oks = False
        if sup is not None:
            (o1, i1), (o2, i2) = sup[1]
            try:
                span_ = Poly.atom(ps[2])
                deg_ = Poly.atom(ps[0])
                oks = o1 is ast.Lt and to_poly(i1) == span_ and o2 is ast.GtE and to_poly(i2) == span_ + deg_ + 1
            except NotPoly:
                oks = False
        run.ob('HO2.half-open-support', fi.key + ' :: support test', oks,
               'zero outside [U[i], U[i+p+1])' if oks else 'support test is not `u < U[i] or u >= U[i+p+1]`', site(fi, sup[0] if sup else None))
    run.floor('HO2.half-open-support', 4, 'two routines x (indicator, support)')


# ---------------------------------------------------------------------------------------------- KG3
def _kg3_findings(fn, resolve, param_taint=frozenset(), memo=None, depth=0):
    """-> (findings, returns_rounded).  A value is *rounded* when it is the result of a division that involves a non-constant operand, or
    is computed from one (flow-insensitive, per function, parameters as at the call site).  A finding is a loop or branch condition that
    compares a rounded value and governs whether an element is emitted (yield / append / extend / += / return / break / continue in
    its body): the number of knots would then depend on how a quotient happens to round."""
    memo = memo if memo is not None else {}
    key = (id(fn), frozenset(param_taint))
    if key in memo:
        return memo[key]
    memo[key] = ([], False)            # (recursion: nothing new on the way back)
    if depth > 5:
        return memo[key]
    tainted = set(param_taint)
    sub = []

    def is_const(e):
        return isinstance(e, ast.Constant) or (isinstance(e, ast.UnaryOp) and is_const(e.operand))

    def callee_of(e):
        callee = resolve(e.func, fn)
        if callee is None:
            return None
        ps = [a.arg for a in callee.args.args]
        pt = frozenset(p_ for p_, a in zip(ps, e.args) if rounded(a)) | frozenset(k.arg for k in e.keywords if k.arg and rounded(k.value))
        return _kg3_findings(callee, resolve, pt, memo, depth + 1)

    def rounded(e):
        if isinstance(e, ast.Name):
            return e.id in tainted
        if isinstance(e, ast.BinOp):
            if isinstance(e.op, ast.Div) and not (is_const(e.left) and is_const(e.right)):
                return True
            return rounded(e.left) or rounded(e.right)
        if isinstance(e, ast.UnaryOp):
            return rounded(e.operand)
        if isinstance(e, ast.Call):
            name = e.func.id if isinstance(e.func, ast.Name) else None
            if name in ('int', 'len', 'range'):
                return False
            r = callee_of(e)
            if r is not None:
                return r[1]
            return any(rounded(a) for a in e.args)
        if isinstance(e, (ast.List, ast.Tuple)):
            return any(rounded(x) for x in e.elts)
        if isinstance(e, (ast.ListComp, ast.GeneratorExp)):
            return rounded(e.elt)
        if isinstance(e, ast.Subscript):
            return rounded(e.value)
        if isinstance(e, ast.IfExp):
            return rounded(e.body) or rounded(e.orelse)
        return False
    for _ in range(6):          # names: fixpoint over the assignments of the function
        before = len(tainted)
        for n in walk_no_nested(fn):
            if isinstance(n, ast.Assign) and rounded(n.value):
                tainted.update(x.id for t in n.targets for x in ast.walk(t) if isinstance(x, ast.Name))
            elif isinstance(n, ast.AugAssign) and isinstance(n.target, ast.Name) and rounded(n.value):
                tainted.add(n.target.id)
            elif isinstance(n, ast.For) and rounded(n.iter):
                tainted.update(x.id for x in ast.walk(n.target) if isinstance(x, ast.Name))
        if len(tainted) == before:
            break

    def emits(body):
        return any(isinstance(x, (ast.Yield, ast.YieldFrom, ast.Return, ast.Break, ast.Continue)) or
                   (isinstance(x, ast.Call) and isinstance(x.func, ast.Attribute) and x.func.attr in ('append', 'extend', 'insert')) or
                   (isinstance(x, ast.AugAssign) and isinstance(x.op, ast.Add) and not isinstance(x.value, ast.Constant)) for st in body for x in ast.walk(st))

    def compares_rounded(test):
        return any(isinstance(c, ast.Compare) and any(rounded(x) for x in [c.left] + c.comparators) for c in ast.walk(test))
    findings, ret = [], False
    for n in walk_no_nested(fn):
        if isinstance(n, (ast.While, ast.If)) and compares_rounded(n.test) and emits(n.body + n.orelse):
            findings.append((fn, n, norm(n.test)))
        if isinstance(n, (ast.Return, ast.Yield)) and n.value is not None and rounded(n.value):
            ret = True
        if isinstance(n, (ast.ListComp, ast.GeneratorExp)):
            findings.extend((fn, n, norm(c)) for g in n.generators for c in g.ifs if compares_rounded(c))
        if isinstance(n, ast.Call):
            r = callee_of(n)
            if r is not None:
                sub.extend(r[0])
    uniq, out = set(), []
    for f in findings + sub:
        if id(f[1]) not in uniq:
            uniq.add(id(f[1]))
            out.append(f)
    memo[key] = (out, ret)
    return memo[key]


def kg3(m, run, rule='KG3.knot-count-decided-by-integers'):
    """the number of generated knots is a function of the integers degree and count: in knotvector.generate and everything it calls
    (parameters as at the call sites) no loop or branch condition that governs whether an element is emitted compares a rounded
    quotient (a float division of non-constant operands, or anything computed from one)"""
    fi = m.func('knotvector.generate')
    owner = {id(fi.node): fi}

    def resolve(f, inside):
        t = m.resolve_callable(owner[id(inside)].mod, f)        # the expression is resolved in the module of the function it stands in
        if t is None or t.kind != 'function':
            return None
        owner[id(t.node)] = t
        return t.node
    found, _ = _kg3_findings(fi.node, resolve)
    # controls: a float-stepped generator must be reported, an integer-counted one with a constant comparison must not
    ctl = ast.parse('def gen(n):\n    step = 1.0 / n\n    x = 0.0\n    out = []\n    while x + step / 2.0 < 1.0:\n        out.append(x)\n        x += step\n    return out\n').body[0]
    neg = ast.parse('def gen(n):\n    out = []\n    if abs(0.0 - 1.0) <= 1e-7:\n        return [0.0]\n    for i in range(n):\n        out.append(float(i) / float(n - 1))\n    return out\n').body[0]
    c_pos, c_neg = _kg3_findings(ctl, lambda f, inside: None)[0], _kg3_findings(neg, lambda f, inside: None)[0]
    if len(c_pos) != 1 or c_neg:
        raise AnalysisError('KG3 controls: the float-stepped generator gives %d reports, the integer-counted one %d: rule is broken' % (len(c_pos), len(c_neg)))
    reached = sorted(t.key for t in owner.values())
    if found:
        fn, node, test = found[0]
        who = owner[id(fn)]
        run.ob(rule, fi.key, False, 'in %s the condition `%s` compares a rounded quotient and decides whether a knot is emitted: for counts where the quotient rounds the other way '
               '(n * (1.0 / n) != 1.0 for n = 49, 98, 103 ...) the vector gets one knot too many or too few   [%d conditions]' % (who.key, test[:100], len(found)),
               'geomdl/%s.py:%d in %s' % (who.mod, node.lineno, who.key))
    else:
        run.ob(rule, fi.key, True, 'no emission is governed by a comparison of a rounded quotient (functions followed: %s); controls: reported / silent' % ', '.join(reached), site(fi))
