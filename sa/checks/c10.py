"""C10 - translation, rotation and scaling act on the shape as on its points (structural part)."""
import ast
from ..model import norm, AnalysisError, walk_no_nested, params_of
from ..poly import Poly, to_poly, NotPoly
from ..pure import Purity
from .. import rules_axis as ra

DECIDES = ('in-place discipline of translate / rotate / scale / transpose / flip / add_dimension: with inplace false the argument is never '
           'mutated and the returned object shares nothing with it; with inplace true the argument itself is updated and returned (PU2); no '
           'call of such a function has its result discarded unless inplace=True is passed (PU3); each transform reads and writes the same '
           '(unweighted) control point view, so weights are re-applied unchanged by the rational setters (KD4, with C09/LY3 on those setters); '
           'the per-point maps extracted from the source are the stated affine maps: translate p[i] + vec[i] index-aligned, scale p[i] * m, '
           'each rotate_* a matrix that is orthogonal with determinant +1 and fixes its axis as a polynomial identity modulo cos^2 + sin^2 = 1, '
           'sandwiched between a translation by -origin and its exact negation (AL1-AL3); the rotation origin is evaluated once, on the first element and outside the loop over the elements (OR1.single-origin), at the start of the '
           'domain of *every* direction (OR1); both class hierarchies implement the iteration protocol that lets the transforms treat shapes '
           'and containers alike: __iter__ rewinds and returns self, __next__ yields each element once then stops (IT1). after an in-place transform no cached evaluated point survives (IV1 restricted to the evaluated points cache, entries include operations.* with inplace=True).')
NOT_DECIDED = ('affine invariance of B-spline/NURBS evaluation itself (mathematics, trusted) and equality of evaluated points (needs C01); floating-point rounding of cos/sin; the sense of rotation (the sign convention differs between the axes on the pinned tree and is not fixed by the property).')
TECHNIQUE = 'alias/mutation analysis with branch pruning on the inplace flag; per-point map extraction; polynomial identities modulo cos^2+sin^2=1'
DECIDES += (' [ABSTRACT INTERPRETATION, exact] RT2: rotate on an abstract container of two shapes turns every element about one origin, the start point of the first element evaluated at the domain start of every direction, the axis coordinate depending on itself only; RT3: the map is p -> o + M (p - o) with M orthogonal, det 1 and the axis fixed modulo cos^2 + sin^2 = 1, entries built from cos / sin of radians(angle) only; TR3: translate / scale are p + vec / p * m exactly on every element (AL1-AL3, OR1 only corroborate).')
DECIDES += (' DG2 / DOM1: the rotation origin is evaluated at the start of the domain as the domain getter defines it; DC9: the object returned without inplace shares nothing with the argument; IV9: no transform edits the stored control points in place behind the setters.')

INPLACE_FUNCS = ['operations.translate', 'operations.rotate', 'operations.scale', 'operations.transpose', 'operations.flip', 'operations.add_dimension']
DECIDES += (' TR4: translate / scale on a real container of a B-spline and a rational curve, in place and on a copy: points moved exactly, weights kept, homogeneous points consistent, input untouched without inplace.')
DECIDES += (' OWN2: two new objects share no container.')


def site(fi, node=None):
    return 'geomdl/%s.py:%s in %s' % (fi.mod, getattr(node or fi.node, 'lineno', '?'), fi.key)


def pu2(m, run, P=None):
    P = P or Purity(m)
    # rotation without inplace is decided on an abstract shape for every axis (RT5: argument untouched, result an independent rotated copy);
    # the purity summaries of operations.rotate corroborate - they follow direct calls, not a dispatch through a table of helpers
    from .. import skel_drivers as _sd5
    n5 = len(run.obs)
    try:
        _sd5.rt5(m, run)
    except AnalysisError as ex:
        run.error(str(ex))
    rt_ok = len(run.obs) > n5 and all(o.ok for o in run.obs[n5:])
    for key in INPLACE_FUNCS:
        if key == 'operations.rotate':
            with run.corroborating(rt_ok, 'RT5', rules=(), only=lambda o: o.rule.startswith('PU2') and 'operations.rotate' in o.key):
                _pu2_one(m, run, P, key)
        else:
            _pu2_one(m, run, P, key)


def _pu2_one(m, run, P, key):
    if True:
        fi = m.func(key)
        p0 = params_of(fi.node)[0]
        root = 'param:' + p0
        sF = P.summary(fi, {'inplace': False})
        sT = P.summary(fi, {'inplace': True})
        muF = [x for x in sF.mutations if x.root == root]
        run.ob('PU2.copy-when-not-inplace', key + ' :: argument untouched', not muF,
               'with inplace=False every mutation targets a deep copy' if not muF else
               'with inplace=False the argument `%s` is mutated at `%s` (%s)' % (p0, norm(muF[0].node)[:70], muF[0].how[:90]),
               site(muF[0].func, muF[0].node) if muF else site(fi))
        shared = [r for r in sF.ret if r[0] == root]
        run.ob('PU2.copy-when-not-inplace', key + ' :: result independent', not shared and bool(sF.returns),
               'returned object is a deep copy' if not shared else 'with inplace=False the returned value aliases the argument (level %s)' % shared[0][1], site(fi))
        retT = [r for r in sT.ret if r == (root, 0)]
        muT = [x for x in sT.mutations if x.root == root]
        run.ob('PU2.same-object-when-inplace', key, bool(retT) and bool(muT),
               'with inplace=True the argument is updated and returned' if retT and muT else
               'with inplace=True %s' % ('the argument is not what is returned' if not retT else 'the argument is never updated'), site(fi))


def check(m, run):
    P = Purity(m)
    pu2(m, run, P)
    pu3(m, run, P)
    views(m, run)
    # the three transforms are decided on abstract shapes with symbolic coordinates (exact polynomial arithmetic, spelling-independent);
    # the rules that read the comprehension / nested-helper spelling of the pinned tree corroborate
    from .. import skel_drivers as _sd
    n0 = len(run.obs)
    _sd.tr3(m, run)
    try:
        _sd.tr4(m, run)       # ... and on a real container of a B-spline and a rational curve, through the classes' own accessors
    except AnalysisError as ex:
        run.error(str(ex))
    tr_ok = all(o.ok for o in run.obs[n0:])
    with run.corroborating(tr_ok, 'TR3/TR4', rules=('AL1.translate-map', 'AL2.scale-map')):
        maps_translate_scale(m, run)
    n0 = len(run.obs)
    _sd.rt2(m, run)
    _sd.rt3(m, run)
    rt_ok = all(o.ok for o in run.obs[n0:])
    with run.corroborating(rt_ok, 'RT2/RT3', rules=('AL3.rotation-matrix', 'AL3.rotation-angle', 'AL3.rotation-about-origin', 'AL3.rotation-dispatch',
                                                      'OR1.single-origin')):
        maps_rotations(m, run)
    with run.corroborating(rt_ok, 'RT2/RT3', rules=('OR1.single-origin', 'OR1.rotation-origin')):
        origin(m, run)
    from .. import rules_state as rs
    rs.iv1(m, run, rs.GEOM, caches_filter=lambda c: c in ('_eval_points', "_cache['ctrlpts']", "_cache['weights']"))      # the transforms write through the control point setters: evaluated points and the rational views follow
    _sd.evx(m, run)       # ... and the transformed shape is what the evaluators make of the transformed control points (EVX, shared with C01)
    iteration(m, run)
    # rational setters used by the transforms pass sizes in axis order (shared with C09)
    fs = []
    for cname in ('Surface', 'Volume'):
        ci = m.cls('NURBS', cname)
        fs += [ci.setters[p] for p in ('ctrlpts', 'weights', 'ctrlptsw') if p in ci.setters]
        cb = m.cls('abstract', cname)
        fs += [cb.setters[p] for p in ('ctrlpts',) if p in cb.setters]
    ra.ly3_positional_sizes(m, run, fs)
    run.floor('PU2.copy-when-not-inplace', 12, '6 functions x 2')
    run.floor('AL3.rotation-matrix', 9, '3 rotations x (orthogonal, det, axis)')
    run.floor('LY3.sizes-in-axis-order', 10, 'control point setters of surfaces and volumes')
    # the object returned without inplace is a deep copy that shares nothing (cache included) with the argument
    rs.iv4_deepcopy(m, run)
    from .. import skel_drivers as _sdsc
    _sdsc.sc2(m, run)
    rs.iv3_cache_keys(m, run, rs.CONCRETE)      # ... and starts with empty caches, whatever its source had cached (CK3)
    # the rotation origin is the start of the domain: the domain of a direction is [knot[degree], knot[-(degree + 1)]]
    from . import c17 as _c17
    _c17.dom1(m, run)
    _c17.domain_getter(m, run)
    rs.iv9_edits_through_setters(m, run)


def pu3(m, run, P):
    """no call whose result is a new object unless inplace=True is used as a bare statement"""
    names = {k.split('.')[-1] for k in INPLACE_FUNCS}
    n = 0
    for fi in m.funcs.values():
        for st in walk_no_nested(fi.node):
            if isinstance(st, ast.Expr) and isinstance(st.value, ast.Call):
                c = st.value
                tgt = m.resolve_callable(fi.mod, c.func) if isinstance(c.func, (ast.Name, ast.Attribute)) else None
                if tgt is None and isinstance(c.func, ast.Name) and c.func.id in names and fi.mod == 'operations':
                    tgt = m.funcs.get('operations.' + c.func.id)
                if tgt is None or tgt.key not in INPLACE_FUNCS:
                    continue
                n += 1
                kw = next((k.value for k in c.keywords if k.arg == 'inplace'), None)
                ok = isinstance(kw, ast.Constant) and kw.value is True
                run.ob('PU3.result-not-discarded', '%s :: %s' % (fi.key, norm(c)[:80]), ok,
                       'in-place call' if ok else 'the result of %s is discarded and inplace=True is not passed: the call has no effect' % tgt.key, site(fi, st))
    run.floor('PU3.result-not-discarded', 1, 'Surface.transpose (and the translate calls of the rotation helpers; their effect is decided by RT3)')


def views(m, run):
    """transform loops read X.ctrlpts and assign X.ctrlpts (never the weighted/private view)"""
    for key in ('operations.translate', 'operations.scale', 'operations.rotate'):
        fi = m.func(key)
        fns = [fi.node] + [n for n in ast.walk(fi.node) if isinstance(n, ast.FunctionDef) and n is not fi.node]
        for fn in fns:
            reads = {n.attr for n in walk_no_nested(fn) if isinstance(n, ast.Attribute) and isinstance(n.ctx, ast.Load)
                     and n.attr in ('ctrlpts', 'ctrlptsw', '_control_points', 'ctrlpts2d')}
            writes = {t.attr for n in walk_no_nested(fn) if isinstance(n, ast.Assign) for t in n.targets if isinstance(t, ast.Attribute)
                      and t.attr in ('ctrlpts', 'ctrlptsw', '_control_points', 'ctrlpts2d')}
            if not writes:
                continue
            ok = writes == {'ctrlpts'} and reads <= {'ctrlpts'} and bool(reads)
            run.ob('KD4.same-view', '%s%s' % (key, '' if fn is fi.node else '.' + fn.name), ok,
                   'reads and writes the unweighted view `.ctrlpts`' if ok else
                   'reads %s but writes %s: weights would be transformed (or dropped) together with the coordinates' % (sorted(reads), sorted(writes)), site(fi, fn))


def point_comprehension(fn, param_names):
    """`[f(v, i) for i, v in enumerate(pt)]` or `[f(p) for p in pts]` assigned in a loop over points -> (elt, bindings)"""
    out = []
    for n in walk_no_nested(fn):
        if isinstance(n, ast.ListComp) and len(n.generators) == 1:
            g = n.generators[0]
            out.append((n, g))
    return out


def maps_translate_scale(m, run):
    # ---- translate: [v + vec[i] for i, v in enumerate(pt)]
    fi = m.func('operations.translate')
    vec = params_of(fi.node)[1]
    ok = False
    for comp, g in point_comprehension(fi.node, []):
        if isinstance(g.iter, ast.Call) and norm(g.iter.func) == 'enumerate' and isinstance(g.target, ast.Tuple) and len(g.target.elts) == 2:
            i, v = g.target.elts[0].id, g.target.elts[1].id
            try:
                p = to_poly(comp.elt)
            except NotPoly:
                continue
            ok = p == Poly.atom(v) + Poly.atom('%s[%s]' % (vec, i))
            node = comp
    run.ob('AL1.translate-map', fi.key, ok, 'coordinate i becomes p[i] + vec[i]' if ok else 'per-coordinate map is not p[i] + vec[i] (index-aligned)', site(fi))
    # ---- scale: [p * float(multiplier) for p in pts]
    fi = m.func('operations.scale')
    mult = params_of(fi.node)[1]
    ok = False
    for comp, g in point_comprehension(fi.node, []):
        if isinstance(g.target, ast.Name):
            try:
                p = to_poly(comp.elt)
            except NotPoly:
                continue
            if p == Poly.atom(g.target.id) * Poly.atom(mult):
                ok = True
    run.ob('AL2.scale-map', fi.key, ok, 'every coordinate becomes p * multiplier' if ok else 'per-coordinate map is not p * multiplier', site(fi))


def maps_rotations(m, run):
    # ---- rotations
    fi = m.func('operations.rotate')
    rots = {n.name: n for n in ast.walk(fi.node) if isinstance(n, ast.FunctionDef) and n.name.startswith('rotate_')}
    if set(rots) != {'rotate_x', 'rotate_y', 'rotate_z'}:
        raise AnalysisError('operations.rotate: nested rotate_x/y/z not found')
    C, S = Poly.atom('C'), Poly.atom('S')
    rel = [('C', 2, Poly.const(1) - S * S)]
    for name, fn in sorted(rots.items()):
        axis = 'xyz'.index(name[-1])
        rows = {}
        loopvar = None
        for lp in [n for n in walk_no_nested(fn) if isinstance(n, ast.For)]:
            if isinstance(lp.target, ast.Tuple) and isinstance(lp.iter, ast.Call) and norm(lp.iter.func) == 'enumerate':
                pt = lp.target.elts[1].id
                for st in lp.body:
                    if isinstance(st, ast.Assign) and isinstance(st.targets[0], ast.Subscript) and isinstance(st.targets[0].slice, ast.Constant):
                        k = st.targets[0].slice.value

                        def atom_of(e, pt=pt):
                            if isinstance(e, ast.Subscript) and isinstance(e.value, ast.Name) and e.value.id == pt and isinstance(e.slice, ast.Constant):
                                return 'p%d' % e.slice.value
                            if isinstance(e, ast.Call) and norm(e.func) == 'math.cos':
                                return 'C'
                            if isinstance(e, ast.Call) and norm(e.func) == 'math.sin':
                                return 'S'
                            return None
                        try:
                            rows[k] = to_poly(st.value, atom_of=atom_of)
                        except NotPoly:
                            rows[k] = None
        # a missing row is the identity only if the new points start as copies of the old ones
        init_copy = any(isinstance(n, ast.Assign) and isinstance(n.value, ast.ListComp) and isinstance(n.value.elt, ast.Call)
                        and norm(n.value.elt.func) in ('list', 'copy.deepcopy', 'deepcopy') for n in walk_no_nested(fn))
        M = []
        good = True
        for k in range(3):
            if k in rows and rows[k] is not None:
                r = rows[k]
                coeffs = []
                for j in range(3):
                    c = r.coeff_of('p%d' % j)
                    coeffs.append(c if c is not None else Poly())
                rest = r
                for j in range(3):
                    rest = rest.without('p%d' % j)
                if rest != Poly():
                    good = False
                M.append(coeffs)
            elif init_copy:
                M.append([Poly.const(1) if j == k else Poly() for j in range(3)])
            else:
                good = False
                M.append([Poly(), Poly(), Poly()])
        key = '%s.%s' % (fi.key, name)
        if not good:
            run.ob('AL3.rotation-matrix', key + ' :: linear', False, 'coordinate assignments are not a linear map of (p0, p1, p2): rows %s' % rows, site(fi, fn))
            continue
        # orthogonality  M M^T = I
        orth = True
        for a in range(3):
            for b in range(3):
                d = sum((M[a][j] * M[b][j] for j in range(3)), Poly()).reduce(rel)
                if d != (Poly.const(1) if a == b else Poly()):
                    orth = False
        det = (M[0][0] * (M[1][1] * M[2][2] - M[1][2] * M[2][1]) - M[0][1] * (M[1][0] * M[2][2] - M[1][2] * M[2][0])
               + M[0][2] * (M[1][0] * M[2][1] - M[1][1] * M[2][0])).reduce(rel)
        fix = all(M[axis][j] == (Poly.const(1) if j == axis else Poly()) for j in range(3)) and all(M[j][axis] == (Poly.const(1) if j == axis else Poly()) for j in range(3))
        mtxt = '[' + '; '.join(', '.join(repr(x) for x in row) for row in M) + ']'
        run.ob('AL3.rotation-matrix', key + ' :: orthogonal', orth, 'M M^T = I modulo C^2 + S^2 = 1, M = %s' % mtxt if orth else 'matrix %s is not orthogonal: the map distorts the shape' % mtxt, site(fi, fn))
        run.ob('AL3.rotation-matrix', key + ' :: determinant', det == Poly.const(1), 'det M = 1' if det == Poly.const(1) else 'det M = %s (a reflection or a scaling)' % det, site(fi, fn))
        run.ob('AL3.rotation-matrix', key + ' :: axis fixed', fix, 'coordinate %s is unchanged and not mixed in' % name[-1] if fix else 'rotation about %s changes / uses coordinate %s' % (name[-1], name[-1]), site(fi, fn))
        # the angle: rot = math.radians(alpha) feeds both cos and sin
        trig = {norm(c.args[0]) for c in ast.walk(fn) if isinstance(c, ast.Call) and norm(c.func) in ('math.cos', 'math.sin')}
        rad = [n for n in walk_no_nested(fn) if isinstance(n, ast.Assign) and isinstance(n.value, ast.Call) and norm(n.value.func) == 'math.radians']
        okang = len(trig) == 1 and bool(rad) and norm(rad[0].targets[0]) in trig and norm(rad[0].value.args[0]) == params_of(fn)[2]
        run.ob('AL3.rotation-angle', key, okang, 'cos and sin of radians(angle)' if okang else 'cos/sin arguments %s are not the one angle converted with math.radians' % sorted(trig), site(fi, fn))
        # sandwich: translate(ncs, T, inplace=True) ... translate(ncs, [-t for t in T], inplace=True); T = origin -> 0
        calls = [c for c in walk_no_nested(fn) if isinstance(c, ast.Call) and isinstance(c.func, ast.Name) and c.func.id == 'translate']
        oks = False
        if len(calls) == 2:
            a, b = sorted(calls, key=lambda c: c.lineno)
            t1, t2 = a.args[1], b.args[1]
            neg = isinstance(t2, ast.ListComp) and isinstance(t2.elt, ast.UnaryOp) and isinstance(t2.elt.op, ast.USub) and \
                norm(t2.elt.operand) == t2.generators[0].target.id and norm(t2.generators[0].iter) == norm(t1)
            tv = [n for n in walk_no_nested(fn) if isinstance(n, ast.Assign) and norm(n.targets[0]) == norm(t1)]
            to_origin = bool(tv) and isinstance(tv[0].value, ast.Call) and norm(tv[0].value.func).endswith('vector_generate') and \
                norm(tv[0].value.args[0]) == params_of(fn)[1] and isinstance(tv[0].value.args[1], ast.ListComp) and \
                isinstance(tv[0].value.args[1].elt, ast.Constant) and tv[0].value.args[1].elt.value == 0.0
            same_obj = norm(a.args[0]) == norm(b.args[0]) == params_of(fn)[0]
            # rotation happens between the two translations
            mid = [n for n in walk_no_nested(fn) if isinstance(n, ast.Assign) and any(isinstance(t, ast.Attribute) and t.attr == 'ctrlpts' for t in n.targets)]
            between = bool(mid) and a.lineno < mid[0].lineno < b.lineno
            oks = neg and to_origin and same_obj and between
        run.ob('AL3.rotation-about-origin', key, oks, 'translate by (0 - origin), rotate, translate back by the exact negation' if oks else
               'the rotation is not sandwiched between a translation to the origin and its negation', site(fi, fn))
    # dispatch tuple in axis order
    tup = [n for n in walk_no_nested(fi.node) if isinstance(n, ast.Assign) and isinstance(n.value, ast.Tuple) and all(isinstance(e, ast.Name) and e.id.startswith('rotate_') for e in n.value.elts)]
    okt = len(tup) == 1 and [e.id for e in tup[0].value.elts] == ['rotate_x', 'rotate_y', 'rotate_z']
    run.ob('AL3.rotation-dispatch', fi.key, okt, 'rotfunc = (rotate_x, rotate_y, rotate_z): axis k -> rotation about coordinate k' if okt else 'axis dispatch table is %s' % (norm(tup[0].value) if tup else '?'), site(fi))


def origin(m, run):
    fi = m.func('operations.rotate')
    ok_c = ok_s = False
    for n in walk_no_nested(fi.node):
        if isinstance(n, ast.Assign) and isinstance(n.targets[0], ast.Name):
            v = n.value
            if isinstance(v, ast.Subscript) and isinstance(v.value, ast.Attribute) and v.value.attr == 'domain' and norm(v.slice) == '0':
                ok_c = True
            if isinstance(v, ast.ListComp) and len(v.generators) == 1 and isinstance(v.generators[0].target, ast.Name):
                i = v.generators[0].target.id
                e = v.elt
                rng = v.generators[0].iter
                good_elt = isinstance(e, ast.Subscript) and norm(e.slice) == '0' and isinstance(e.value, ast.Subscript) and norm(e.value.slice) == i \
                    and isinstance(e.value.value, ast.Attribute) and e.value.value.attr == 'domain'
                good_rng = isinstance(rng, ast.Call) and norm(rng.func) == 'range' and 'pdimension' in norm(rng.args[-1])
                if isinstance(e, ast.Subscript) and 'domain' in norm(e):
                    ok_s = good_elt and good_rng
                    bad_node = n
    run.ob('OR1.rotation-origin', fi.key + ' :: curve', ok_c, 'origin parameter is domain[0]' if ok_c else 'curve origin parameter is not the domain start', site(fi))
    run.ob('OR1.rotation-origin', fi.key + ' :: surface/volume', ok_s, 'origin parameter is [domain[i][0] for every direction i]' if ok_s else
           'the origin parameter list is not the start of the domain of each direction i (element must be domain[i][0] with i ranging over the parametric dimensions)', site(fi))
    ev = [c for c in walk_no_nested(fi.node) if isinstance(c, ast.Call) and isinstance(c.func, ast.Attribute) and c.func.attr == 'evaluate_single']
    run.ob('OR1.rotation-origin', fi.key + ' :: evaluated', len(ev) == 1, 'origin = evaluate_single(params) of the first element', site(fi))
    # one map for the whole input: the origin is computed once, from the first element, outside the loop that rotates the elements
    if len(ev) == 1:
        loops = []
        p = getattr(ev[0], '_sa_parent', None)
        while p is not None and p is not fi.node:
            if isinstance(p, (ast.For, ast.While)):
                loops.append(p)
            p = getattr(p, '_sa_parent', None)
        recv = ev[0].func.value
        first = isinstance(recv, ast.Subscript) and norm(recv.slice) == '0'
        ok1 = not loops and first
        run.ob('OR1.single-origin', fi.key, ok1, 'the origin is evaluated once on element [0], before the elements are rotated' if ok1 else
               ('the origin is re-evaluated inside the loop over the elements: every element of a container is rotated about its own start point, not about one common axis'
                if loops else 'the origin is evaluated on `%s`, not on the first element' % norm(recv)), site(fi, ev[0]))


def iteration(m, run):
    g = m.cls('abstract', 'Geometry')
    c = m.cls('multi', 'AbstractContainer')
    for ci, label in ((g, 'abstract.Geometry'), (c, 'multi.AbstractContainer')):
        for meth in ('__iter__', '__next__', '__len__', '__getitem__'):
            run.ob('IT1.iteration-protocol', '%s.%s' % (label, meth), meth in ci.methods, 'defined' if meth in ci.methods else 'missing: shapes and containers can no longer be treated alike', '')
        it = ci.methods.get('__iter__')
        nx = ci.methods.get('__next__')
        if it is None or nx is None:
            continue
        resets = [n for n in walk_no_nested(it.node) if isinstance(n, ast.Assign) and isinstance(n.targets[0], ast.Attribute) and isinstance(n.value, ast.Constant) and n.value.value == 0]
        rets = [n for n in walk_no_nested(it.node) if isinstance(n, ast.Return) and norm(n.value) == 'self']
        run.ob('IT1.iteration-protocol', label + '.__iter__ :: rewinds', bool(resets) and bool(rets),
               'index reset to 0 and self returned' if resets and rets else '__iter__ does not reset the iteration index on every call: a loop left early makes the next '
               'loop (e.g. inside translate/rotate/scale) skip the elements already visited', site(it))
        idx = resets[0].targets[0].attr if resets else None
        incs = [n for n in walk_no_nested(nx.node) if isinstance(n, ast.AugAssign) and isinstance(n.target, ast.Attribute) and isinstance(n.op, ast.Add) and norm(n.value) == '1']
        stops = [n for n in walk_no_nested(nx.node) if isinstance(n, ast.Raise) and 'StopIteration' in norm(n)]
        okn = bool(incs) and bool(stops) and (idx is None or incs[0].target.attr == idx)
        run.ob('IT1.iteration-protocol', label + '.__next__ :: advances and stops', okn, 'index advanced by 1, StopIteration when exhausted' if okn else '__next__ does not advance the same index / never stops', site(nx))
    # the container yields its elements, the shape yields itself
    nx = c.methods.get('__next__')
    oke = nx is not None and any(isinstance(n, ast.Subscript) and norm(n.value) == 'self._elements' for n in ast.walk(nx.node))
    run.ob('IT1.iteration-protocol', 'multi.AbstractContainer.__next__ :: yields elements', oke, 'returns self._elements[index]', site(nx) if nx else '')
    nx = g.methods.get('__next__')
    okg = nx is not None and any(isinstance(n, ast.Return) and norm(n.value) == 'self' for n in ast.walk(nx.node))
    run.ob('IT1.iteration-protocol', 'abstract.Geometry.__next__ :: yields itself', okg, 'returns self once', site(nx) if nx else '')
