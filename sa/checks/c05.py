"""C05 - knot refinement never changes the shape (structural part)."""
from .. import ops_common as oc

DECIDES = ('for refine_knotvector x {curve, surface u/v, volume u/v/w}: every block is guarded by param[k] > 0 alone, so an unselected '
           'direction is untouched; helper calls, density=param[k] and knot-vector updates belong to direction k (AX3/AX1); gather strides, '
           'scatter order and flip usage as in C04 (LY1/LY2); the size passed for direction k is the length of the refined rows and the other '
           'sizes are the current ones, in (u, v, w) order (LY3); the control point view gathered in a block is re-read after the previous block replaced '
           'the net (GA1). cells of the in-place-updated result array are duplicated only by deep copy (AL1). [ORDER TYPES, bounded box, exact per type] '
           'helpers.knot_refinement (default knot list, density 1 and 2, with and without added knots) returns as knot vector exactly the sorted merge '
           'of the old knots and of every refined knot - the distinct old knots of the domain, the added knots and the bisection midpoints - each '
           'repeated degree - multiplicity times: bisection counts and resulting multiplicities, no slot left at its initial fill (KR1); the refined '
           'net has one defined cell per control point of the refined vector (SK3). the unweighted-points / weights views of rational shapes cannot survive the replacement of the net (IV1 restricted to these caches). both pluggable span searches return the non-empty half-open span for parameters on knots of any multiplicity (OT1), which evaluation after refinement relies on. [SKEL, abstract objects] the whole operation interpreted on abstract curves, surfaces and volumes with index-labelled control points, ordered knots and a row helper of known effect: per requested direction and for all directions at once the net changes along the requested directions only, set_ctrlpts receives the new sizes in (u, v, w) order and every cell of the new flat list is the input cell at the mapped coordinates, the row helper receives the degree, row count and count of its direction, knot vectors of other directions are untouched, and no parameter value is used as a truth value (OPS2: spelling-independent form of AX3 / LY1 / LY2 / LY3 / GA1).')
NOT_DECIDED = ('shape invariance itself for degrees and knot vectors outside the three enumerated nets; floating-point rounding of the alpha values.')
TECHNIQUE = 'axis-tag dataflow, stride rule in polynomial normal form, structural gather/scatter rules, CFG reaching definitions, interpretation of the comparison skeleton over knot order types'
DECIDES += (' [ABSTRACT INTERPRETATION, exact] KF3: helpers.knot_refinement on exact rational knots and symbolic control points returns the documented knot multiset (density 1 and 2) and exactly the net of the single insertions of its new knots.')
DECIDES += (' KD5: the setters store floats in fresh lists (knot_refinement dispatches on isinstance(x[0][0], float)).')


def check(m, run):
    fi = m.func('operations.refine_knotvector')
    from .. import skel_drivers as _sd
    _sd.kir3(m, run, ('refine',))        # A5.4 on exact rational knots and symbolic control points equals the single insertions of its new knots
    oc.shared_dependencies(m, run)
    oc.block_rules(m, run, fi, 'refine')
    # aliasing inside the row helpers is decided by the exact runs on rows of points (KF3: shared rows change together, and the rows handed
    # in must stay what they were); the rule that reads which stores are deep copies corroborates
    sem_ok_ = all(o.ok for o in run.obs if o.rule.startswith('KF3'))
    with run.corroborating(sem_ok_, 'KF3', rules=('AL1.no-shared-cells', 'PU1.rows-not-mutated')):
        oc.helper_alias_rules(m, run, 'helpers.knot_refinement', pu1=False)
    run.floor('AL1.no-shared-cells', 2, 'row duplication in A5.4')
    from .. import rules_state as rs
    rs.iv1(m, run, [('NURBS', 'Curve'), ('NURBS', 'Surface'), ('NURBS', 'Volume')], caches_filter=lambda c: c in ("_cache['ctrlpts']", "_cache['weights']"))
    from .. import skel_drivers
    skel_drivers.c03_order(m, run)      # refined knot vectors have interior knots of full multiplicity: both pluggable span searches must skip the empty spans
    skel_drivers.c05(m, run)
    run.floor('KR1.refined-knot-vector-is-the-sorted-merge', 2, 'rows and slabs')
    run.assume('order-type abstraction: distinct knots differ by more than the tolerance of knot_refinement (1e-7) and of find_multiplicity')
    from .. import skel_drivers as _sdk
    _sdk.ec2(m, run)       # curves / surfaces extracted from a shape are refined on their own: they share no list with each other or with the source
    _sdk.kd5(m, run)       # the per-row helpers dispatch on isinstance(point[0], float): the setters store floats


