"""C05 - knot refinement never changes the shape (structural part)."""
from .. import ops_common as oc

DECIDES = ('for refine_knotvector x {curve, surface u/v, volume u/v/w}: every block is guarded by param[k] > 0 alone, so an unselected '
           'direction is untouched; helper calls, density=param[k] and knot-vector updates belong to direction k (AX3/AX1); gather strides, '
           'scatter order and flip usage as in C04 (LY1/LY2); the size passed for direction k is the length of the refined rows and the other '
           'sizes are the current ones, in (u, v, w) order (LY3). cells of the in-place-updated result array are duplicated only by deep copy (AL1).')
NOT_DECIDED = 'shape invariance, bisection counts, resulting multiplicities, helpers.knot_refinement arithmetic (incl. aliasing of row copies inside A5.4).'
TECHNIQUE = 'axis-tag dataflow, stride rule in polynomial normal form, structural gather/scatter rules'


def check(m, run):
    fi = m.func('operations.refine_knotvector')
    oc.block_rules(m, run, fi, 'refine')
    oc.helper_alias_rules(m, run, 'helpers.knot_refinement', pu1=False)
    run.floor('AL1.no-shared-cells', 2, 'row duplication in A5.4')
