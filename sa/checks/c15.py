"""C15 - tessellation is a valid triangulation lying on the surface (structural part)."""
import ast
from ..model import norm, AnalysisError, walk_no_nested, params_of
from ..poly import Poly, to_poly, NotPoly, range_bounds
from .. import rules_axis as ra
from .. import rules_layout as rl
from . import c17

DECIDES = ('grid, quad and triangle index arithmetic follows the sample grid layout (v fastest, row length = number of v samples / v vertices) '
           'with direction-coherent indices (LY1p); the parametric step added per vertex in a direction is computed from that direction\'s '
           'sample count (PJ1); fix_numbering renumbers the kept vertices consecutively from 0 (FN1); Surface.tessellate passes evaluated '
           'points with (sample_size_u, sample_size_v) in this order and re-evaluates every vertex at its *own* stored parameters, skipping only '
           'out-of-domain parameters (TV1); OBJ / OFF face records use the three vertex ids of the triangle plus the number of vertices emitted '
           'for all previous surfaces (+1 for OBJ) and OFF counts are the lengths of the emitted lists (AG6); STL writes, in both encodings, a '
           'facet count equal to the list iterated, one normal from triangle_normal(t) and the three vertices of t per facet (ST1); the '
           'container tessellates serially and in parallel with the same worker (AG5); the trimming point-in-polygon test uses the non-zero '
           'winding rule (WN1); [SKEL, bounded] make_triangle_mesh never indexes outside its vertex array and creates exactly one vertex per '
           'strided sample for sample sizes 2..13 (thorough: 2..40), square and non-square, every spacing dividing size - 1. every surface of a container gets its own tessellator object (IV7). the container forces its elements to be numbered afresh before it adds the running id offsets to their vertices and faces (OFF1); every shipped tessellator accepts the keywords Surface.tessellate passes and gives its vertices their parameters (TK1); the vertex pass and the triangle pass of the trimming tessellator read and set the same sticky flags in the same branches (TR1); vertices are re-evaluated on every path that tessellates (TV1); each vertex object occurs once with ids 0..N-1 also when the tessellation function hands grid vertices back (FN2, SKEL); no mesh element caches values derived from its vertices (IV5); the mesh exporters copy sample sizes per direction (AXK). the (u, v) stored in the vertices are mapped onto the surface domain before re-evaluation, or only normalised surfaces are re-evaluated (TV2: known finding on the pinned tree - tessellation assumes the unit square).')
NOT_DECIDED = 'Euler characteristic, orientation, exact tiling, that vertex positions equal the surface (needs C01), trimmed region vs cell size, normals\' direction: geometric/numerical.'
TECHNIQUE = 'stride rule on preallocated arrays, axis tags, writer structure rules, branch equivalence; bounded index-skeleton interpretation'
DECIDES += (" [ABSTRACT INTERPRETATION] MSH2: make_triangle_mesh on labelled grids of every size and admissible spacing gives vertex k of the strided grid the input point, the parametric position and the id of its own grid position and hands every cell's corners (a,b), (a+1,b), (a+1,b+1), (a,b+1) to the tessellation function once; MX2: the OBJ / OFF / ASCII-STL text produced for an abstract container of three surfaces with different vertex counts parses back to every vertex once in surface order, faces that refer to the vertices of their own surface and (OFF) the declared counts (LY1p, QC1, PJ1, FN1, AG6 only corroborate).")
DECIDES += (' QM2: make_quad_mesh on labelled grids (one quad per cell, corners of that cell in cyclic order); FN2: triangle_normal is a positive multiple of (v1 - v0) x (v2 - v1) on symbolic vertices, every threshold comparison taken both ways; CT2: the container aggregate is numbered afresh on every rebuild (OFF1 corroborates).')


def site(fi, node=None):
    return 'geomdl/%s.py:%s in %s' % (fi.mod, getattr(node or fi.node, 'lineno', '?'), fi.key)


def tr1(m, run):
    """TR1: surface_trim_tessellate classifies the four cell vertices and then the candidate triangles against every trim curve with the
    same two sticky flags: inside a reversed trim an element is kept unless it is already marked 'trim' (and is then marked 'no_trim');
    outside a reversed trim it is dropped unless it is marked 'no_trim'.  The two passes must read and write the same flags in the same
    branches, and each pass reads both flags."""
    fi = m.func('_tessellate.surface_trim_tessellate')
    passes = []
    for lp in [x for x in walk_no_nested(fi.node) if isinstance(x, ast.For)]:
        inner = [y for y in lp.body if isinstance(y, ast.For) and norm(y.iter) == 'trims'] if isinstance(lp, ast.For) else []
        for tl in inner:
            reads = [c.args[0].value for c in ast.walk(tl) if isinstance(c, ast.Call) and isinstance(c.func, ast.Attribute) and c.func.attr == 'opt_get'
                     and c.args and isinstance(c.args[0], ast.Constant)]
            # collapse `x is None or not x` to one read per test
            tests = []
            for t in [y for y in ast.walk(tl) if isinstance(y, ast.If)]:
                ks = sorted({c.args[0].value for c in ast.walk(t.test) if isinstance(c, ast.Call) and isinstance(c.func, ast.Attribute) and c.func.attr == 'opt_get'
                             and c.args and isinstance(c.args[0], ast.Constant)})
                if ks:
                    tests.append((t.lineno, tuple(ks)))
            writes = [(a.lineno, a.value.elts[0].value) for a in ast.walk(tl) if isinstance(a, ast.Assign) and isinstance(a.targets[0], ast.Attribute) and a.targets[0].attr == 'opt'
                      and isinstance(a.value, ast.List) and a.value.elts and isinstance(a.value.elts[0], ast.Constant)]
            passes.append((lp, [k for _, k in sorted(tests)], [k for _, k in sorted(writes)]))
    if len(passes) != 2:
        raise AnalysisError('surface_trim_tessellate: expected a vertex pass and a triangle pass over the trims, found %d' % len(passes))
    (l1, t1, w1), (l2, t2, w2) = passes
    same = t1 == t2 and w1 == w2
    run.ob('TR1.vertex-and-triangle-pass-agree', fi.key, same, 'both passes test %s and set %s' % (t1, w1) if same else
           'the vertex pass tests the flags %s and sets %s, the triangle pass tests %s and sets %s: the two classifications must use the same flags in the same branches'
           % (t1, w1, t2, w2), site(fi, l1))
    for lp, t, w in passes:
        both = {k for ks in t for k in ks} == {'trim', 'no_trim'} and set(w) == {'trim', 'no_trim'}
        run.ob('TR1.both-flags-read', '%s :: pass at line %d' % (fi.key, lp.lineno), both, 'reads and sets both sticky flags' if both else
               'the pass reads the flags %s and sets %s: the keep-decision outside a reversed trim must consult `no_trim`, the one inside it `trim`' % (t, w), site(fi, lp))


def tk1(m, run):
    """TK1: every shipped tessellator can be driven by Surface.tessellate - the keywords that method passes to
    `_tsl_component.tessellate(...)` are accepted by the mesh function the tessellator forwards its **kwargs to (a keyword the mesh
    function does not take is a TypeError, i.e. no tessellation at all), and a tessellator whose mesh function leaves the vertices'
    (u, v) unset cannot be used either, because Surface.tessellate re-evaluates every vertex at its stored (u, v)"""
    st = m.cls('abstract', 'Surface').methods.get('tessellate')
    calls = [c for c in walk_no_nested(st.node) if isinstance(c, ast.Call) and isinstance(c.func, ast.Attribute) and c.func.attr == 'tessellate'
             and '_tsl_component' in norm(c.func.value)]
    # the keywords the component receives: from the recorded call of the interpreted method (spelling-independent); the call site read
    # from the source is the fallback
    passed = None
    try:
        from .. import skel_drivers as _sdk1
        passed = _sdk1.tessellate_keywords(m)
    except Exception:
        passed = None
    if passed is None:
        if len(calls) != 1:
            raise AnalysisError('abstract.Surface.tessellate: call of the tessellation component not found')
        passed = {k.arg for k in calls[0].keywords if k.arg}
    n = 0
    for ck in sorted(k for k in m.classes if k[0] == 'tessellate' and k[1] != 'AbstractTessellate'):
        ci = m.classes[ck]
        init, tes = ci.methods.get('__init__'), ci.methods.get('tessellate')
        if init is None or tes is None:
            continue
        target = None
        for a in walk_no_nested(init.node):
            if isinstance(a, ast.Assign) and norm(a.targets[0]) == 'self._tsl_func':
                target = m.resolve_callable(init.mod, a.value)
        fw = [c for c in walk_no_nested(tes.node) if isinstance(c, ast.Call) and norm(c.func) == 'self._tsl_func']
        if target is None or len(fw) != 1:
            raise AnalysisError('%s.%s: mesh function / forwarding call not found' % ck)
        n += 1
        forwards_all = any(k.arg is None for k in fw[0].keywords)
        popped = {c.args[0].value for c in walk_no_nested(tes.node) if isinstance(c, ast.Call) and isinstance(c.func, ast.Attribute) and c.func.attr == 'pop'
                  and c.args and isinstance(c.args[0], ast.Constant)}
        explicit = {k.arg for k in fw[0].keywords if k.arg}
        reach = ((passed - popped) if forwards_all else set()) | explicit
        a = target.node.args
        names = {x.arg for x in a.args + a.kwonlyargs}
        missing = sorted(reach - names) if a.kwarg is None else []
        run.ob('TK1.tessellator-accepts-what-the-surface-passes', '%s.%s -> %s' % (ck[0], ck[1], target.key), not missing,
               '%s accepts %s' % (target.key, sorted(reach)) if not missing else
               'Surface.tessellate passes %s, %s.tessellate forwards them, but %s takes neither %s nor **kwargs: tessellating a surface with this '
               'tessellator raises TypeError' % (sorted(passed), ck[1], target.key, missing), site(tes, fw[0]))
        sets_uv = any(isinstance(x, ast.Assign) and isinstance(x.targets[0], ast.Attribute) and x.targets[0].attr == 'uv' for x in ast.walk(target.node)) or \
            any(isinstance(k, ast.keyword) and k.arg == 'uv' for x in ast.walk(target.node) if isinstance(x, ast.Call) for k in x.keywords)
        run.ob('TK1.mesh-vertices-carry-parameters', '%s.%s -> %s' % (ck[0], ck[1], target.key), sets_uv,
               'vertices get their (u, v)' if sets_uv else
               '%s never sets the (u, v) of its vertices: Surface.tessellate re-evaluates every vertex at its stored (u, v), which is the default (0, 0) for all of them'
               % target.key, site(target))
    if n < 3:
        raise AnalysisError('TK1: only %d tessellators found' % n)


def off1(m, run):
    """SurfaceContainer.tessellate numbers the aggregate by adding running offsets to the ids of the elements' own vertex / face
    objects (an in-place, cumulative update of objects owned by the elements' tessellators).  That is sound only if every element
    is numbered afresh each time the aggregate is built: every call of the per-element worker is dominated by `kwargs['force'] = True`
    or passes force=True, so the worker's elem.tessellate(**kwargs) cannot return the previous, already offset, mesh."""
    from ..cfg import CFG
    fi = m.cls('multi', 'SurfaceContainer').methods.get('tessellate')
    if fi is None:
        raise AnalysisError('multi.SurfaceContainer.tessellate not found')
    tainted = set()
    changed = True
    while changed:
        changed = False
        for n in walk_no_nested(fi.node):
            if isinstance(n, ast.For) and isinstance(n.target, ast.Name) and norm(n.iter) in ('self._elements', 'self') and n.target.id not in tainted:
                tainted.add(n.target.id)
                changed = True
            if isinstance(n, ast.Assign) and isinstance(n.targets[0], ast.Name) and n.targets[0].id not in tainted \
                    and any(isinstance(x, ast.Name) and x.id in tainted for x in ast.walk(n.value)):
                tainted.add(n.targets[0].id)
                changed = True
    cumulative = [n for n in walk_no_nested(fi.node) if isinstance(n, ast.AugAssign) and isinstance(n.target, ast.Attribute)
                  and any(isinstance(x, ast.Name) and x.id in tainted for x in ast.walk(n.target.value))]
    if not cumulative:
        run.ob('OFF1.offsets-on-fresh-numbering', fi.key, True, 'ids of element-owned objects are not updated cumulatively', site(fi))
        return
    cfg = CFG(fi.node)
    workers = [c for c in walk_no_nested(fi.node) if isinstance(c, ast.Call) and any(
        (isinstance(x, ast.Name) and x.id == 'process_tessellate') for x in ast.walk(c.func) if True) or
        (isinstance(c, ast.Call) and norm(c.func) == 'partial' and c.args and norm(c.args[0]) == 'process_tessellate')]
    if not workers:
        raise AnalysisError('%s: per-element worker call not found' % fi.key)
    kwname = fi.node.args.kwarg.arg if fi.node.args.kwarg else None

    def forces(nd):
        a = nd.ast
        return isinstance(a, ast.Assign) and isinstance(a.targets[0], ast.Subscript) and norm(a.targets[0].value) == kwname \
            and isinstance(a.targets[0].slice, ast.Constant) and a.targets[0].slice.value == 'force' and isinstance(a.value, ast.Constant) and a.value.value is True
    for w in workers:
        kwf = next((k.value for k in w.keywords if k.arg == 'force'), None)
        ok = (isinstance(kwf, ast.Constant) and kwf.value is True) or cfg.dominated_by(cfg.node_of(w), forces)
        run.ob('OFF1.offsets-on-fresh-numbering', '%s :: %s' % (fi.key, norm(w)[:50]), ok,
               'elements are re-tessellated (force) before `%s` adds the offsets' % norm(cumulative[0])[:40] if ok else
               '`%s` adds the running offset to ids of objects owned by the elements, but the elements are not forced to re-tessellate: when the aggregate is '
               'rebuilt over still-tessellated elements (tessellate(delta=False) after add()/reset()) the offsets are added twice and ids are no longer consecutive'
               % norm(cumulative[0])[:40], site(fi, w))


def check(m, run):
    tm = m.func('_tessellate.make_triangle_mesh')
    qm = m.func('_tessellate.make_quad_mesh')
    # make_triangle_mesh is decided on labelled grids of every sample size (MSH2 inside the SKEL driver: which point, which parametric
    # position and which id every vertex carries, which corners every cell hands to the tessellation function); the rules that read
    # the allocation / running-sum spelling of the pinned tree corroborate
    from .. import skel_drivers
    n0 = len(run.obs)
    skel_drivers.c15(m, run)
    msh_ok = all(o.ok for o in run.obs[n0:])
    with run.corroborating(msh_ok, 'MSH2 (SK1.index-safety on labelled grids)', rules=('LY1.prealloc-stride', 'PJ1.step-of-own-direction', 'FN1.consecutive-numbering', 'QC1.cell-corners')):
        _triangle_mesh_syntactic(m, run, tm)
    # make_quad_mesh is decided on labelled grids (QM2: one quad per cell, the four corners of that cell in cyclic order, vertices numbered
    # like the points); the rules that read the corner index arithmetic of the pinned spelling corroborate
    n1 = len(run.obs)
    skel_drivers.qm2(m, run)
    qm_ok = all(o.ok for o in run.obs[n1:])
    with run.corroborating(qm_ok, 'QM2', rules=('QC1.cell-corners', 'LY1.prealloc-stride')):
        cq, arr_q = quad_corners(run, qm, lambda c: norm(c.func) == 'Quad')
        rl.ly1_prealloc(m, run, qm, arrays={arr_q: ast.parse('size_v', mode='eval').body})
    _rest(m, run)


def _triangle_mesh_syntactic(m, run, tm):
    sc = ra.scope_of(tm)
    # row lengths: points -> size_v ; vertices -> the local bound to the number of v vertices
    vrow = varr = None
    for n in walk_no_nested(tm.node):
        if isinstance(n, ast.Assign) and isinstance(n.targets[0], ast.Name) and isinstance(n.value, ast.ListComp) and 'Vertex' in norm(n.value.elt):
            ext = n.value.generators[0].iter.args[-1]
            if isinstance(ext, ast.BinOp) and isinstance(ext.op, ast.Mult):
                for side in (ext.left, ext.right):
                    if sc.int_tags(side, n) == {1}:
                        vrow, varr = side, n.targets[0].id
    if vrow is None:
        raise AnalysisError('make_triangle_mesh: vertex array allocation (u count * v count) not found')
    ct, arr_t = quad_corners(run, tm, lambda c: isinstance(c.func, ast.Name) and ra.scope_of(tm).api_origin(c.func) == 'tessellate_func')
    rl.ly1_prealloc(m, run, tm, arrays={params_of(tm.node)[0]: ast.parse('size_v', mode='eval').body, varr: vrow})
    pj1(run, tm)
    fn1(m, run, tm)


def _rest(m, run):
    run.floor('LY1.prealloc-stride', 9, 'source point, 4 + 4 quad corners')
    # Surface.tessellate is decided against a recording tessellation component (TV3); the rules that read its call and its re-evaluation
    # loop corroborate (TV2, the domain of the stored parameters, is a separate clause and stays with its rule)
    from .. import skel_drivers as _sdt3
    n_tv = len(run.obs)
    try:
        _sdt3.tv3(m, run)
    except AnalysisError as ex:
        run.error(str(ex))
    tv_ok = len(run.obs) > n_tv and all(o.ok for o in run.obs[n_tv:])
    with run.corroborating(tv_ok, 'TV3', rules=('TV1.tessellate-inputs', 'TV1.vertex-on-surface', 'TV1.re-evaluation-on-every-path'), only=lambda o: o.rule.startswith('TV1')):
        tv1(m, run)
    from .. import skel_drivers as _sd
    n0 = len(run.obs)
    _sd.mx2(m, run)
    mx_ok = all(o.ok for o in run.obs[n0:])
    with run.corroborating(mx_ok, 'MX2', rules=('AG6.face-record', 'AG6.face-index-offset', 'AG6.off-header')):
        ag6(m, run)
    st1(m, run)
    _sd.fn2(m, run)
    c17.ag5(m, run)
    wn1(m, run)
    # the aggregate mesh of a container is decided on a real container of recorder surfaces through four rebuilds (CT2); the rule that
    # looks for the forced re-tessellation in front of the cumulative id update corroborates
    n_ct = len(run.obs)
    try:
        _sd.ct2(m, run)
        _sd.tt2(m, run)
        _sd.ls2(m, run)        # the vertex re-evaluation is done at the stored parameters themselves (LS2)
        from .. import rules_state as _rs15
        _rs15.iv4_deepcopy(m, run)     # a copy of a surface has its own tessellation component and mesh (DC9)
    except AnalysisError as ex:
        run.error(str(ex))
    ct_ok = len(run.obs) > n_ct and all(o.ok for o in run.obs[n_ct:])
    with run.corroborating(ct_ok, 'CT2', rules=('OFF1.offsets-on-fresh-numbering',)):
        off1(m, run)
    tk1(m, run)
    tr1(m, run)
    c12_mod = __import__('sa.checks.c12', fromlist=['iv7'])
    c12_mod.iv7(m, run)
    from . import c12
    c12.foreign_cache_in(m, run, 'elements', ('self._data',))
    exporters = [m.func('exchange.' + n) for n in ('export_obj_str', 'export_off_str', 'export_stl_str')]
    ra.axk_keyword_suffix(m, run, exporters)
    run.floor('AXK.keyword-axis', 6, 'sample sizes copied per direction in the three mesh exporters')


def quad_corners(run, fi, is_cell_call):
    """the four corners handed to the cell constructor (tessellation function / Quad) are (i, j), (i+1, j), (i+1, j+1), (i, j+1)"""
    calls = [c for c in walk_no_nested(fi.node) if isinstance(c, ast.Call) and is_cell_call(c) and len(c.args) >= 4 and all(isinstance(a, ast.Name) for a in c.args[:4])]
    if len(calls) != 1:
        raise AnalysisError('%s: cell construction call with four corner vertices not found' % fi.key)
    rows = {}
    arr = None
    for k, a in enumerate(calls[0].args[:4]):
        ds = [n for n in walk_no_nested(fi.node) if isinstance(n, ast.Assign) and isinstance(n.targets[0], ast.Name) and n.targets[0].id == a.id
              and isinstance(n.value, ast.Subscript) and isinstance(n.value.value, ast.Name)]
        if len(ds) != 1:
            raise AnalysisError('%s: corner %d is not bound once to an element of the vertex array' % (fi.key, k + 1))
        arr = ds[0].value.value.id
        try:
            rows[k + 1] = (to_poly(ds[0].value.slice), ds[0])
        except NotPoly:
            raise AnalysisError('%s: corner index not polynomial' % fi.key)
    p1 = rows[1][0]
    # row length = the atom that multiplies a loop variable in corner 1
    sizes = [a for mono in p1.t for a, _ in mono if len(mono) == 2]
    loopvars = {n.target.id for n in walk_no_nested(fi.node) if isinstance(n, ast.For) and isinstance(n.target, ast.Name)}
    sizes = [a for a in sizes if a not in loopvars]
    if len(set(sizes)) != 1:
        raise AnalysisError('%s: corner index `%s` not of the form j + i*R' % (fi.key, p1))
    R = Poly.atom(sizes[0])
    want = {2: p1 + R, 3: p1 + R + 1, 4: p1 + 1}
    for k in (2, 3, 4):
        ok = rows[k][0] == want[k]
        run.ob('QC1.cell-corners', '%s :: corner %d' % (fi.key, k), ok,
               'corner %d is %s' % (k, want[k]) if ok else 'corner %d is addressed as %s, the cell (i, j) needs %s (order: (i,j), (i+1,j), (i+1,j+1), (i,j+1))' % (k, rows[k][0], want[k]),
               site(fi, rows[k][1]))
    return rows, arr


def pj1(run, fi):
    sc = ra.scope_of(fi)
    n_ = 0
    for n in walk_no_nested(fi.node):
        if isinstance(n, ast.AugAssign) and isinstance(n.op, ast.Add) and isinstance(n.value, ast.Name):
            tv = sc.int_tags(n.value, n)
            if not tv:
                continue
            loop = getattr(n, '_sa_parent', None)
            while loop is not None and not isinstance(loop, ast.For):
                loop = getattr(loop, '_sa_parent', None)
            if loop is None or not isinstance(loop.target, ast.Name):
                continue
            tl = sc.int_tags(loop.target, loop.body[0])
            n_ += 1
            run.ob('PJ1.step-of-own-direction', '%s :: %s' % (fi.key, norm(n)), tv == tl,
                   'parameter advanced along %s by a step computed from the %s sample count' % (ra.fmt(tl), ra.fmt(tv)) if tv == tl else
                   'inside the loop over direction %s the parameter is advanced by `%s`, which is computed from direction %s: vertex parameters no longer match the '
                   'points they were taken from when the two sample counts differ' % (ra.fmt(tl), norm(n.value), ra.fmt(tv)), site(fi, n))
    if n_ < 2:
        raise AnalysisError('%s: parameter step statements not found' % fi.key)


def fn1(m, run, tm):
    fx = [f for f in ast.walk(tm.node) if isinstance(f, ast.FunctionDef) and f.name == 'fix_numbering']
    if not fx:
        raise AnalysisError('make_triangle_mesh: nested fix_numbering not found')
    fx = fx[0]
    ok = False
    for lp in [n for n in walk_no_nested(fx) if isinstance(n, ast.For)]:
        asg = [s for s in lp.body if isinstance(s, ast.Assign) and isinstance(s.targets[0], ast.Attribute) and s.targets[0].attr == 'id' and isinstance(s.value, ast.Name)]
        inc = [s for s in lp.body if isinstance(s, ast.AugAssign) and isinstance(s.op, ast.Add) and norm(s.value) == '1']
        if asg and inc and norm(inc[0].target) == asg[0].value.id:
            init = [s for s in fx.body if isinstance(s, ast.Assign) and norm(s.targets[0]) == asg[0].value.id and norm(s.value) == '0']
            ok = bool(init) and lp.body.index(asg[0]) < lp.body.index(inc[0])
    run.ob('FN1.consecutive-numbering', tm.key + '.fix_numbering', ok, 'kept vertices get ids 0, 1, 2, ... in order' if ok else 'vertices are not renumbered consecutively from 0', site(tm, fx))


def tv1(m, run):
    fi = m.cls('abstract', 'Surface').methods.get('tessellate')
    if fi is None:
        raise AnalysisError('abstract.Surface.tessellate not found')
    calls = [c for c in walk_no_nested(fi.node) if isinstance(c, ast.Call) and isinstance(c.func, ast.Attribute) and c.func.attr == 'tessellate' and '_tsl_component' in norm(c.func.value)]
    ok = len(calls) == 1 and norm(calls[0].args[0]) == 'self.evalpts' and {k.arg: norm(k.value) for k in calls[0].keywords if k.arg in ('size_u', 'size_v')} == \
        {'size_u': 'self.sample_size_u', 'size_v': 'self.sample_size_v'}
    run.ob('TV1.tessellate-inputs', fi.key, ok, 'tessellates self.evalpts with (sample_size_u, sample_size_v)' if ok else 'tessellator is not fed evalpts with size_u=sample_size_u, size_v=sample_size_v', site(fi))
    okr = False
    for lp in [n for n in walk_no_nested(fi.node) if isinstance(n, ast.For)]:
        uvs = [s for s in lp.body if isinstance(s, ast.Assign) and isinstance(s.value, ast.Attribute) and s.value.attr == 'uv']
        sets = [s for s in lp.body if isinstance(s, ast.Assign) and isinstance(s.targets[0], ast.Attribute) and s.targets[0].attr == 'data']
        if uvs and sets:
            src, dst = uvs[0].value.value, sets[0].targets[0].value
            same = norm(src) == norm(dst)
            ev = isinstance(sets[0].value, ast.Call) and norm(sets[0].value.func) == 'self.evaluate_single' and norm(sets[0].value.args[0]) == norm(uvs[0].targets[0])
            rb = range_bounds(lp.iter)
            full = rb is not None and rb[0] == Poly.const(0) and repr(rb[1]).startswith('len(') and len(rb[1].t) == 1
            skips = [s for s in lp.body if isinstance(s, ast.If) and any(isinstance(x, ast.Continue) for x in s.body)]
            okskip = all('check_params' in norm(s.test) for s in skips)
            okr = same and ev and full and okskip
    run.ob('TV1.vertex-on-surface', fi.key, okr, 'every vertex k gets evaluate_single(vertex k .uv)' if okr else
           'vertex positions are not re-evaluated at their own stored parameters for every vertex', site(fi))
    # the mesh generators number the parametric rectangle as [0, 1] x [0, 1] (their steps are 1 / (size - 1)); a surface whose knot vectors are
    # not normalised has another domain, so the stored (u, v) must be mapped onto self.domain before evaluate_single - or the re-evaluation
    # must be restricted to normalised surfaces
    evs = [c for c in walk_no_nested(fi.node) if isinstance(c, ast.Call) and norm(c.func) == 'self.evaluate_single' and c.args]
    if evs:
        from ..cfg import CFG as _CFG
        cfg0 = _CFG(fi.node)
        arg = evs[0].args[0]
        defs_ = [a.value for a in walk_no_nested(fi.node) if isinstance(a, ast.Assign) and isinstance(a.targets[0], ast.Name) and isinstance(arg, ast.Name) and a.targets[0].id == arg.id]
        mapped = any(isinstance(x, ast.Attribute) and x.attr in ('domain', 'knotvector_u', 'knotvector_v', 'range') for d in defs_ + [arg] for x in ast.walk(d))
        only_norm = any(pol and norm(e) == 'self._kv_normalize' for e, pol in cfg0.facts_at(cfg0.node_of(evs[0])))
        okd = mapped or only_norm
        run.ob('TV2.vertex-parameters-in-the-domain', fi.key, okd, 'the stored (u, v) are mapped onto the domain (or only normalised surfaces are re-evaluated)' if okd else
               'vertices carry (u, v) in [0, 1] x [0, 1] but are re-evaluated with evaluate_single((u, v)) also when the knot vectors are not normalised: for a domain '
               'other than the unit square every vertex is evaluated at the wrong (possibly out-of-domain) parameters', site(fi, evs[0]))
    # ... on every path: once the component has tessellated, no normal exit is reached without passing the re-evaluation loop (the
    # vertices are created from the cached evaluated points, which need not cover the whole domain: evaluate(start=..., stop=...) )
    from ..cfg import CFG
    cfg = CFG(fi.node)
    loops = [lp for lp in walk_no_nested(fi.node) if isinstance(lp, ast.For) and any(isinstance(s_, ast.Assign) and isinstance(s_.targets[0], ast.Attribute)
                                                                                     and s_.targets[0].attr == 'data' for s_ in lp.body)]
    if calls and loops:
        cn, ln = cfg.node_of(calls[0]), cfg.of.get(loops[0])
        after = set()
        for sc_, lab in cn.succ:
            after |= cfg.reach_from(sc_, skip_nodes=[ln])
        skipped = cfg.exit in after
        run.ob('TV1.re-evaluation-on-every-path', fi.key, not skipped, 'the re-evaluation loop follows the tessellation on every path' if not skipped else
               'a path returns after the component has tessellated without re-evaluating the vertices: their positions are then the cached evaluated points, '
               'which belong to whatever sub-range was evaluated last, while their (u, v) span the full domain', site(fi, loops[0]))


def ag6(m, run):
    for name, one_based in (('export_obj_str', True), ('export_off_str', False)):
        fi = m.func('exchange.' + name)
        loops = [n for n in walk_no_nested(fi.node) if isinstance(n, ast.For) and isinstance(n.iter, ast.Name) and n.iter.id == params_of(fi.node)[0]]
        if len(loops) != 1:
            raise AnalysisError('%s: per-surface loop not found' % fi.key)
        lp = loops[0]
        # locals bound to the tessellator's vertices / faces
        vsrc = [n.targets[0].id for n in ast.walk(lp) if isinstance(n, ast.Assign) and isinstance(n.targets[0], ast.Name) and isinstance(n.value, ast.Attribute) and n.value.attr == 'vertices']
        fsrc = [n.targets[0].id for n in ast.walk(lp) if isinstance(n, ast.Assign) and isinstance(n.targets[0], ast.Name) and isinstance(n.value, ast.Attribute) and n.value.attr == 'faces']
        if not vsrc or not fsrc:
            raise AnalysisError('%s: tessellator vertices / faces not read' % fi.key)
        vloops = sorted([n for n in ast.walk(lp) if isinstance(n, ast.For) and isinstance(n.iter, ast.Name) and n.iter.id == vsrc[0]], key=lambda n: n.lineno)
        floops = [n for n in ast.walk(lp) if isinstance(n, ast.For) and isinstance(n.iter, ast.Name) and n.iter.id == fsrc[0]]
        if not vloops or len(floops) != 1:
            raise AnalysisError('%s: vertex / face record loops not found' % fi.key)

        def appended_list(loop):
            apps = [c for c in ast.walk(loop) if isinstance(c, ast.Call) and isinstance(c.func, ast.Attribute) and c.func.attr == 'append' and isinstance(c.func.value, ast.Name)]
            return apps[0].func.value.id if apps else None
        vlist, flist = appended_list(vloops[0]), appended_list(floops[0])
        # face record terms
        terms = []
        for n in sorted([x for x in ast.walk(floops[0]) if isinstance(x, ast.Call)], key=lambda x: (x.lineno, x.col_offset)):
            if norm(n.func) == 'str' and n.args and isinstance(n.args[0], ast.BinOp):
                try:
                    terms.append(to_poly(n.args[0]))
                except NotPoly:
                    pass
        # offset variable: the atom shared by the three index expressions that is not an element of the triangle's id list
        common = None
        if len(terms) >= 3:
            sets = [{a for a in t.atoms() if not a.endswith(']')} for t in terms[-3:]]
            common = set.intersection(*sets)
        offname = next(iter(common)) if common and len(common) == 1 else None
        tri_ids = None
        if len(terms) >= 3:
            idatoms = [[a for a in t.atoms() if a.endswith(']')] for t in terms[-3:]]
            if all(len(x) == 1 for x in idatoms):
                tri_ids = [x[0] for x in idatoms]
        okf = offname is not None and tri_ids is not None and len({a[:-3] for a in tri_ids}) == 1 and [a[-3:] for a in tri_ids] == ['[0]', '[1]', '[2]'] and \
            all(t == Poly.atom(a) + Poly.atom(offname) + (1 if one_based else 0) for t, a in zip(terms[-3:], tri_ids))
        # the id list is the triangle's own .data
        if okf:
            base = tri_ids[0][:-3]
            d = [n for n in ast.walk(floops[0]) if isinstance(n, ast.Assign) and norm(n.targets[0]) == base]
            okf = bool(d) and isinstance(d[0].value, ast.Attribute) and d[0].value.attr == 'data' and norm(d[0].value.value) == floops[0].target.id
        run.ob('AG6.face-record', fi.key, bool(okf), 'face = (t.data[0], t.data[1], t.data[2]) + offset%s' % (' + 1 (1-based)' if one_based else '') if okf else
               'face indices are %s; expected the three vertex ids of the triangle, each plus the vertex offset%s' % ([repr(t) for t in terms[-3:]], ' plus 1' if one_based else ''), site(fi, floops[0]))
        offs = [n for n in ast.walk(lp) if offname and ((isinstance(n, ast.Assign) and isinstance(n.targets[0], ast.Name) and n.targets[0].id == offname) or
                                                        (isinstance(n, ast.AugAssign) and isinstance(n.target, ast.Name) and n.target.id == offname))]
        ok, why = False, 'vertex offset update not found'
        if offs and vlist:
            o = offs[-1]
            if isinstance(o, ast.Assign):
                ok = norm(o.value) == 'len(%s)' % vlist
                why = 'offset = len(%s): vertices emitted so far for all surfaces' % vlist if ok else \
                    'offset is set to `%s`; it must be the number of vertices emitted for *all* previous surfaces (len(%s)), otherwise faces of the third and later surfaces point into an earlier surface' % (norm(o.value), vlist)
            else:
                ok = isinstance(o.op, ast.Add) and norm(o.value) == 'len(%s)' % vsrc[0]
                why = 'offset += len(%s)' % vsrc[0] if ok else 'offset is advanced by `%s`' % norm(o.value)
            if ok and not (floops[0].lineno < o.lineno):
                ok, why = False, 'the offset is advanced before the faces of the current surface are written'
        run.ob('AG6.face-index-offset', fi.key, ok, why, site(fi, offs[-1] if offs else lp))
        if not one_based:
            hdr = [n for n in walk_no_nested(fi.node) if isinstance(n, (ast.AugAssign, ast.Assign)) and norm(n.value).count('len(') == 2]
            okh = bool(hdr) and vlist and flist and 'len(%s)' % vlist in norm(hdr[0].value) and 'len(%s)' % flist in norm(hdr[0].value) and \
                norm(hdr[0].value).find('len(%s)' % vlist) < norm(hdr[0].value).find('len(%s)' % flist)
            run.ob('AG6.off-header', fi.key, bool(okh), 'header: vertex count, face count' if okh else 'OFF header is not `<#vertices> <#faces> 0` of the emitted lists', site(fi))


def st1(m, run):
    fi = m.func('exchange.export_stl_str')
    cnt = [c for c in walk_no_nested(fi.node) if isinstance(c, ast.Call) and norm(c.func) == 'struct.pack' and c.args and isinstance(c.args[0], ast.Constant) and c.args[0].value == '<i']
    loops = [n for n in walk_no_nested(fi.node) if isinstance(n, ast.For) and isinstance(n.iter, ast.Name) and isinstance(n.target, ast.Name) and
             any(isinstance(c, ast.Call) and norm(c.func).endswith('triangle_normal') for c in ast.walk(n))]
    if len(loops) != 2:
        raise AnalysisError('export_stl_str: binary and ASCII facet loops not found (%d)' % len(loops))
    okc = len(cnt) == 1 and norm(cnt[0].args[1]) == 'len(%s)' % loops[0].iter.id
    run.ob('ST1.stl-structure', fi.key + ' :: facet count', okc, 'binary header count = len(%s), the list iterated' % loops[0].iter.id if okc else 'binary facet count `%s` is not the length of the list of facets written' % (norm(cnt[0].args[1]) if cnt else '?'), site(fi))
    for lp, enc in zip(sorted(loops, key=lambda l: l.lineno), ('binary', 'ascii')):
        t = lp.target.id
        nrm = [c for c in ast.walk(lp) if isinstance(c, ast.Call) and norm(c.func).endswith('triangle_normal')]
        okn = len(nrm) == 1 and norm(nrm[0].args[0]) == t
        vl = [n for n in ast.walk(lp) if isinstance(n, ast.For) and n is not lp]
        okv = len(vl) == 1 and norm(vl[0].iter) == t + '.vertices'
        same_list = lp.iter.id == loops[0].iter.id
        run.ob('ST1.stl-structure', '%s :: %s facets' % (fi.key, enc), okn and okv and same_list,
               'per facet: triangle_normal(%s) and the vertices of %s' % (t, t) if okn and okv and same_list else 'facet record does not consist of triangle_normal(t) and t.vertices of the common triangle list', site(fi, lp))
    # the list is the concatenation of every surface's faces, in order
    acc = [n for n in walk_no_nested(fi.node) if isinstance(n, ast.AugAssign) and isinstance(n.target, ast.Name) and n.target.id == loops[0].iter.id]
    fsrc = [n.targets[0].id for n in walk_no_nested(fi.node) if isinstance(n, ast.Assign) and isinstance(n.targets[0], ast.Name) and isinstance(n.value, ast.Attribute) and n.value.attr == 'faces']
    run.ob('ST1.stl-structure', fi.key + ' :: all surfaces', len(acc) == 1 and bool(fsrc) and norm(acc[0].value) == fsrc[0], 'faces of every surface are appended', site(fi))


def wn1(m, run):
    fi = m.func('linalg.wn_poly')
    rets = [r for r in walk_no_nested(fi.node) if isinstance(r, ast.Return)]
    v = rets[-1].value if rets else None
    ok = v is not None and ((isinstance(v, ast.Call) and norm(v.func) == 'bool' and isinstance(v.args[0], ast.Name)) or
                            (isinstance(v, ast.Compare) and isinstance(v.ops[0], ast.NotEq) and norm(v.comparators[0]) == '0'))
    run.ob('WN1.nonzero-winding', fi.key, ok, 'inside iff winding number != 0 (either orientation of the polygon)' if ok else
           'point-in-polygon returns `%s`: a clockwise polygon has winding number -1, so the non-zero rule (wn != 0) is required' % norm(v), site(fi, rets[-1] if rets else None))
