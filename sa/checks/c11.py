"""C11 - fitted curves and surfaces (structural part)."""
import ast
from ..model import norm, AnalysisError, walk_no_nested, params_of
from ..poly import Poly, to_poly, NotPoly
from .. import rules_axis as ra
from .. import rules_layout as rl
from .. import layout
from .. import layout_drivers as ld
from ..layout import Interp, Sym, Lay, Obj, Fresh, UNK

DECIDES = ('surface fitting is direction-coherent and layout-correct in both passes: the data grid is read with stride size_v along u, the '
           'intermediate net of the first pass is laid out u-fastest and read back as such, the final net is canonical and has the declared '
           'sizes, and degree / knot vector / parameter list / size of each helper call belong to one direction (LY1-LY3 by abstract '
           'interpretation over symbolic sizes, AX1, AXK); in least-squares approximation the first and last control points (rows) are copies '
           'of the first and last data points (rows) and the interior solve loops never write them (END2); every flat work array is addressed as '
           'v-part + row length * u-part (LY1p); computed knot vectors are clamped by construction: degree + 1 leading zeros and trailing ones '
           'around exactly n - p - 1 interior knots (KV1; [SKEL, bounded] total length n + p + 1); the collocation matrix row i places the '
           'degree + 1 basis values at columns span - degree .. span (CM1); the single-function basis routine used by the least-squares fitters has half-open support and degree-zero indicator (HO2). a boolean option of a fitting function is forwarded to every call of the helper that receives it (OP1); the linear solver behind interpolation and approximation uses a row-permuted matrix only together with its permutation, applied as P to the right-hand side (PV2, PV3).')
NOT_DECIDED = ('the interpolation conditions C(u_k) = Q_k and the normal equations as numerical facts (their ingredients - parameters, knots, collocation spans, the linear solves on 3 x 3 symbolic systems, the two-pass structure - are decided, the basis values are C03); least-squares minimality; solvability of the linear systems.')
TECHNIQUE = 'abstract interpretation of list layouts over symbolic sizes, axis tags, interval reasoning on loop ranges'
DECIDES += (' [ABSTRACT INTERPRETATION, exact] FIT3: compute_knot_vector is Eq. 9.8, compute_knot_vector2 Eqs. 9.68 / 9.69, compute_params_curve Eqs. 9.5 / 9.6 on symbolic chord lengths, compute_params_surface the per-direction mean of the per-line parameters with the centripetal flag forwarded to every line; IS2: interpolate_surface solves one system per v over the data points (u, v), then one per u over the intermediate points, with the data of the right direction, and lays the result out at v + size_v * u; LA3: lu_solve / lu_factor return x with A x = b on symbolic 3 x 3 systems for every pivot permutation; CM2: collocation spans come from a search without tolerance tests; PU1: the solvers and fitters never write into their arguments.')
DECIDES += (' SC1: no pivot of the factorisation behind the fits is compared with an absolute threshold (also through a local).')
DECIDES += (' [ABSTRACT INTERPRETATION, exact in the data] AP3: approximate_curve / approximate_surface return the solution of Eqs. 9.63 - 9.67 as exact linear forms of symbolic data points (real linalg code interpreted; basis values two generic rational tables, i.e. a polynomial identity test in them), two passes, layout v + size_v u, direction data reach helpers and result together.')
DECIDES += (' IC2: interpolate_curve against recorders for 2 .. 6 points and every degree up to n - 1: requested degree, computed parameters / knots / matrix, data points as right-hand side; VN2: chord lengths are sqrt(v . v) for every v.')


def site(fi, node=None):
    return 'geomdl/%s.py:%s in %s' % (fi.mod, getattr(node or fi.node, 'lineno', '?'), fi.key)


def check(m, run):
    fns = [m.func('fitting.' + n) for n in ('interpolate_curve', 'interpolate_surface', 'approximate_curve', 'approximate_surface',
                                            'compute_params_surface', 'compute_knot_vector', 'compute_knot_vector2', '_build_coeff_matrix')]
    ra.HELPER_SCALARS.setdefault('compute_params_curve', [])
    # parameters, knots and the two-pass structure of surface interpolation are decided on symbolic / labelled data (FIT3, IS2), the linear
    # solves exactly on symbolic matrices (LA3); the rules that read the index spelling corroborate
    from .. import skel_drivers as _sd
    from ..model import AnalysisError as _AE
    n0 = len(run.obs)
    _sd.fit3(m, run)
    _sd.is2(m, run)
    _sd.ic2(m, run)
    _sd.bf3(m, run)        # the collocation matrices are filled with basis values: the Cox-de Boor polynomials on every span, however narrow (BF3, shared with C03)
    _sd.gd3(m, run)        # the fitted shape is defined through the public setters: each direction accepts the valid vector of its own degree and size (GD3, shared with C03)
    fit_ok = all(o.ok for o in run.obs[n0:])
    if fit_ok:
        # FIT3 has decided that compute_params_surface returns (parameters along u, parameters along v): the direction tags of its result
        # are entered as such instead of being inferred from the spelling of its body
        ra.DECLARED_RET['fitting.compute_params_surface'] = [{0}, {1}]
    ra.ax1_helper_calls(m, run, fns)
    ra.axk_keyword_suffix(m, run, [m.func('fitting.interpolate_surface'), m.func('fitting.approximate_surface')])
    run.floor('AX1.helper-call-one-axis', 8, 'knot vector / coefficient matrix / basis calls of the surface fitters')
    run.floor('AXK.keyword-axis', 12, 'surface attribute assignments')
    with run.corroborating(fit_ok, 'FIT3/IS2', rules=('LY1.index-matches-layout', 'AV1.average-over-other-direction', 'AX1.return-order', 'KV1.clamped-by-construction', 'KV1.interior-count', 'LY4.knot-vector-length', 'AX4.axis-map-single-valued', 'LY3.list-matches-declared-sizes')):
        interp_surface(m, run)
        params_surface(m, run)
        kv1(m, run)
    approx(m, run)
    cm1(m, run)
    options_forwarded(m, run)
    from . import c16
    n1 = len(run.obs)
    try:
        _sd.la3(m, run)
        la_ok = all(o.ok for o in run.obs[n1:])
    except _AE as ex:
        run.error(str(ex))
        la_ok = False
    c16.pv2(m, run)
    with run.corroborating(la_ok, 'LA3', rules=('PV3.rhs-permuted-like-the-matrix',)):
        c16.pv3(m, run, m.func('linalg.matrix_pivot'))
    # the solvers never write into the data they are given (a fit must leave its data points usable for the next fit)
    from ..pure import Purity
    P = Purity(m)
    for key in ('linalg.lu_solve', 'linalg.lu_factor', 'linalg.lu_decomposition', 'linalg.forward_substitution', 'linalg.backward_substitution', 'linalg.matrix_multiply',
                'linalg.matrix_transpose', 'linalg.matrix_pivot', 'fitting.interpolate_curve', 'fitting.interpolate_surface', 'fitting.approximate_curve', 'fitting.approximate_surface'):
        f_ = m.func(key)
        mp = [mu for mu in P.summary(f_).mutations if mu.root.startswith('param:') and mu.root[6:] not in ('kwargs',)]
        run.ob('PU1.no-param-mutation', key, not mp, '; '.join('%s mutated by %s at `%s`' % (mu.root, mu.how[:80], norm(mu.node)[:70]) for mu in mp[:2]) or 'no parameter is mutated',
               site(mp[0].func, mp[0].node) if mp else '')
    from . import c03
    c03.single_function_rules(m, run)     # least-squares fitting evaluates N_i(u_k) with the single-function routine: half-open spans
    try:
        from .. import skel_drivers
        skel_drivers.c11(m, run)
    except ImportError:
        run.note('LY4', 'fitting', 'SKEL drivers not available')
    c16.sc1(m, run)        # the factorisation behind the fits is scale-free: no pivot is compared with an absolute threshold


def options_forwarded(m, run):
    """OP1: a boolean option of a fitting function (parameter with a boolean default, or a local read from kwargs with a boolean default)
    that is forwarded to a package function in one call is forwarded in every call of that function: the two parametric directions of a
    surface fit are parametrised by the same method (chord length or centripetal)."""
    n = 0
    for fi in sorted(m.functions_in('fitting'), key=lambda f: f.key):
        a = fi.node.args
        ps = [x.arg for x in a.args]
        opts = {p for p, d in zip(ps[len(ps) - len(a.defaults):], a.defaults) if isinstance(d, ast.Constant) and isinstance(d.value, bool)}
        for st in walk_no_nested(fi.node):
            if isinstance(st, ast.Assign) and len(st.targets) == 1 and isinstance(st.targets[0], ast.Name) and isinstance(st.value, ast.Call) \
                    and isinstance(st.value.func, ast.Attribute) and st.value.func.attr in ('get', 'pop') and len(st.value.args) == 2 \
                    and isinstance(st.value.args[1], ast.Constant) and isinstance(st.value.args[1].value, bool):
                opts.add(st.targets[0].id)
        if not opts:
            continue
        calls = {}
        for c in walk_no_nested(fi.node):
            if isinstance(c, ast.Call):
                tgt = m.resolve_callable(fi.mod, c.func)
                if tgt is not None:
                    calls.setdefault(tgt.key, []).append(c)
        for g, cs in sorted(calls.items()):
            for o in sorted(opts):
                def passes(c):
                    return any(isinstance(x, ast.Name) and x.id == o for x in list(c.args) + [k.value for k in c.keywords])
                w = [passes(c) for c in cs]
                if not any(w):
                    continue
                n += 1
                miss = [c for c, x in zip(cs, w) if not x]
                run.ob('OP1.option-forwarded-to-every-call', '%s :: %s -> %s' % (fi.key, o, g), not miss,
                       'forwarded in all %d calls' % len(cs) if not miss else
                       'option `%s` is passed to %s in %d of %d calls; the call at line %d falls back to the default, so the directions are parametrised by different methods'
                       % (o, g, sum(w), len(cs), miss[0].lineno), site(fi, miss[0] if miss else cs[0]))
    if n < 3:
        raise AnalysisError('OP1: only %d forwarded options found in fitting' % n)


class FInterp(Interp):
    """fitting: lu_solve / compute_params_curve return one item per input row (layout of their point argument);
    BSpline.Surface() builds a new object"""

    def __init__(self, key, env, summ):
        Interp.__init__(self, key, env, summ, lambda t: None)
        self.built = []

    def ev(self, e):
        if isinstance(e, ast.Call):
            fn = norm(e.func)
            if fn.endswith('lu_solve') and len(e.args) == 2:
                return self.ev(e.args[1])
            if fn.endswith('compute_params_curve') and e.args:
                return self.ev(e.args[0])
            if fn in ('BSpline.Surface', 'BSpline.Curve'):
                o = Obj('new', 2 if fn.endswith('Surface') else 1, labels=[None, None][:2 if fn.endswith('Surface') else 1])
                self.built.append(o)
                return o
            if fn.endswith(('compute_knot_vector', 'compute_knot_vector2')) and e.args:
                d = self.ev(e.args[0])
                return Sym(Poly.atom('kv(%s)' % norm(e.args[0])), d.label if isinstance(d, Sym) else None)
        return Interp.ev(self, e)


def data_env(fi):
    ps = params_of(fi.node)
    su, sv = Sym(Poly.atom('D.Su'), 'D.u'), Sym(Poly.atom('D.Sv'), 'D.v')
    env = {'points': Lay([[('D.v', sv.p), ('D.u', su.p)]]), 'size_u': su, 'size_v': sv}
    if 'degree_u' in ps:
        env['degree_u'] = Sym(Poly.atom('degree_u'), 'D.u')
        env['degree_v'] = Sym(Poly.atom('degree_v'), 'D.v')
    return env


def interp_surface(m, run):
    fi = m.func('fitting.interpolate_surface')
    summ, _ = layout.flip_summaries(m)
    it = FInterp(fi.key, data_env(fi), summ)
    it.run(fi.node.body)
    n = ld.emit(run, fi, it, '')
    if n < 2:
        raise AnalysisError('interpolate_surface: only %d index reads resolved' % n)
    if len(it.built) != 1:
        raise AnalysisError('interpolate_surface: constructed surface not found')
    ld.final_object(run, fi, it, it.built[0], 'fit', None)


def params_surface(m, run):
    fi = m.func('fitting.compute_params_surface')
    summ, _ = layout.flip_summaries(m)
    it = FInterp(fi.key, data_env(fi), summ)
    it.run(fi.node.body)
    n = ld.emit(run, fi, it, '')
    if n < 4:
        raise AnalysisError('compute_params_surface: only %d index reads resolved' % n)
    # returned pair is (u parameters, v parameters): uk has size_u entries, vl size_v
    rets = [r for r in walk_no_nested(fi.node) if isinstance(r, ast.Return) and isinstance(r.value, ast.Tuple) and len(r.value.elts) == 2]
    sc = ra.scope_of(fi)
    if rets:
        t0, t1 = sc.int_tags(rets[0].value.elts[0], rets[0]), sc.int_tags(rets[0].value.elts[1], rets[0])
        run.ob('AX1.return-order', fi.key, t0 == {0} and t1 == {1}, 'returns (u parameters, v parameters)' if t0 == {0} and t1 == {1} else
               'returned pair carries directions %s, %s; callers unpack it as (uk, vl)' % (ra.fmt(t0), ra.fmt(t1)), site(fi, rets[0]))
    # averaging divides by the count of the *other* direction
    for n_ in walk_no_nested(fi.node):
        if isinstance(n_, ast.Assign) and isinstance(n_.targets[0], ast.Subscript) and isinstance(n_.value, ast.BinOp) and isinstance(n_.value.op, ast.Div) \
                and isinstance(n_.value.left, ast.Call) and norm(n_.value.left.func) == 'sum':
            tt = sc.int_tags(n_.targets[0].slice, n_)
            td = sc.int_tags(n_.value.right, n_)
            ok = len(tt) == 1 and len(td) == 1 and tt != td
            run.ob('AV1.average-over-other-direction', '%s :: %s' % (fi.key, norm(n_)[:60]), ok,
                   'parameter %s of direction %s is the mean over the %s curves' % (norm(n_.targets[0]), ra.fmt(tt), ra.fmt(td)) if ok else
                   'the mean for direction %s divides by a count of direction %s' % (ra.fmt(tt), ra.fmt(td)), site(fi, n_))


def approx(m, run):
    # the least-squares fits are decided as linear maps of symbolic data points, the real linalg code interpreted exactly (AP3); the rules
    # that read the index spelling of the end rows, of the interior fill loops and of the flat arrays corroborate
    from .. import skel_drivers as _sd
    n0 = len(run.obs)
    try:
        _sd.ap3(m, run)
        _sd.vn2(m, run)        # chord lengths are the real lengths of the chords (vector_magnitude is sqrt(v . v) for every v)
    except AnalysisError as ex:
        run.error(str(ex))
    ok = len(run.obs) > n0 and all(o.ok for o in run.obs[n0:])
    with run.corroborating(ok, 'AP3', rules=('LY1.prealloc-stride', 'END2.end-rows-copied', 'END2.interior-only')):
        _approx_syntactic(m, run)


def _approx_syntactic(m, run):
    fs = m.func('fitting.approximate_surface')
    pts = params_of(fs.node)[0]
    sv = to_poly(ast.parse('size_v', mode='eval').body)
    rl.ly1_prealloc(m, run, fs, arrays={pts: sv})
    run.floor('LY1.prealloc-stride', 12, 'subscripts of points / ctrlpts_tmp / ctrlpts in approximate_surface')
    # ---- END2 (surface): rows 0 and last of both passes
    sc = ra.scope_of(fs)
    ends = 0
    for n in walk_no_nested(fs.node):
        if isinstance(n, ast.Assign) and isinstance(n.targets[0], ast.Subscript) and isinstance(n.value, ast.Call) and norm(n.value.func) == 'list' \
                and isinstance(n.value.args[0], ast.Subscript):
            t, s = n.targets[0], n.value.args[0]
            try:
                pt, ps_ = to_poly(t.slice), to_poly(s.slice)
            except NotPoly:
                continue
            ends += 1
            # same fast part; slow part: 0 <-> 0 or (target count - 1) <-> (source count - 1)
            key = '%s :: %s = %s' % (fs.key, norm(t)[:45], norm(n.value)[:45])
            tsizes = [a for a in pt.atoms() if 'size' in a or 'num_cpts' in a]
            # both are  a + R*b  forms: compare by evaluating at the two "end" patterns
            rowlen = set()
            for arr in (t.value, s.value):
                if isinstance(arr, ast.Name):
                    if arr.id == pts:
                        rowlen.add('size_v')
                    for a_ in walk_no_nested(fs.node):
                        if isinstance(a_, ast.Assign) and isinstance(a_.targets[0], ast.Name) and a_.targets[0].id == arr.id and isinstance(a_.value, ast.ListComp):
                            ext = a_.value.generators[0].iter.args[-1]
                            if isinstance(ext, ast.BinOp) and isinstance(ext.op, ast.Mult):
                                for side in (ext.left, ext.right):
                                    if sc.int_tags(side, a_) == {1}:
                                        rowlen.add(norm(side))
            ok = end_pair(pt, ps_, rowlen)
            run.ob('END2.end-rows-copied', key, ok, 'end row/column of the control net is a copy of the corresponding end row/column of the data' if ok else
                   'target cell %s is filled from source cell %s: the first (last) control row must be the first (last) data row' % (pt, ps_), site(fs, n))
    if ends < 4:
        raise AnalysisError('approximate_surface: only %d end-row copies found (expected 4)' % ends)
    # interior loops never write row 0 / last:  writes  A[fast + R*i][d] = x[i - 1]  only for i in range(1, n - 1)
    for n in walk_no_nested(fs.node):
        if isinstance(n, ast.Assign) and isinstance(n.targets[0], ast.Subscript) and isinstance(n.targets[0].value, ast.Subscript) \
                and isinstance(n.value, ast.Subscript) and isinstance(n.value.value, ast.Name):
            loop = n
            while loop is not None and not isinstance(loop, ast.For):
                loop = getattr(loop, '_sa_parent', None)
            if loop is None or not (isinstance(loop.iter, ast.Call) and norm(loop.iter.func) == 'range' and len(loop.iter.args) == 2):
                continue
            lo, hi = loop.iter.args
            var = loop.target.id
            cnt = [a for a in (to_poly(hi) + 1).atoms()]
            ok = norm(lo) == '1' and len(cnt) == 1 and to_poly(hi) == Poly.atom(cnt[0]) - 1 and norm(n.value.slice) == '%s - 1' % var
            run.ob('END2.interior-only', '%s :: %s' % (fs.key, norm(n)[:70]), ok,
                   'solved values x[%s - 1] go to positions 1 .. count-2 only' % var if ok else
                   'the loop `%s` writing solved values may overwrite an end row, or pairs x[%s] with the wrong position' % (norm(loop.iter), norm(n.value.slice)), site(fs, n))
    # ---- curve
    fc = m.func('fitting.approximate_curve')
    pts = params_of(fc.node)[0]
    first = [n for n in fc.node.body if isinstance(n, ast.Assign) and norm(n.targets[0]).endswith('[0]') and norm(n.value) in ('list(%s[0])' % pts, 'deepcopy(%s[0])' % pts)]
    last = [n for n in fc.node.body if isinstance(n, ast.Assign) and norm(n.targets[0]).endswith('[-1]') and norm(n.value) in ('list(%s[-1])' % pts, 'deepcopy(%s[-1])' % pts)]
    run.ob('END2.end-rows-copied', fc.key, bool(first) and bool(last), 'first/last control point are copies of the first/last data point' if first and last else
           'end control points are not copies of the end data points', site(fc))
    for n in walk_no_nested(fc.node):
        if isinstance(n, ast.Assign) and isinstance(n.targets[0], ast.Subscript) and isinstance(n.targets[0].value, ast.Subscript) and isinstance(n.value, ast.Subscript) \
                and norm(n.value.value) == 'x':
            loop = n
            while loop is not None and not isinstance(loop, ast.For):
                loop = getattr(loop, '_sa_parent', None)
            lo, hi = loop.iter.args
            var = loop.target.id
            ok = norm(lo) == '1' and norm(hi).endswith('- 1') and norm(n.value.slice) == '%s - 1' % var and norm(n.targets[0].value.slice) == var
            run.ob('END2.interior-only', '%s :: %s' % (fc.key, norm(n)[:60]), ok, 'interior control points 1 .. n-2 receive x[j - 1]' if ok else 'interior fill loop may overwrite an end point', site(fc, n))
    run.floor('END2.end-rows-copied', 5, 'four surface end rows + curve')
    run.floor('END2.interior-only', 3, 'two surface passes + curve')


def end_pair(pt, ps, ROWLEN=('size_v', 'num_cpts_v')):
    """target index ft + Rt*st and source index fs + Rs*ss (R = row length of the array): the fast parts are the same column
    (same variable, both 0, or both `row length - 1`) and the slow parts the same row (same variable, both 0, or both `count - 1`)"""
    def split(p):
        R = [a for a in p.atoms() if a in ROWLEN]
        if not R:
            return p, Poly(), None
        R = R[0]
        c = p.coeff_of(R)
        if c is None:
            return None
        fast = p.without(R)
        if fast == Poly.const(-1):        # (R - 1) + R*slow  is normalised to coefficient slow + 1, rest -1
            return 'LASTCOL', c - 1, R
        return fast, c, R

    def kind(x):
        if isinstance(x, str):
            return 'last'
        if isinstance(x, Poly):
            if x == Poly():
                return 'first'
            at = list(x.atoms())
            if len(at) == 1 and x == Poly.atom(at[0]) - 1:
                return 'last'
        return repr(x)
    a, b = split(pt), split(ps)
    if a is None or b is None:
        return False
    return kind(a[0]) == kind(b[0]) and kind(a[1]) == kind(b[1])


def kv1(m, run):
    for name, interior in (('compute_knot_vector', 'num_points - degree - 1'), ('compute_knot_vector2', None)):
        fi = m.func('fitting.' + name)
        ps = params_of(fi.node)
        deg = ps[0]
        lead = [n for n in fi.node.body if isinstance(n, ast.Assign) and isinstance(n.value, ast.ListComp) and isinstance(n.value.elt, ast.Constant) and n.value.elt.value == 0.0]
        trail = [n for n in fi.node.body if isinstance(n, ast.AugAssign) and isinstance(n.value, ast.ListComp) and isinstance(n.value.elt, ast.Constant) and n.value.elt.value == 1.0]
        ok = False
        if lead and trail:
            try:
                a = to_poly(lead[0].value.generators[0].iter.args[-1])
                b = to_poly(trail[0].value.generators[0].iter.args[-1])
                ok = a == Poly.atom(deg) + 1 and b == Poly.atom(deg) + 1
            except NotPoly:
                pass
        run.ob('KV1.clamped-by-construction', fi.key, ok, 'degree + 1 zeros, interior knots, degree + 1 ones' if ok else 'knot vector does not start/end with degree + 1 repeated end knots', site(fi))
        loops = [n for n in fi.node.body if isinstance(n, ast.For)]
        if loops:
            a = loops[0].iter.args
            try:
                cnt = to_poly(a[-1]) - (to_poly(a[0]) if len(a) == 2 else Poly())
            except NotPoly:
                cnt = None
            n_ = ps[1] if name == 'compute_knot_vector' else ps[2]
            want = Poly.atom(n_) - Poly.atom(deg) - 1
            appends = [c for c in ast.walk(loops[0]) if isinstance(c, ast.Call) and isinstance(c.func, ast.Attribute) and c.func.attr == 'append']
            okc = cnt == want and len(appends) == 1
            run.ob('KV1.interior-count', fi.key, okc, 'n - p - 1 interior knots, so m = n + p + 1' if okc else 'interior loop appends %s knots, expected %s' % (cnt, want), site(fi, loops[0]))


def cm1(m, run):
    fi = m.func('fitting._build_coeff_matrix')
    ok = False
    for n in walk_no_nested(fi.node):
        if isinstance(n, ast.Assign) and isinstance(n.targets[0], ast.Subscript) and isinstance(n.targets[0].slice, ast.Slice):
            sl = n.targets[0].slice
            try:
                lo, hi = to_poly(sl.lower), to_poly(sl.upper)
            except (NotPoly, TypeError):
                continue
            ok = (hi - lo) == Poly.atom(params_of(fi.node)[0]) + 1 and 'span' in repr(hi) and isinstance(n.value, ast.Call) and norm(n.value.func).endswith('basis_function')
            row = norm(n.targets[0].value.slice)
            par = [a for a in n.value.args if isinstance(a, ast.Subscript)]
            okrow = bool(par) and norm(par[-1].slice) == row
            run.ob('CM1.collocation-row', fi.key, ok and okrow, 'row i holds N_{span-p..span}(params[i])' if ok and okrow else 'collocation row is not filled with the degree + 1 basis values at columns span-degree..span of the same parameter', site(fi, n))
    if not ok and not any(o.rule == 'CM1.collocation-row' for o in run.obs):
        raise AnalysisError('_build_coeff_matrix: row assignment not found')
    # CM2: every data parameter is located exactly: the span function used for the collocation rows has no tolerance test (a search that
    # snaps parameters within a tolerance of the last knot to the last span puts more than degree + 1 rows on the last columns when the
    # data is densely sampled near the end, and the matrix becomes singular)
    n_ = 0
    for c in walk_no_nested(fi.node):
        if isinstance(c, ast.Call) and 'find_span' in norm(c.func):
            callee = m.resolve_callable(fi.mod, c.func)
            if callee is None:
                raise AnalysisError('_build_coeff_matrix: span search `%s` not resolved' % norm(c.func))
            n_ += 1
            tolt = [x for x in walk_no_nested(callee.node) if isinstance(x, ast.Compare) and any(isinstance(y, ast.Call) and norm(y.func) == 'abs' for y in ast.walk(x))]
            run.ob('CM2.exact-span-for-collocation', '%s -> %s' % (fi.key, callee.key), not tolt,
                   'the span search compares the parameter with the knots exactly' if not tolt else
                   '%s decides `%s` with a tolerance: parameters within the tolerance of the last knot all land in the last span, so a data set sampled densely near its end '
                   'yields a structurally singular collocation matrix' % (callee.key, norm(tolt[0])[:60]), site(fi, c))
    if n_ == 0:
        raise AnalysisError('_build_coeff_matrix: span search call not found')
