"""C17 - results do not depend on configuration choices (structural part)."""
import ast
from ..model import norm, AnalysisError, walk_no_nested, params_of
from .. import rules_agree as ag
from .. import rules_axis as ra
from ..pure import Purity, is_memoised

DECIDES = ('the value reaching lru_cache(maxsize=...) is an int for every value of GEOMDL_CACHE_SIZE (KD1: import cannot fail) and memoised '
           'bodies are pure functions of their arguments (PU4: cache size cannot change a result) and no caller in the package mutates or stores a memoised result (PU4.memo-result-immutable); both surface derivative evaluators write the derivative table at [u-order][v-order] with direction-coherent bounds (AX6); the two span-search functions are '
           'interface-compatible and every call through the pluggable slot passes exactly (degree, knot_vector, num_ctrlpts, knot) of one '
           'direction (AG4, AX1); every geometry constructor and the evaluator setter hand the object\'s span function to the evaluator (SP1); '
           'all 8 evaluator classes implement evaluate/derivatives with the common signature and read only keys the matching data '
           'property produces (EV1, AG3); every rational evaluator forwards all of its arguments, **kwargs included, to the same method of its parent (EV2); every `_kv_normalize` guard only adds a [0,1] range check or applies knotvector.normalize to the '
           'stored value (NK1); evaluation start/stop defaults are the domain ends of the same direction (DOM1 where spelled as keyword defaults; DOM2: the evaluator receives knot[degree] / knot[-(degree+1)] of every direction, decided by interpreting evaluate() on an abstract object with labelled knots); serial and parallel branches '
           'apply the same worker to the same arguments through the order-preserving Pool.map, results consumed in order (AG5); a '
           'sample-size setter/getter pair depends on the same state (UD1). the delta a container derives from a requested sample size is read back as that sample size by its elements (UD2, composition of the two formulas in rational normal form). [SKEL, abstract object] interpreted on an object created with normalize_kv=False, the named methods never reach utilities.check_params and hand the request on to the evaluator / operation (RG2: spelling-independent form of RG1).')
NOT_DECIDED = 'numerical equality of results across configurations (span functions, evaluator variants, normalised vs raw knot ranges); pickling of workers; process scheduling.'
TECHNIQUE = 'static kind analysis, signature/key-set agreement, branch equivalence, axis tags'
DECIDES += (' [ABSTRACT INTERPRETATION] EV3: default and alternative evaluators compute every derivative cell from the same control points; AG52: serial and parallel voxel fill return one flag per voxel in voxel order with the same predicate arguments, for grid sizes not divisible by the process count and for both option spellings; VX3: voxelize hands every element its own grid and points; KS2: every knot-vector setter stores the given knots when normalize_kv is False and normalize(given) otherwise; FD2: no sample-size getter truncates.')
DECIDES += (' DG2: the domain getter.')

SPAN_FUNCS = ('helpers.find_span_linear', 'helpers.find_span_binsearch')
EVALUATORS = {'CurveEvaluator': 1, 'CurveEvaluatorRational': 1, 'CurveEvaluator2': 1, 'SurfaceEvaluator': 2, 'SurfaceEvaluatorRational': 2,
              'SurfaceEvaluator2': 2, 'VolumeEvaluator': 3, 'VolumeEvaluatorRational': 3}
DATA_OWNER = {1: ('abstract', 'Curve'), 2: ('abstract', 'Surface'), 3: ('abstract', 'Volume')}


def site(fi, node=None):
    return 'geomdl/%s.py:%s in %s' % (fi.mod, getattr(node or fi.node, 'lineno', '?'), fi.key)


def check(m, run):
    from .. import skel_drivers as _sdn
    _sdn.nm2(m, run)      # a normalising shape and its un-normalised twin describe the same geometry only if normalisation is the affine map onto [0, 1] (shared with C03)
    _sdn.cp2(m, run)      # parameters are accepted exactly when they lie in the (normalised) domain: no tolerance lets an evaluation out of it
    kd1(m, run)
    pu4(m, run)
    from .. import rules_state as _rs17
    _rs17.iv3_cache_keys(m, run, _rs17.CONCRETE)      # elements handed to worker processes and back (a pickle round trip) keep their cache entries (CK3)
    from . import c16, c02
    c16.pu4(m, run)        # ... and no caller mutates a memoised result: otherwise results depend on what is still cached (cache size, call history)
    ev_ = lambda c: m.cls('evaluators', c).methods['derivatives']
    # the two evaluator families are compared cell by cell on labelled nets (EV3) and each is an exact identity on symbolic tables (A36S, A34S);
    # the rule that reads where the table is written corroborates
    from .. import skel_drivers as _sd
    n0 = len(run.obs)
    _sd.ev3(m, run)
    _sd.a36s(m, run)
    _sd.a34s(m, run)
    ev_ok = all(o.ok for o in run.obs[n0:])
    with run.corroborating(ev_ok, 'EV3/A36S/A34S', rules=('AX6.table-order',)):
        c02.ax6(m, run, [ev_('SurfaceEvaluator'), ev_('SurfaceEvaluator2')])   # both evaluator families fill the derivative table in the same [u-order][v-order] positions
    ag4(m, run)
    sp1(m, run)
    ev1_ag3(m, run)
    ev2(m, run)
    n_k = len(run.obs)
    _sd.ks2(m, run)
    from .. import ops_common as _oc
    _oc.unit_range_rule(m, run, ('evaluate', 'evaluate_single', 'evaluate_list', 'derivatives', 'insert_knot', 'remove_knot'))
    sel_ = [o for o in run.obs[n_k:] if o.rule.startswith(('KS2', 'RG2'))]
    ks_ok = bool(sel_) and all(o.ok for o in sel_)
    # every use of the normalisation flag is either a knot vector setter (KS2) or a [0, 1] range test (RG2, both halves): NK1 reads their spelling
    with run.corroborating(ks_ok, 'KS2/RG2', rules=('NK1.normalize-guard',)):
        nk1(m, run)
    run.floor('RG2.no-unit-range-test-for-un-normalised-shapes', 15, 'six methods x three shape classes')
    dom1(m, run)
    domain_getter(m, run)
    ag5(m, run)
    ud1(m, run)
    ud2(m, run)
    c16.sample_count_getters(m, run)
    n = ra.ax1_helper_calls(m, run, [fi for fi in m.funcs.values() if fi.mod in ('evaluators', 'helpers', '_operations')])
    run.floor('AX1.helper-call-one-axis', 19, 'per-direction helper calls in evaluators/helpers/_operations')
    from .. import skel_drivers
    skel_drivers.c03_order(m, run)      # linear and binary span search return the same (the defining) span for every knot order type of the box
    run.floor('KD1.cache-size-is-int', 5, 'five lru_cache sites')
    run.floor('AG4.span-call-shape', 10, 'slot call sites in evaluators/_operations/helpers')
    run.floor('EV1.evaluator-interface', 16, '8 classes x 2 methods')
    run.floor('AG3.data-keys', 40, 'keys read by evaluator methods')
    run.floor('NK1.normalize-guard', 20, '_kv_normalize sites')
    run.floor('AG5.serial-parallel', 4, 'voxelize and container tessellate')


# ---------------------------------------------------------------------------------------------- KD1
def kd1(m, run):
    for fi, deco, ms in ag.memo_sites(m):
        key = '%s :: lru_cache(maxsize=%s)' % (fi.key, norm(ms)[:80] if ms is not None else 'default')
        if ms is None:
            run.ob('KD1.cache-size-is-int', key, True, 'default maxsize')
            continue
        kind = ag.env_kind(ms)
        run.ob('KD1.cache-size-is-int', key, kind != 'str',
               'maxsize is %s' % (kind or 'not an environment string') if kind != 'str' else
               'when the environment variable is set its *string* value reaches lru_cache(maxsize=...): functools compares maxsize with ints and '
               'raises TypeError at import time, so setting GEOMDL_CACHE_SIZE makes `import geomdl` fail; wrap the lookup in int(...)',
               site(fi, deco))


def pu4(m, run):
    P = Purity(m)
    for fi, deco, ms in ag.memo_sites(m):
        s = P.summary(fi)
        reads_global = [n.id for n in walk_no_nested(fi.node) if isinstance(n, ast.Name) and isinstance(n.ctx, ast.Load)
                        and (fi.mod, n.id) in m.modassign and isinstance(m.modassign[(fi.mod, n.id)], (ast.List, ast.Dict, ast.Set))]
        ok = not s.mutations and not reads_global and not any(isinstance(n, (ast.Global, ast.Nonlocal)) for n in ast.walk(fi.node))
        run.ob('PU4.memo-body-pure', fi.key, ok, 'memoised body reads only its arguments and mutates nothing' if ok else
               'memoised body mutates %s / reads module state %s: results depend on cache hits' % (sorted(s.mutated_roots()), reads_global), site(fi))
        # hashable, value-like parameters only (a list argument would raise; a mutable default would alias)
        bad = [a.arg for a, d in zip(reversed(fi.node.args.args), reversed(fi.node.args.defaults)) if isinstance(d, (ast.List, ast.Dict, ast.Set))]
        run.ob('PU4.memo-body-pure', fi.key + ' :: defaults', not bad, 'no mutable default' if not bad else 'mutable defaults %s' % bad, site(fi))


# ---------------------------------------------------------------------------------------------- AG4
def ag4(m, run):
    a, b = (m.func(k) for k in SPAN_FUNCS)
    sa, sb = ag.signature(a.node), ag.signature(b.node)
    run.ob('AG4.span-signature', ' / '.join(SPAN_FUNCS), sa[0] == sb[0] and sa[2:4] == sb[2:4],
           'both take %s' % (sa[0],) if sa[0] == sb[0] else 'signatures differ: %s vs %s' % (sa, sb), site(b))
    n4 = len(sa[0])
    # call sites through a slot: self._span_func(...), span_func(...), func(...) in find_spans
    slot_names = {'_span_func', 'span_func'}
    for fi in m.funcs.values():
        if fi.mod in ('vis', 'exchange_vtk'):
            continue
        local_slots = set()
        for n in walk_no_nested(fi.node):
            if isinstance(n, ast.Assign) and len(n.targets) == 1 and isinstance(n.targets[0], ast.Name) and isinstance(n.value, ast.Call) \
                    and isinstance(n.value.func, ast.Attribute) and n.value.func.attr == 'get' and n.value.args \
                    and isinstance(n.value.args[0], ast.Constant) and n.value.args[0].value == 'find_span_func':
                local_slots.add(n.targets[0].id)
        # parameter whose default is a span function
        a_ = fi.node.args
        for p, d in zip(reversed(a_.args), reversed(a_.defaults)):
            t = m.resolve_callable(fi.mod, d) if isinstance(d, (ast.Name, ast.Attribute)) else None
            if t is not None and t.key in SPAN_FUNCS:
                local_slots.add(p.arg)
        sc = ra.scope_of(fi)
        for c in [x for x in walk_no_nested(fi.node) if isinstance(x, ast.Call)]:
            f = c.func
            is_slot = (isinstance(f, ast.Attribute) and f.attr in slot_names) or (isinstance(f, ast.Name) and f.id in (local_slots | slot_names))
            if not is_slot:
                continue
            ok = len(c.args) == n4 and not c.keywords and not any(isinstance(x, ast.Starred) for x in c.args)
            tags = set()
            for x in c.args[:3]:
                tags |= sc.tag(x, c)
            conc = {t for t in tags if isinstance(t, int)}
            ok_axis = len(conc) <= 1 and not (conc and len(tags) > len(conc))
            run.ob('AG4.span-call-shape', '%s :: %s' % (fi.key, norm(c)[:100]), ok and ok_axis,
                   'four positional arguments of one direction' if ok and ok_axis else
                   ('call through the span-function slot passes %d positional / %d keyword arguments, the interface is (degree, knot_vector, num_ctrlpts, knot)'
                    % (len(c.args), len(c.keywords)) if not ok else 'arguments mix directions %s' % ra.fmt(tags)), site(fi, c))


def sp1(m, run):
    """constructors and the evaluator setter pass the object's own span function on"""
    for mod in ('BSpline', 'NURBS'):
        for cname in ('Curve', 'Surface', 'Volume'):
            ci = m.cls(mod, cname)
            init = ci.methods.get('__init__')
            if init is None:
                continue
            for n in walk_no_nested(init.node):
                if isinstance(n, ast.Assign) and isinstance(n.targets[0], ast.Attribute) and n.targets[0].attr == '_evaluator' and isinstance(n.value, ast.Call):
                    kw = next((k.value for k in n.value.keywords if k.arg == 'find_span_func'), None)
                    ok = kw is not None and norm(kw) == 'self._span_func'
                    run.ob('SP1.span-func-forwarded', '%s :: %s' % (init.key, norm(n.value)[:80]), ok,
                           'evaluator constructed with the object\'s span function' if ok else
                           'evaluator constructed without find_span_func=self._span_func: the find_span_func option is silently ignored', site(init, n))
                    # evaluator family matches class family
                    want = ('Curve', 'Surface', 'Volume').index(cname) + 1
                    ename = norm(n.value.func).split('.')[-1]
                    okf = EVALUATORS.get(ename) == want and (('Rational' in ename) == (mod == 'NURBS'))
                    run.ob('SP1.evaluator-family', '%s :: %s' % (init.key, ename), okf,
                           '%s evaluator for %s.%s' % (ename, mod, cname) if okf else 'evaluator %s does not match %s.%s' % (ename, mod, cname), site(init, n))
    st = m.cls('abstract', 'SplineGeometry').setters.get('evaluator')
    if st is None:
        raise AnalysisError('SplineGeometry.evaluator setter not found')
    vp = params_of(st.node)[1]
    hands = [n for n in walk_no_nested(st.node) if isinstance(n, ast.Assign) and isinstance(n.targets[0], ast.Attribute)
             and n.targets[0].attr == '_span_func' and isinstance(n.targets[0].value, ast.Name) and n.targets[0].value.id == vp
             and norm(n.value) == 'self._span_func']
    run.ob('SP1.span-func-forwarded', st.key, bool(hands), 'new evaluator receives self._span_func' if hands else
           'evaluator setter does not hand the span function to the new evaluator', site(st))
    run.floor('SP1.span-func-forwarded', 7, '6 constructors + setter')


# ---------------------------------------------------------------------------------------------- EV1 / AG3
def ev1_ag3(m, run):
    want_eval = ('self', 'datadict')
    want_der = ('self', 'datadict', 'parpos', 'deriv_order')
    for cname, pdim in EVALUATORS.items():
        ck = ('evaluators', cname)
        m.cls(*ck)
        owner = m.cls(*DATA_OWNER[pdim])
        data = owner.getters.get('data')
        if data is None:
            raise AnalysisError('%s.data property not found' % (owner.name,))
        produced = ag.dict_keys_built(data.node)
        # ... and as the getter actually produces them, interpreted on an object of the concrete class (whatever helper assembles the dictionary)
        from .. import skel_drivers as _sdd
        real = _sdd.data_dictionary(m, pdim)
        for meth, want in (('evaluate', want_eval), ('derivatives', want_der)):
            fi = m.lookup(ck, meth, 'methods')
            if fi is None or fi.cls == 'AbstractEvaluator':
                run.ob('EV1.evaluator-interface', 'evaluators.%s.%s' % (cname, meth), False, 'method not implemented')
                continue
            sig = ag.signature(fi.node)
            ok = sig[0] == want and sig[3] and (meth == 'evaluate' or sig[1] == 1)
            run.ob('EV1.evaluator-interface', 'evaluators.%s.%s' % (cname, meth), ok,
                   'signature %s' % (sig[0],) if ok else 'signature %s defaults=%d **kwargs=%s, expected %s + **kwargs' % (sig[0], sig[1], sig[3], want), site(fi))
            if fi.cls != cname:
                continue
            must, opt = ag.dict_keys_read(fi.node, params_of(fi.node)[1])
            for k, node in sorted(must.items()):
                okk = (k in real) if real is not None else (k in produced)
                run.ob('AG3.data-keys', 'evaluators.%s.%s :: datadict[%r]' % (cname, meth, k), okk,
                       'produced by %s' % data.key if okk else 'key %r is read but %s produces only %s' % (k, data.key, sorted(produced)), site(fi, node))
                # arity per axis: a key indexed [0] in a curve evaluator must be a tuple in the curve's data
                par = getattr(node, '_sa_parent', None)
                if okk and real is not None and isinstance(par, ast.Subscript) and par.value is node and isinstance(par.slice, ast.Constant) and isinstance(par.slice.value, int):
                    seq = isinstance(real[k], (list, tuple))
                    run.ob('AG3.data-keys', 'evaluators.%s.%s :: datadict[%r][%d] is per-direction' % (cname, meth, k, par.slice.value), seq,
                           'the value is a per-direction sequence' if seq else 'the value %r is not a sequence' % (real[k],), site(fi, node))
                elif okk and isinstance(par, ast.Subscript) and par.value is node and isinstance(par.slice, ast.Constant) and isinstance(par.slice.value, int):
                    v = produced[k]
                    seq = isinstance(v, ast.Tuple) or (isinstance(v, ast.Call) and norm(v.func) in ('tuple', 'list')) or \
                        (isinstance(v, ast.Attribute) and v.attr in ('sample_size', 'delta') and pdim > 1)
                    run.ob('AG3.data-keys', 'evaluators.%s.%s :: datadict[%r][%d] is per-direction' % (cname, meth, k, par.slice.value), seq,
                           'value `%s` is a per-direction sequence' % norm(v)[:50] if seq else 'value `%s` is not a sequence' % norm(v)[:50], site(fi, node))


# ---------------------------------------------------------------------------------------------- NK1
def ev2(m, run):
    """EV2: every rational evaluator computes on the homogeneous points by calling the same method of its non-rational parent with ALL
    of its own arguments - positional ones in order and **kwargs (start / stop of the evaluated range) - and then projects; the three
    rational classes agree on this"""
    n = 0
    for ck in sorted(k for k in m.classes if k[0] == 'evaluators' and k[1].endswith('Rational')):
        ci = m.classes[ck]
        for name in ('evaluate', 'derivatives'):
            fi = ci.methods.get(name)
            if fi is None:
                continue
            sup = [c for c in walk_no_nested(fi.node) if isinstance(c, ast.Call) and isinstance(c.func, ast.Attribute) and c.func.attr == name
                   and isinstance(c.func.value, ast.Call) and norm(c.func.value.func) == 'super']
            if len(sup) != 1:
                raise AnalysisError('%s: call of the parent %s not found' % (fi.key, name))
            c = sup[0]
            ps = params_of(fi.node)[1:]
            passed = [norm(a) for a in c.args] + ['%s=%s' % (k.arg, norm(k.value)) for k in c.keywords if k.arg]
            pos_ok = [norm(a) for a in c.args] == ps[:len(c.args)] and all(('%s=%s' % (p_, p_)) in passed or p_ in [norm(a) for a in c.args] for p_ in ps)
            kw_ok = fi.node.args.kwarg is None or any(k.arg is None and norm(k.value) == fi.node.args.kwarg.arg for k in c.keywords)
            n += 1
            run.ob('EV2.rational-evaluator-forwards-its-arguments', fi.key, pos_ok and kw_ok,
                   'parent called with (%s%s)' % (', '.join(passed), ', **kwargs' if kw_ok and fi.node.args.kwarg else '') if pos_ok and kw_ok else
                   'the parent %s is called with (%s)%s: %s' % (name, ', '.join(passed), '' if kw_ok else ' without **%s' % fi.node.args.kwarg.arg,
                                                               'the requested start/stop range is ignored and the default range is evaluated' if not kw_ok else
                                                               'an argument of the method does not reach the parent'), site(fi, c))
    if n < 5:
        raise AnalysisError('EV2: only %d rational evaluator methods found' % n)


def nk1(m, run):
    def is_flag(e):
        return isinstance(e, ast.Attribute) and e.attr == '_kv_normalize'

    def only_rejects(body):
        return all(isinstance(s, (ast.Raise, ast.Continue)) or (isinstance(s, ast.Return) and s.value is None) for s in body)

    def mentions_check(e):
        return any(isinstance(x, ast.Call) and norm(x.func).endswith('check_params') for x in ast.walk(e))

    for fi in m.funcs.values():
        if fi.mod not in ('abstract', 'BSpline', 'NURBS', 'multi'):
            continue
        for n in walk_no_nested(fi.node):
            if isinstance(n, ast.If) and any(is_flag(x) for x in ast.walk(n.test)):
                key = '%s :: if %s' % (fi.key, norm(n.test)[:70])
                ok, why = False, ''
                if is_flag(n.test):
                    inner = n.body
                    if len(inner) == 1 and isinstance(inner[0], ast.If) and mentions_check(inner[0].test):
                        chk = inner[0]
                        if only_rejects(chk.body) and not chk.orelse and not n.orelse:
                            ok, why = True, 'range check that only rejects'
                        elif n.orelse and not chk.orelse and [norm(s) for s in chk.body] == [norm(s) for s in n.orelse]:
                            ok, why = True, 'both branches perform `%s`; the normalised branch only adds a range check' % norm(chk.body[0])[:50]
                        else:
                            why = 'the branch taken when knot vectors are normalised does something else than the other branch plus a range check'
                    else:
                        why = 'guarded block is not a parameter range check'
                elif isinstance(n.test, ast.BoolOp) and isinstance(n.test.op, ast.And) and mentions_check(n.test) and only_rejects(n.body) and not n.orelse:
                    ok, why = True, 'range check that only skips/rejects'
                else:
                    why = 'unrecognised use of the normalisation flag'
                run.ob('NK1.normalize-guard', key, ok, why, site(fi, n))
            if isinstance(n, ast.IfExp) and is_flag(n.test):
                key = '%s :: %s' % (fi.key, norm(n)[:80])
                b = n.body
                ok = isinstance(b, ast.Call) and norm(b.func) == 'knotvector.normalize' and b.args and norm(b.args[0]) == norm(n.orelse)
                run.ob('NK1.normalize-guard', key, ok, 'stores normalize(v) or v itself' if ok else
                       'the two alternatives are not `knotvector.normalize(v, ...)` and the same `v`', site(fi, n))


# ---------------------------------------------------------------------------------------------- DOM1
def dom1(m, run, rule='DOM1.domain-ends'):
    """kwargs.get('start[_a]', D) / ('stop[_a]', D):  D = knotvector_a[degree_a]  resp.  knotvector_a[-(degree_a + 1)]"""
    from ..poly import to_poly, NotPoly, Poly
    from ..axis import suffix_axis
    n = 0
    for mod, cname in (('BSpline', 'Curve'), ('BSpline', 'Surface'), ('BSpline', 'Volume')):
        fi = m.cls(mod, cname).methods.get('evaluate')
        if fi is None:
            raise AnalysisError('%s.%s.evaluate not found' % (mod, cname))
        for c in [x for x in walk_no_nested(fi.node) if isinstance(x, ast.Call)]:
            if not (isinstance(c.func, ast.Attribute) and c.func.attr == 'get' and len(c.args) == 2 and isinstance(c.args[0], ast.Constant)
                    and isinstance(c.args[0].value, str)):
                continue
            kname = c.args[0].value
            which = 'start' if kname.startswith('start') else ('stop' if kname.startswith('stop') else None)
            if which is None:
                continue
            n += 1
            d = c.args[1]
            key = '%s :: default of %r' % (fi.key, kname)
            if not (isinstance(d, ast.Subscript) and isinstance(d.value, ast.Attribute) and d.value.attr.startswith('knotvector')):
                run.note(rule, key, 'default `%s` is not spelled as an element of a knot vector attribute: decided by DOM2 only' % norm(d))
                continue
            kv = d.value.attr
            ax_kw, ax_kv = suffix_axis(kname), suffix_axis(kv)
            try:
                p = to_poly(d.slice, env=lambda nm: None)
            except NotPoly:
                run.ob(rule, key, False, 'index `%s` not polynomial' % norm(d.slice), site(fi, c))
                continue
            deg_attr = 'self.degree' + ('_' + kv[-1] if ax_kv is not None else '')
            want = Poly.atom(deg_attr) if which == 'start' else -(Poly.atom(deg_attr) + 1)
            ok = p == want and ax_kw == ax_kv
            run.ob(rule, key, ok, '%s[%s]' % (kv, p) if ok else
                   'default %s parameter is %s[%s]; the %s of the domain in this direction is %s[%s]' % (which, kv, p, which, 'knotvector' + kname[len(which):], want),
                   site(fi, c))
    # the spelling-independent decision: what the evaluator actually receives when no range is given
    from .. import skel_drivers as _sd
    _sd.dom2(m, run)
    run.floor('DOM2.evaluator-receives-the-domain-ends', 3, 'curve, surface, volume')
    # SplineGeometry.domain
    dm = m.cls('abstract', 'SplineGeometry').getters.get('domain')
    if dm is not None:
        tup = [x for x in ast.walk(dm.node) if isinstance(x, ast.Tuple) and len(x.elts) == 2 and all(isinstance(e, ast.Subscript) for e in x.elts)]
        ok = False
        if tup:
            lo, hi = tup[0].elts
            try:
                plo, phi = to_poly(lo.slice, env=lambda nm: None), to_poly(hi.slice, env=lambda nm: None)
                datom = [a for a in plo.atoms()]
                ok = len(datom) == 1 and plo == Poly.atom(datom[0]) and phi == -(Poly.atom(datom[0]) + 1) and norm(lo.value) == norm(hi.value)
            except NotPoly:
                ok = False
        run.ob(rule, dm.key, ok, 'domain = (kv[p], kv[-(p+1)])' if ok else 'domain ends are not (kv[degree], kv[-(degree+1)])', site(dm))


# ---------------------------------------------------------------------------------------------- AG5
def ag5(m, run, rule='AG5.serial-parallel'):
    # (a) voxelisation: decided on an abstract grid with a recorder predicate and a stub pool (AG52); the rule that reads the pool call corroborates
    from .. import skel_drivers as _sd
    n0 = len(run.obs)
    _sd.ag52(m, run, rule)
    ok52 = all(o.ok for o in run.obs[n0:])
    with run.corroborating(ok52, 'AG52', rules=(rule,)):
        _ag5_voxel_syntactic(m, run, rule)
    # the dispatch in voxelize.voxelize is decided on an abstract container (serial and parallel receive the same per-element arguments)
    _sd.vx3(m, run, rule)
    _ag5_container(m, run, rule)


def _ag5_voxel_syntactic(m, run, rule):
    # st and mp apply is_point_inside_voxel(voxel, datapts, tol=tol) to every voxel, in order
    st, mp = m.func('_voxelize.find_inouts_st'), m.func('_voxelize.find_inouts_mp')
    pcs = ag.pool_calls(mp.node)
    if len(pcs) != 1:
        raise AnalysisError('find_inouts_mp: expected one pool call')
    w, pc = pcs[0]
    run.ob(rule, mp.key + ' :: pool method', pc.func.attr == 'map', 'Pool.%s%s' % (pc.func.attr, '' if pc.func.attr == 'map' else
           ' does not return results in input order (or is asynchronous): filled[k] no longer belongs to voxel k'), site(mp, pc))
    wname, wkw, wstar, wpos = ag.partial_parts(pc.args[0])
    # serial call
    scalls = [c for c in walk_no_nested(st.node) if isinstance(c, ast.Call) and norm(c.func) == wname]
    if len(scalls) != 1:
        raise AnalysisError('find_inouts_st: worker call %s not found exactly once' % wname)
    sc = scalls[0]
    skw = {k.arg: norm(k.value) for k in sc.keywords if k.arg}
    worker = m.resolve_callable('_voxelize', sc.func)
    wparams = params_of(worker.node) if worker else []
    # positional args of the serial call by parameter name
    sargs = dict(zip(wparams, [norm(a) for a in sc.args]))
    sargs.update(skw)
    pargs = dict(wkw)
    pargs.update(dict(zip(wparams[1:], wpos)))
    # element of the mapped iterable is the first parameter
    mapped = norm(pc.args[1])
    s_iter = None
    for lp in [x for x in walk_no_nested(st.node) if isinstance(x, ast.For)]:
        if any(c is sc for c in ast.walk(lp)):
            s_iter = lp
    it_txt = None
    if s_iter is not None:
        it = s_iter.iter
        if isinstance(it, ast.Call) and isinstance(it.func, ast.Name) and it.func.id == 'enumerate':
            it = it.args[0]
        it_txt = norm(it)
    same_iter = it_txt == mapped

    def resolved(fn, txt):
        # a local passed to the worker stands for its (single) definition: `tol` must be the same option with the same default on both sides
        ds = [x.value for x in walk_no_nested(fn.node) if isinstance(x, ast.Assign) and len(x.targets) == 1 and isinstance(x.targets[0], ast.Name) and x.targets[0].id == txt]
        return norm(ds[0]) if len(ds) == 1 else txt
    sargs = {k: resolved(st, v) for k, v in sargs.items()}
    pargs = {k: resolved(mp, v) for k, v in pargs.items()}
    rest_s = {k: v for k, v in sargs.items() if k != wparams[0]} if wparams else sargs
    ok = same_iter and rest_s == pargs
    run.ob(rule, '_voxelize :: same worker arguments', ok,
           'both apply %s(voxel, %s) over %s' % (wname, ', '.join('%s=%s' % kv for kv in sorted(pargs.items())), mapped) if ok else
           'serial branch calls %s with %s over %s, parallel branch binds %s over %s: the two branches compute different things'
           % (wname, sorted(rest_s.items()), it_txt, sorted(pargs.items()), mapped), site(mp, pc))
    # filled flag equals the predicate value in the serial branch
    # (`if pts_inside: filled[idx] = 1` with filled initialised to 0 and the worker returning 0/1)


def _ag5_container(m, run, rule):
    # (b) container tessellation
    ct = m.func('multi.SurfaceContainer.tessellate')
    pcs = ag.pool_calls(ct.node)
    if len(pcs) != 1:
        raise AnalysisError('SurfaceContainer.tessellate: expected one pool call')
    w, pc = pcs[0]
    run.ob(rule, ct.key + ' :: pool method', pc.func.attr == 'map', 'Pool.%s' % pc.func.attr, site(ct, pc))
    wname, wkw, wstar, wpos = ag.partial_parts(pc.args[0])
    scalls = [c for c in walk_no_nested(ct.node) if isinstance(c, ast.Call) and norm(c.func) == wname and c is not pc.args[0]
              and not any(c is x for x in ast.walk(pc))]
    ok = False
    why = 'serial worker call not found'
    if len(scalls) == 1:
        sc = scalls[0]
        skw = {k.arg: norm(k.value) for k in sc.keywords if k.arg}
        # positional arguments of the serial call by the worker's parameter names (the element itself is the first parameter)
        wfi = m.resolve_callable(ct.mod, sc.func)
        wps = params_of(wfi.node) if wfi is not None else []
        for pos, a in enumerate(sc.args[1:], 1):
            if pos < len(wps):
                skw[wps[pos]] = norm(a)
        pkw = dict(wkw)
        for pos, a in enumerate(wpos, 1):
            if pos < len(wps):
                pkw[wps[pos]] = a
        sstar = any(k.arg is None for k in sc.keywords)
        ok = skw == pkw and sstar == wstar and len(sc.args) >= 1
        why = 'both branches call %s(elem, %s%s)' % (wname, ', '.join('%s=%s' % kv for kv in sorted(wkw.items())), ', **kwargs' if wstar else '') if ok else \
            'serial %s%s vs parallel %s%s' % (sorted(skw.items()), ' **' if sstar else '', sorted(wkw.items()), ' **' if wstar else '')
    run.ob(rule, ct.key + ' :: same worker arguments', ok, why, site(ct, pc))
    okm = norm(pc.args[1]) == 'self._elements'
    run.ob(rule, ct.key + ' :: mapped over all elements', okm, 'pool.map over %s' % norm(pc.args[1]), site(ct, pc))


# ---------------------------------------------------------------------------------------------- UD1
def ratio(e, env):
    """rational normal form (numerator, denominator) of an arithmetic expression; rounding wrappers (int, float, round, math.floor(x + 0.5))
    are the identity on the integer-valued quantities they are applied to here"""
    from ..poly import Poly
    if isinstance(e, ast.Constant) and isinstance(e.value, (int, float)) and not isinstance(e.value, bool):
        from fractions import Fraction
        return Poly.const(Fraction(e.value).limit_denominator(10 ** 9)), Poly.const(1)
    if isinstance(e, ast.Name):
        if e.id in env:
            return env[e.id]
        return Poly.atom(e.id), Poly.const(1)
    if isinstance(e, (ast.Attribute, ast.Subscript)):
        t = norm(e)
        if t in env:
            return env[t]
        return Poly.atom(t), Poly.const(1)
    if isinstance(e, ast.Call):
        f = norm(e.func)
        if f in ('int', 'float', 'round', 'math.floor', 'floor') and e.args:
            a = e.args[0]
            if f.endswith('floor') and isinstance(a, ast.BinOp) and isinstance(a.op, ast.Add) and isinstance(a.right, ast.Constant) and a.right.value == 0.5:
                a = a.left
            return ratio(a, env)
        raise ValueError('call ' + f)
    if isinstance(e, ast.BinOp):
        (an, ad), (bn, bd) = ratio(e.left, env), ratio(e.right, env)
        if isinstance(e.op, ast.Add):
            return an * bd + bn * ad, ad * bd
        if isinstance(e.op, ast.Sub):
            return an * bd - bn * ad, ad * bd
        if isinstance(e.op, ast.Mult):
            return an * bn, ad * bd
        if isinstance(e.op, ast.Div):
            return an * bd, ad * bn
    raise ValueError(type(e).__name__)


def ud2(m, run, rule='UD2.container-and-element-count-samples-alike'):
    """a container pushes its delta to its elements, which evaluate floor(1/delta + 0.5) points per direction (on a unit domain): the
    delta a container computes from a requested sample size n must be read back as n by the elements - composition of the container's
    setter formula with the element's getter formula, in rational normal form"""
    from ..poly import Poly
    cs = m.cls('multi', 'AbstractContainer').methods.get('_sample_size_setter_common')
    eg = m.cls('abstract', 'Curve').getters.get('sample_size')
    if cs is None or eg is None:
        raise AnalysisError('UD2: container sample size setter / curve sample size getter not found')
    val = params_of(cs.node)[-1]
    store = [a for a in walk_no_nested(cs.node) if isinstance(a, ast.Assign) and isinstance(a.targets[0], ast.Subscript) and '_delta' in norm(a.targets[0].value)]
    if len(store) != 1:
        raise AnalysisError('UD2: delta store of the container not found')
    try:
        dn, dd = ratio(store[0].value, {})
    except ValueError as ex:
        raise AnalysisError('UD2: container delta formula not rational (%s)' % ex)
    rets = [r for r in walk_no_nested(eg.node) if isinstance(r, ast.Return) and r.value is not None]
    defs = {a.targets[0].id: a.value for a in walk_no_nested(eg.node) if isinstance(a, ast.Assign) and isinstance(a.targets[0], ast.Name)}
    expr = rets[-1].value
    for _ in range(4):
        inner = expr.args[0] if isinstance(expr, ast.Call) and norm(expr.func) in ('int', 'float') and expr.args else expr
        if isinstance(inner, ast.Name) and inner.id in defs:
            expr = defs[inner.id]
        else:
            break
    try:
        gn, gd = ratio(expr, {'self.delta': (dn, dd), 'self._delta[0]': (dn, dd)})
    except ValueError as ex:
        raise AnalysisError('UD2: element sample size formula not rational (%s)' % ex)
    n_ = Poly.atom(val)
    ok = gn == n_ * gd
    run.ob(rule, 'multi.AbstractContainer._sample_size_setter_common vs abstract.Curve.sample_size', ok,
           'an element reads the container delta back as the requested sample size' if ok else
           'the container stores delta = (%s)/(%s) for a sample size `%s`, which its elements read back as (%s)/(%s) samples: a container asked for n samples '
           'evaluates a different number of points per element than a single shape asked for n' % (dn, dd, val, gn, gd), site(cs, store[0]))


def ud1(m, run, rule='UD1.setter-getter-same-state'):
    """a sample_size getter must depend on the same state as its setter: the setter divides the knot range into delta,
    so the getter must use the knot range to invert it"""
    for cname in ('Curve', 'Surface', 'Volume'):
        ci = m.cls('abstract', cname)
        for prop, g in sorted(ci.getters.items()):
            if not prop.startswith('sample_size'):
                continue
            s = ci.setters.get(prop)
            if s is None:
                continue

            def deps(fn):
                return {x.attr.split('_')[0] if x.attr.startswith(('knotvector', 'degree', 'delta')) else x.attr
                        for x in walk_no_nested(fn) if isinstance(x, ast.Attribute) and isinstance(x.value, ast.Name) and x.value.id == 'self'
                        and isinstance(x.ctx, ast.Load) and x.attr.lstrip('_').startswith(('knotvector', 'knot_vector', 'degree', 'delta'))}
            ds, dg = deps(s.node), deps(g.node)
            uses_range_s = bool({'knotvector', '_knot_vector'} & ds)
            uses_range_g = bool({'knotvector', '_knot_vector', 'range', 'domain'} & dg) or any(
                isinstance(x, ast.Attribute) and x.attr in ('range', 'domain') for x in ast.walk(g.node))
            ok = (not uses_range_s) or uses_range_g
            run.ob(rule, 'abstract.%s.%s' % (cname, prop), ok,
                   'setter and getter depend on the same state' if ok else
                   'setter computes delta = (knot range)/n but the getter returns round(1/delta) without the knot range: with normalize_kv=False '
                   'and a domain of length L != 1 the reported sample size is n/L, and delta >= 1 is rejected', site(g))
    run.floor(rule, 8, 'sample_size on Curve; sample_size[_u,_v] on Surface; sample_size[_u,_v,_w] on Volume')


def domain_getter(m, run):
    """DG2: the `domain` property interpreted on abstract shapes with labelled knots returns, per direction, (knot[degree], knot[-(degree + 1)])
    - a pair for a curve, a list of pairs in (u, v, w) order otherwise.  Everything that starts "at the beginning of the domain" (rotation
    origin, split guards, default evaluation range) relies on it."""
    from .. import skel_drivers as _sd
    from ..skel import SK, STD_ABSTRACTED, Tok, Violation, Unsupported
    for cname, pdim, degs, sizes in (('Curve', 1, (2,), (5,)), ('Surface', 2, (2, 1), (4, 5)), ('Volume', 3, (1, 2, 3), (3, 5, 4))):
        fi = m.lookup(('BSpline', cname), 'domain', 'getters')
        if fi is None:
            raise AnalysisError('BSpline.%s.domain getter not found' % cname)
        obj = _sd.abstract_shape(cname, pdim, degs, sizes, False, [])
        sk = SK(m, dict(STD_ABSTRACTED))
        key = 'BSpline.%s.domain' % cname
        try:
            out = sk.call(fi, [obj], {})
            lab = lambda x: next(iter(x.dep)) if isinstance(x, Tok) and x.dep and len(x.dep) == 1 else x
            pairs = [out] if pdim == 1 else list(out)
            got = [tuple(lab(x) for x in p_) for p_ in pairs]
            want = [((d, degs[d]), (d, sizes[d])) for d in range(pdim)]        # index -(p + 1) of n + p + 1 knots is n
            why = None if got == want else 'returns %s; the domain of direction d is (knot[degree_d], knot[-(degree_d + 1)]), here knots %s' % (
                [tuple('knot_%s[%s]' % ('uvw'[x[0]], x[1]) if isinstance(x, tuple) else repr(x) for x in p_) for p_ in got], [(w[0][1], w[1][1]) for w in want])
        except Violation as v:
            why = '%s %s' % (v.msg, v.where())
        except Unsupported as ex:
            raise AnalysisError('%s: interpreter met an unsupported construct: %s' % (key, ex))
        run.ob('DG2.domain-getter', key, why is None, 'per direction (knot[degree], knot[-(degree + 1)])' if why is None else why, site(fi))
