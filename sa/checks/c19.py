"""C19 - equality of shapes is an equivalence that tracks the definition (fully structural)."""
import ast
from ..model import norm, AnalysisError, walk_no_nested

DECIDES = ('in SplineGeometry.__eq__ every defining component (parametric dimension, rationality, sizes, degrees, knot '
           'vectors, homogeneous control points) is compared between self and other and every such comparison result '
           'can reach `return False` (EQ1/KD3), and an index used to walk the coordinates of compared elements runs over the length of those elements (EQ1 extent: the weight slot is compared too); tolerance bounds are magnitudes, not digit counts (KD2); every '
           'comparison incl. its tolerance is symmetric under exchanging the operands (EQ3); __ne__ negates __eq__ (EQ4); '
           'no subclass overrides __eq__/__ne__ (EQ5); __deepcopy__ copies every attribute through copy.deepcopy and pre-seeds the memo only for self and the cache, so a copy carries the compared components of its source (IV4); the compared control point storage of a shape is its own - setters store fresh structures (ES1) - and the rational setters store on every normally returning path (WS4), so a change made through the public setters is always visible to the comparison of exactly one shape. the knot vector stored by a normalising shape is a new list (PU6).')
NOT_DECIDED = 'nothing numerical is involved; transitivity is not an equivalence property of a tolerance comparison and is not claimed.'
DECIDES += (' DC9: a deep copy shares nothing with its source and has equal content and aliasing (so it equals its source and an edit of one never reaches the other); '
            'KS2: the compared knot vectors are the ones the user gave - no setter normalises the knots of a shape created with normalize_kv=False.')

COMPONENTS = {
    'pdimension': {'pdimension', '_pdim'},
    'rational': {'rational', '_rational'},
    'sizes': {'_control_points_size', 'cpsize'},
    'degrees': {'_degree', 'degree'},
    'knot vectors': {'_knot_vector', 'knotvector'},
    'control points (homogeneous)': {'_control_points', 'ctrlptsw'},
}
DECIDES += (' EQ2: __eq__ / __ne__ interpreted on 242 ordered pairs of abstract shapes that differ in exactly one component (kind, rationality, a degree, sizes, a knot, a knot count, a coordinate incl. the weight slot, the point count of a curve, a shape of the next parametric kind agreeing in all shared directions) or in none, and on non-shapes: equal exactly when nothing differs by more than the tolerance, symmetric, != the negation.')
DECIDES += (' SC2: the control points compared are the ones given (no rounding on the way in, whatever the precision).')


def comp_of_attr(attr):
    for c, names in COMPONENTS.items():
        if attr in names:
            return c
    return None


class Origin(object):
    """abstract value: which object ('self'/'other') and which component an expression derives from;
    is_len marks a length of (part of) the component rather than its values"""
    __slots__ = ('side', 'comp', 'is_len')

    def __init__(self, side, comp, is_len=False):
        self.side, self.comp, self.is_len = side, comp, is_len


def digits_attrs(model):
    """attributes whose value is a *number of decimal digits*: they flow to a `decimals=`/`precision=` keyword"""
    out = set()
    for t in model.tree.values():
        for n in ast.walk(t):
            if isinstance(n, ast.Call):
                for k in n.keywords:
                    if k.arg in ('decimals', 'precision') and isinstance(k.value, ast.Attribute):
                        out.add(k.value.attr)
                    if k.arg in ('decimals', 'precision') and isinstance(k.value, ast.Subscript) and \
                            isinstance(k.value.slice, ast.Constant) and k.value.slice.value == 'precision':
                        out.add('_precision')
    return out


def sym_text(e, swap):
    """normal text of e with self<->other exchanged (if swap) and commutative operands sorted"""
    def rec(n):
        if isinstance(n, ast.Name):
            if swap and n.id in ('self', 'other'):
                return 'other' if n.id == 'self' else 'self'
            return n.id
        if isinstance(n, ast.Call):
            f = rec(n.func)
            args = [rec(a) for a in n.args]
            if isinstance(n.func, ast.Name) and n.func.id in ('min', 'max'):
                args = sorted(args)
            if isinstance(n.func, ast.Name) and n.func.id == 'abs' and len(n.args) == 1 and isinstance(n.args[0], ast.BinOp) \
                    and isinstance(n.args[0].op, ast.Sub):
                args = ['absdiff(%s)' % ','.join(sorted([rec(n.args[0].left), rec(n.args[0].right)]))]
            kws = sorted('%s=%s' % (k.arg, rec(k.value)) for k in n.keywords)
            return '%s(%s)' % (f, ','.join(args + kws))
        if isinstance(n, ast.BinOp):
            a, b = rec(n.left), rec(n.right)
            op = type(n.op).__name__
            if isinstance(n.op, (ast.Add, ast.Mult)):
                a, b = sorted([a, b])
            return '(%s %s %s)' % (a, op, b)
        if isinstance(n, ast.UnaryOp):
            return '(%s %s)' % (type(n.op).__name__, rec(n.operand))
        if isinstance(n, ast.Attribute):
            return rec(n.value) + '.' + n.attr
        if isinstance(n, ast.Constant):
            return repr(n.value)
        if isinstance(n, ast.Subscript):
            return '%s[%s]' % (rec(n.value), rec(n.slice))
        return norm(n)
    return rec(e)


def is_magnitude(e, digits, fn):
    """accepted tolerance forms: float literal in (0,1); 10 ** -(x); pow(10, -x); 10.0 ** (-x); a tolerance
    attribute that is not a digits attribute; a local bound once to one of these"""
    if isinstance(e, ast.Constant) and isinstance(e.value, float):
        return 0 < e.value < 1, 'float literal %r' % e.value
    if isinstance(e, ast.Constant) and isinstance(e.value, int):
        return False, 'integer literal %r is not a tolerance magnitude' % e.value
    if isinstance(e, ast.BinOp) and isinstance(e.op, ast.Pow):
        base = e.left
        if isinstance(base, ast.Constant) and base.value in (10, 10.0):
            ex = e.right
            if isinstance(ex, ast.UnaryOp) and isinstance(ex.op, ast.USub):
                return True, '10 ** -n'
            return False, 'exponent of 10 is not negated'
    if isinstance(e, ast.Call) and isinstance(e.func, ast.Name) and e.func.id == 'pow' and len(e.args) == 2:
        if isinstance(e.args[0], ast.Constant) and e.args[0].value in (10, 10.0) and isinstance(e.args[1], ast.UnaryOp) \
                and isinstance(e.args[1].op, ast.USub):
            return True, 'pow(10, -n)'
    if isinstance(e, ast.BinOp) and isinstance(e.op, ast.Div) and isinstance(e.left, ast.Constant) and e.left.value in (1, 1.0):
        return True, 'reciprocal'
    if isinstance(e, ast.Attribute):
        if e.attr in digits:
            return False, 'attribute %s is a digit count (it flows to decimals=/precision= elsewhere), not a magnitude' % e.attr
        return True, 'tolerance attribute'
    if isinstance(e, ast.Name):
        defs = [n for n in walk_no_nested(fn) if isinstance(n, ast.Assign) and any(isinstance(t, ast.Name) and t.id == e.id for t in n.targets)]
        if len(defs) == 1:
            return is_magnitude(defs[0].value, digits, fn)
        return False, 'local %s has %d definitions' % (e.id, len(defs))
    return False, 'unrecognised tolerance form `%s`' % norm(e)


class EqFlow(object):
    """syntax-directed forward walk of __eq__: tracks, per local, the set of components whose comparison
    results it carries (strong update on assignment, weak on append), and which components' results
    reach a test that controls `return False`."""

    def __init__(self, fn, run, digits, qual):
        self.fn, self.run, self.digits, self.qual = fn, run, digits, qual
        self.origin = {}       # local -> Origin (element of self.X / other.X)
        self.carry = {}        # local -> set(components) whose comparison verdicts the local carries
        self.consumed = {}     # component -> [test text]
        self.compared = {}     # component -> [compare text]
        self.compares = []     # (Compare node, component)
        self.ever_carried = {}  # local -> components it carried at any time
        self.index_extent = {}  # loop index -> (range extent expr, its Origin)
        self.other = None
        a = fn.args.args
        if len(a) != 2:
            raise AnalysisError('__eq__ does not take (self, other)')
        self.selfn, self.other = a[0].arg, a[1].arg

    # ---- expression classification
    def origin_of(self, e):
        if isinstance(e, ast.Attribute) and isinstance(e.value, ast.Name) and e.value.id in (self.selfn, self.other):
            c = comp_of_attr(e.attr)
            if c:
                return Origin('self' if e.value.id == self.selfn else 'other', c)
        if isinstance(e, ast.Name) and e.id in self.origin:
            return self.origin[e.id]
        if isinstance(e, ast.Subscript):
            return self.origin_of(e.value)
        if isinstance(e, ast.Call) and isinstance(e.func, ast.Name) and e.func.id in ('list', 'tuple', 'float', 'int', 'round') and e.args:
            return self.origin_of(e.args[0])
        if isinstance(e, ast.Call) and isinstance(e.func, ast.Name) and e.func.id == 'len' and e.args:
            o = self.origin_of(e.args[0])
            return Origin(o.side, o.comp, True) if o else None
        return None

    def compare_component(self, c):
        """component a Compare is about, or None; also checks symmetry/tolerance"""
        if len(c.ops) != 1:
            return None
        l, r = c.left, c.comparators[0]
        ol, orr = self.origin_of(l), self.origin_of(r)
        if ol and orr and ol.comp == orr.comp and ol.side != orr.side:
            return ol.comp, ('len' if (ol.is_len or orr.is_len) else 'direct')
        # abs(a - b) < T
        for x, t in ((l, r), (r, l)):
            if isinstance(x, ast.Call) and isinstance(x.func, ast.Name) and x.func.id == 'abs' and len(x.args) == 1 and \
                    isinstance(x.args[0], ast.BinOp) and isinstance(x.args[0].op, ast.Sub):
                oa, ob = self.origin_of(x.args[0].left), self.origin_of(x.args[0].right)
                if oa and ob and oa.comp == ob.comp and oa.side != ob.side:
                    return oa.comp, ('tol', t)
            if isinstance(x, ast.BinOp) and isinstance(x.op, ast.Sub):
                oa, ob = self.origin_of(x.left), self.origin_of(x.right)
                if oa and ob and oa.comp == ob.comp and oa.side != ob.side:
                    return oa.comp, ('signed', t)
        return None

    def comps_in(self, e):
        """components whose verdicts an expression carries (Compare nodes inside + carrying locals)"""
        out = set()
        for n in ast.walk(e):
            if isinstance(n, ast.Compare):
                cc = self.compare_component(n)
                if cc:
                    if cc[1] != 'len':
                        out.add(cc[0])
                    self.note_compare(n, cc)
            elif isinstance(n, ast.Name) and n.id in self.carry:
                out |= self.carry[n.id]
        return out

    def note_compare(self, n, cc):
        if any(n is m for m, _ in self.compares):
            return
        self.compares.append((n, cc))
        comp, form = cc
        key = '%s :: [%s] %s' % (self.qual, comp, norm(n))
        if form == 'len':
            self.run.ob('EQ3.symmetry', key, isinstance(n.ops[0], (ast.Eq, ast.NotEq)), 'length comparison')
            return
        self.compared.setdefault(comp, []).append(norm(n))
        for sub in [x for x in ast.walk(n) if isinstance(x, ast.Subscript) and isinstance(x.slice, ast.Name) and x.slice.id in self.index_extent]:
            so = self.origin_of(sub.value)
            ext, eo = self.index_extent[sub.slice.id]
            if so is None or so.comp != comp:
                continue
            okx = eo is not None and eo.is_len and eo.comp == comp
            self.run.ob('EQ1.compared-over-full-extent', '%s :: [%s] index %s' % (self.qual, comp, sub.slice.id), okx,
                        'index runs over the length of the compared component' if okx else
                        'index `%s` runs over range(%s), which is not the length of the compared %s: the remaining coordinates (for rational shapes the '
                        'weight slot) are never compared, so shapes differing only there compare equal' % (sub.slice.id, norm(ext), comp))
        if form == 'direct':
            ok = isinstance(n.ops[0], (ast.Eq, ast.NotEq))
            self.run.ob('EQ3.symmetry', key, ok, 'ordering comparison between self and other components is not symmetric' if not ok else 'eq/ne is symmetric')
        elif form[0] == 'signed':
            self.run.ob('EQ3.symmetry', key, False, 'signed difference compared with a bound: not symmetric in the operands (needs abs)')
        else:
            tol = form[1]
            ok_op = isinstance(n.ops[0], (ast.Lt, ast.LtE, ast.Gt, ast.GtE))
            self.run.ob('EQ3.symmetry', key, ok_op and sym_text(tol, False) == sym_text(tol, True),
                        'tolerance `%s` changes when self and other are exchanged: a == b and b == a can differ for objects with different precision'
                        % norm(tol) if sym_text(tol, False) != sym_text(tol, True) else 'tolerance invariant under exchange')
            mag, why = is_magnitude(tol, self.digits, self.fn)
            self.run.ob('KD2.tolerance-kind', key, mag, why)

    # ---- statements
    def returns_false(self, body):
        for st in body:
            for n in ast.walk(st):
                if isinstance(n, ast.Return) and isinstance(n.value, ast.Constant) and n.value.value is False:
                    return True
        return False

    def block(self, body):
        for st in body:
            self.stmt(st)

    def stmt(self, st):
        if isinstance(st, ast.If):
            comps = self.comps_in(st.test)
            if comps:
                # the test decides between continuing and `return False`
                if self.returns_false(st.body) or self.returns_false(st.orelse):
                    for c in comps:
                        self.consumed.setdefault(c, []).append(norm(st.test))
            self.block(st.body)
            self.block(st.orelse)
        elif isinstance(st, ast.For):
            self.bind_loop(st.target, st.iter)
            for _ in range(2):
                self.block(st.body)
            self.block(st.orelse)
        elif isinstance(st, ast.While):
            for _ in range(2):
                self.block(st.body)
        elif isinstance(st, ast.Try):
            self.block(st.body)
            for h in st.handlers:
                self.block(h.body)
            self.block(st.orelse)
            self.block(st.finalbody)
        elif isinstance(st, ast.Assign):
            comps = self.comps_in(st.value)
            for t in st.targets:
                if isinstance(t, ast.Name):
                    self.carry[t.id] = set(comps)
                    self.ever_carried.setdefault(t.id, set()).update(comps)
                    o = self.origin_of(st.value)
                    if o:
                        self.origin[t.id] = o
                    else:
                        self.origin.pop(t.id, None)
        elif isinstance(st, ast.AugAssign):
            comps = self.comps_in(st.value)
            if isinstance(st.target, ast.Name):
                self.carry.setdefault(st.target.id, set()).update(comps)
        elif isinstance(st, ast.Expr):
            v = st.value
            if isinstance(v, ast.Call) and isinstance(v.func, ast.Attribute) and v.func.attr in ('append', 'extend', 'add') \
                    and isinstance(v.func.value, ast.Name) and v.args:
                cs = self.comps_in(v.args[0])
                self.carry.setdefault(v.func.value.id, set()).update(cs)
                self.ever_carried.setdefault(v.func.value.id, set()).update(cs)
            else:
                self.comps_in(v)
        elif isinstance(st, ast.Return):
            if st.value is not None:
                comps = self.comps_in(st.value)
                # `return a == b and ...` style: the verdict is the return value itself
                for c in comps:
                    self.consumed.setdefault(c, []).append('return ' + norm(st.value))

    def bind_loop(self, target, it):
        # for s, o in zip(A, B)  /  for i in range(len(A))
        if isinstance(it, ast.Call) and isinstance(it.func, ast.Name) and it.func.id == 'zip' and isinstance(target, ast.Tuple):
            for t, a in zip(target.elts, it.args):
                o = self.origin_of(a)
                if isinstance(t, ast.Name):
                    if o:
                        self.origin[t.id] = o
                    else:
                        self.origin.pop(t.id, None)
        elif isinstance(target, ast.Name):
            o = self.origin_of(it)
            if o:
                self.origin[target.id] = o
            else:
                self.origin.pop(target.id, None)
            # for i in range(E) with i indexing elements of a compared component: E must be the length of (part of) that component,
            # otherwise some coordinates (e.g. the weight slot when E is the spatial dimension) are never compared
            if isinstance(it, ast.Call) and isinstance(it.func, ast.Name) and it.func.id == 'range' and it.args:
                ext = it.args[-1]
                eo = self.origin_of(ext)
                self.index_extent[target.id] = (ext, eo)


def check(m, run):
    ci = m.cls('abstract', 'SplineGeometry')
    eq = ci.methods.get('__eq__')
    if eq is None:
        raise AnalysisError('abstract.SplineGeometry.__eq__ not found')
    # equality is decided by interpreting __eq__ / __ne__ on pairs of abstract shapes that differ in exactly one component, or in none
    # (EQ2); the flow rules that read how each comparison verdict reaches `return False` corroborate - except the kind of the tolerance
    # (a magnitude, not a digit count), which pairs of order tokens cannot tell apart and which stays with KD2
    from .. import skel_drivers as _sd2
    n_eq = len(run.obs)
    try:
        _sd2.eq2(m, run)
    except AnalysisError as ex:
        run.error(str(ex))
    eq_ok = len(run.obs) > n_eq and all(o.ok for o in run.obs[n_eq:])
    with run.corroborating(eq_ok, 'EQ2', rules=('EQ1.compared', 'EQ3.symmetry'),
                           only=lambda o: o.rule in ('EQ1.compared', 'KD3.verdict-consumed', 'KD3.per-iteration-verdict', 'EQ4.ne-negates-eq', 'EQ3.symmetry', 'EQ1.compared-over-full-extent')):
        digits = digits_attrs(m)
        if '_precision' not in digits:
            run.note('KD2', 'abstract', '`_precision` no longer flows to a decimals=/precision= keyword; digit-kind table empty for it')
        fl = EqFlow(eq.node, run, digits, eq.key)
        fl.block(eq.node.body)
        for comp in COMPONENTS:
            key = '%s :: component %s' % (eq.key, comp)
            cmpd = fl.compared.get(comp, [])
            run.ob('EQ1.compared', key, bool(cmpd), 'self/other comparison found: %s' % cmpd[:2] if cmpd else
                   'no comparison between self and other %s (accepted attribute names: %s)' % (comp, sorted(COMPONENTS[comp])))
            if cmpd:
                cons = fl.consumed.get(comp, [])
                run.ob('KD3.verdict-consumed', key, bool(cons),
                       'verdict reaches `return False` via test `%s`' % cons[0] if cons else
                       'the comparison result for %s is computed (%s) but no test that can `return False` reads it' % (comp, cmpd[0]))
        # KD3b: a verdict-carrying local that is re-initialised inside a loop must be read inside that loop,
        # otherwise the verdicts of all iterations but the last are lost
        for loop in [n for n in walk_no_nested(eq.node) if isinstance(n, (ast.For, ast.While))]:
            inner = list(walk_no_nested(loop))
            assigned = {t.id for n in inner if isinstance(n, ast.Assign) for t in n.targets if isinstance(t, ast.Name)}
            for name in sorted(assigned):
                if not fl.ever_carried.get(name):
                    continue
                reads = [n for n in inner if isinstance(n, ast.Name) and n.id == name and isinstance(n.ctx, ast.Load)
                         and not (isinstance(getattr(n, '_sa_parent', None), ast.Attribute) and n._sa_parent.attr in ('append', 'extend', 'add'))]
                run.ob('KD3.per-iteration-verdict', '%s :: local %s in `%s`' % (eq.key, name, norm(loop).split(':')[0]), bool(reads),
                       'read inside the loop that re-initialises it' if reads else
                       'local `%s` carries comparison verdicts (%s), is re-initialised in every iteration of this loop but never read inside it: only the last iteration can influence the result'
                       % (name, sorted(fl.ever_carried[name])))
        # positive control for the extent rule (zero instances on a tree that compares whole points through zip)
        from .. import report as _rep
        ctl_src = ('def __eq__(self, other):\n    for sk, ok in zip(self._control_points, other._control_points):\n'
                   '        for idx in range(self.dimension):\n            if abs(sk[idx] - ok[idx]) >= 1e-7:\n                return False\n    return True\n')
        ctl_fn = ast.parse(ctl_src).body[0]
        for par in ast.walk(ctl_fn):
            for ch in ast.iter_child_nodes(par):
                ch._sa_parent = par
        ctl_run = _rep.Run('C19', 'quick', 0, quiet=True)
        ctl = EqFlow(ctl_fn, ctl_run, digits, 'control')
        ctl.block(ctl_fn.body)
        if not any(o.rule == 'EQ1.compared-over-full-extent' and not o.ok for o in ctl_run.obs):
            raise AnalysisError('EQ1 extent rule: positive control not detected (the rule is broken)')
        run.note('EQ1.compared-over-full-extent', eq.key, 'positive control (index over range(self.dimension)) detected; instances on this tree: %d'
                 % sum(1 for o in run.obs if o.rule == 'EQ1.compared-over-full-extent'))
        # EQ4: __ne__
        ne = ci.methods.get('__ne__')
        if ne is None:
            run.ob('EQ4.ne-negates-eq', 'abstract.SplineGeometry.__ne__', True, 'no __ne__: Python 3 derives it from __eq__')
        else:
            rets = [n for n in ast.walk(ne.node) if isinstance(n, ast.Return)]
            ok = len(rets) == 1 and isinstance(rets[0].value, ast.UnaryOp) and isinstance(rets[0].value.op, ast.Not) and (
                (isinstance(rets[0].value.operand, ast.Call) and isinstance(rets[0].value.operand.func, ast.Attribute)
                 and rets[0].value.operand.func.attr == '__eq__') or
                (isinstance(rets[0].value.operand, ast.Compare) and isinstance(rets[0].value.operand.ops[0], ast.Eq)))
            run.ob('EQ4.ne-negates-eq', ne.key, ok, 'returns `%s`' % (norm(rets[0].value) if rets else '?'))
    # EQ5: no override in subclasses
    for k in m.subclasses(ci.key):
        if k == ci.key:
            continue
        c = m.classes[k]
        for nm in ('__eq__', '__ne__', '__hash__'):
            if nm in c.methods and nm != '__hash__':
                run.ob('EQ5.no-override', '%s.%s.%s' % (k[0], k[1], nm), False,
                       'subclass overrides %s: the component-wise comparison of SplineGeometry no longer decides equality for it' % nm)
    run.ob('EQ5.no-override', 'subclasses of abstract.SplineGeometry', True,
           '%d subclasses scanned' % (len(m.subclasses(ci.key)) - 1))
    # a deep copy always equals its source: every attribute is copied through copy.deepcopy(v, memo) and the memo is pre-seeded
    # only for the object itself and its cache (shared with C12)
    from .. import rules_state
    rules_state.iv4_deepcopy(m, run)
    # the knot vectors that are compared are the ones the user gave: no setter normalises the knots of a shape created with normalize_kv=False
    from .. import skel_drivers as _sd
    _sd.ks2(m, run)
    _sd.sc2(m, run)        # ... and the control points that are compared are the ones given: nothing is rounded on the way in, whatever the precision
    # an edit of one shape through its public setters reaches its own compared storage and nobody else's: the setters store fresh
    # structures (no sharing with the caller or with another shape built from the same lists) and never drop an assignment
    from . import c09
    c09.no_escape(m, run)
    c09.setters(m, run)
    from . import c03
    c03.normalize_fresh(m, run)    # ... and so is the stored knot vector of a (default) normalising shape
    run.floor('EQ1.compared', 6, 'six components named by the property')
    run.floor('EQ3.symmetry', 4, 'pinned tree has 6 self/other comparisons')
    run.floor('KD2.tolerance-kind', 1, 'knot vectors and control points are compared with a tolerance')
