"""C02 - derivatives returned are the true derivatives of the shape (structural part)."""
import ast
from ..model import norm, AnalysisError, walk_no_nested, params_of, kwarg
from ..poly import Poly, to_poly, NotPoly
from .. import rules_axis as ra
from .. import rules_layout as rl

DECIDES = ('derivative tables are indexed [u-order][v-order] consistently from producers to consumers: SKL[k][l] is written with k of '
           'direction u and l of direction v (AX6), tangent_surface reads [1][0] as the u- and [0][1] as the v-tangent, the normal is the cross '
           'product of these two distinct first partials, and normalisation goes through vector_normalize exactly on the `normalize` path (TN1); '
           'the order passed to basis_function_ders is min(degree_d, .) of the call\'s own direction (BC1); '
           'in the rational quotient rules every term pairs the weight derivative w^(i[,j]) with the point derivative of complementary '
           'order, i.e. index sums equal the target order (k[, l]), with the binomial C(k, i) resp. C(l, j) of the same indices, weights read from '
           'slot [-1] and the result divided by w^(0[,0]) (RQ1); in the alternative evaluators basis tables are indexed [function][degree - order] '
           'with function/order indices of the matching PK/PKL positions and loops over degree - order + 1 functions (A34); derivative control '
           'point tables are written at [u-order][v-order][u-index][v-index] with direction-coherent indices, net strides and knot-vector slices '
           '(PK1, LY1, AX1), and in A3.3 the scalar factor of the difference quotient equals the index distance of the two knots it is divided by (PK2); [SKEL, bounded] for degrees 1..4, orders 0..degree+2, every span: no index error, no None placeholder consumed in any '
           'of the 6 derivative evaluators and 4 helpers. the [0, 1] parameter rejection is only evaluated for shapes with normalised knot vectors (RG1). every sum of the quotient rule restarts from zero between its consumption and its next accumulation (RQ1.sums-restart, CFG); the list variants of tangent/normal return the single-parameter result per parameter (TN2); every hodograph shape is a copy of the input or built with its normalize_kv, so it is parametrised like the input (HD2). both pluggable span searches return the half-open span that starts at a knot, so derivatives at knots are right-hand derivatives (OT1, order types). [SKEL, abstract object] interpreted on an object created with normalize_kv=False, the named methods never reach utilities.check_params and hand the request on to the evaluator / operation (RG2: spelling-independent form of RG1).')
NOT_DECIDED = ('the floating-point value of any derivative (the exact rules decide the algebraic identity on symbolic tables for the enumerated degrees and orders, not the rounding; the basis-function derivative tables themselves are C03); unit length of normalised vectors; the values of the derivative control points outside the enumerated nets (PK3 decides A3.3 / A3.7 exactly on two curves and one surface, every window and order); finite-difference agreement.')
TECHNIQUE = 'axis-tag dataflow, index-sum identities in polynomial normal form, call-contract guards; bounded index-skeleton interpretation for definedness'
DECIDES += (" [ABSTRACT INTERPRETATION, exact] A36S / A34S: every derivative S^(k,l), k + l <= order, of the default and the alternative evaluators is the exact (double) sum over symbolic basis-derivative tables and (derivative) control points, zero above the degrees; RQ2: A4.2 / A4.4 are identities of rational functions in symbolic A^(k,l), w^(k,l) with exact binomials for orders 0..3 and every pattern of vanishing weight derivatives; HD3: hodographs on recorder shapes keep the parametrisation of their input (deep copy or the input's normalize_kv) and take degrees, knots and nets of their own differentiated directions; FD2: the binomial is not truncated from a float quotient PK3: curve_deriv_cpts / surface_deriv_cpts are A3.3 / A3.7 exactly on rational knots and symbolic control points (AX6, BC1, RQ1, A34, HD1, HD2, PK1, PK2 only corroborate).")
DECIDES += (' BF3 (shared with C03): the derivative tables the evaluators combine are the exact derivatives of the Cox-de Boor polynomials, zero above the degree.')
DECIDES += (' VN2: vector_normalize returns v / |v| (or raises for the zero vector) and vector_magnitude sqrt(v . v), on symbolic 2-D / 3-D vectors with every threshold comparison taken both ways.')


def site(fi, node=None):
    return 'geomdl/%s.py:%s in %s' % (fi.mod, getattr(node or fi.node, 'lineno', '?'), fi.key)


def check(m, run):
    ev = lambda c, meth='derivatives': m.cls('evaluators', c).methods[meth]
    # the derivative evaluators are decided as exact polynomial / rational-function identities on symbolic basis tables, control points and
    # weighted derivatives (A36S, A34S, RQ2) and on labelled nets of every small degree (SKEL); the rules that read the loop spelling corroborate
    from .. import skel_drivers as _sd
    n0 = len(run.obs)
    _sd.c02(m, run)
    _sd.a36s(m, run)
    _sd.a34s(m, run)
    _sd.rq2(m, run)
    sem_ok = all(o.ok for o in run.obs[n0:])
    _sd.bf3(m, run)       # the derivative tables the evaluators combine are the exact derivatives of the Cox-de Boor polynomials (shared with C03)
    with run.corroborating(sem_ok, 'A36S/A34S/RQ2', rules=('AX6.table-order', 'BC1.basis-control-pairing', 'RQ1.quotient-rule', 'A34.alternative-evaluator')):
        ax6(m, run, [ev('SurfaceEvaluator'), ev('SurfaceEvaluator2')])
        bc1(m, run, [ev(c) for c in ('CurveEvaluator', 'SurfaceEvaluator')])
        rq1(m, run, ev('CurveEvaluatorRational'), 1)
        rq1(m, run, ev('SurfaceEvaluatorRational'), 2)
        a34(m, run, ev('CurveEvaluator2'), ev('SurfaceEvaluator2'))
    # tangents and normals are decided against a recording derivative table (TN3); the rules that read which cells are picked and how the
    # normalisation is spelt, and that the list variants call the single ones, corroborate
    n_tn = len(run.obs)
    try:
        _sd.tn3(m, run)
        _sd.sc2(m, run)        # hodograph control points go through the setters: stored as given
        _sd.vn2(m, run)        # ... and a normalised tangent / normal is v / |v| for every v (the real vector_normalize on symbolic vectors)
    except AnalysisError as ex:
        run.error(str(ex))
    tn_ok = len(run.obs) > n_tn and all(o.ok for o in run.obs[n_tn:])
    with run.corroborating(tn_ok, 'TN3', rules=('TN1.tangent-normal',), only=lambda o: o.rule in ('TN1.tangent-normal', 'TN2.list-variant-maps-single')):
        tn1(m, run)
    n2 = len(run.obs)
    _sd.pk3(m, run)
    pk_ok = all(o.ok for o in run.obs[n2:])
    with run.corroborating(pk_ok, 'PK3', rules=('PK1.deriv-cpts-positions', 'PK2.factor-equals-knot-index-distance')):
        pk1(m, run)
        pk2(m, run)
    funcs = [ev(c) for c in ('CurveEvaluator', 'CurveEvaluator2', 'SurfaceEvaluator', 'SurfaceEvaluator2')] + \
        [m.func('helpers.surface_deriv_cpts'), m.func('helpers.curve_deriv_cpts')]
    with run.corroborating(sem_ok and pk_ok, 'A36S/A34S/RQ2/PK3', rules=('LY1.canonical-stride',), only=lambda o: o.rule.startswith('LY1')):
        rl.ly1_canonical(m, run, funcs)
    ra.ax1_helper_calls(m, run, funcs + [m.func('helpers.basis_function_ders'), m.func('helpers.basis_function_all')])
    n1 = len(run.obs)
    _sd.hd3(m, run)
    hd_ok = all(o.ok for o in run.obs[n1:])
    with run.corroborating(hd_ok, 'HD3', rules=('HD1.hodograph-source', 'HD2.hodograph-keeps-parametrisation', 'HD4.hodograph-degrees', 'AXK.keyword-axis')):
        hodographs(m, run)
    from .. import skel_drivers as _sd
    _sd.c03_order(m, run)     # derivatives at a knot are taken from the right: the span search must return the span that starts there
    from .. import ops_common as oc
    oc.unit_range_rule(m, run, ('derivatives',))
    run.floor('RG2.no-unit-range-test-for-un-normalised-shapes', 2, 'Curve.derivatives, Surface.derivatives')
    # the quotient rules multiply by linalg.binomial_coefficient: closed form k!/(i!(k-i)!) or, for loop forms, no floored factor (shared with C16)
    from . import c16
    c16.check_binomial(m, run)
    for key, node in c16.floored_factor_findings(m.func('linalg.binomial_coefficient').node):
        run.ob('FD1.no-floored-factor', 'linalg.binomial_coefficient :: ' + key, False, 'a running product is multiplied by a floor-divided factor: floor(a/b)*c is not floor(a*c/b)', site(m.func('linalg.binomial_coefficient'), node))
    run.floor('AX6.table-order', 3, 'SKL writes in the two surface derivative evaluators')
    run.floor('RQ1.quotient-rule', 8, 'A4.2 (1 term) + A4.4 (3 terms) index sums and binomials')
    with run.corroborating(tn_ok, 'TN3', rules=('TN2.list-variant-maps-single',)):
        tn2(m, run)
    run.floor('TN1.tangent-normal', 5, 'tangent u/v, normal operands, normalisation')
    run.floor('LY1.canonical-stride', 2, 'SurfaceEvaluator.derivatives and surface_deriv_cpts')


# ---------------------------------------------------------------------------------------------- AX6
def ax6(m, run, funcs):
    for fi in funcs:
        sc = ra.scope_of(fi)
        ret = [n.value.id for n in walk_no_nested(fi.node) if isinstance(n, ast.Return) and isinstance(n.value, ast.Name)]
        if not ret:
            raise AnalysisError('%s: returned table not found' % fi.key)
        tbl = ret[0]
        for n in walk_no_nested(fi.node):
            tgt = None
            if isinstance(n, ast.Assign):
                tgt = n.targets[0]
            if tgt is None:
                continue
            b, chain = tgt, []
            while isinstance(b, ast.Subscript):
                chain.append(b.slice)
                b = b.value
            chain.reverse()
            if not (isinstance(b, ast.Name) and b.id == tbl and len(chain) >= 2):
                continue
            k, l = chain[0], chain[1]
            tk, tl = sc.int_tags(k, n), sc.int_tags(l, n)
            ok = tk == {0} and 1 in tl
            run.ob('AX6.table-order', '%s :: %s' % (fi.key, norm(tgt)[:40]), ok,
                   'first index is a u-order, second a v-order' if ok else
                   'derivative table written at [%s][%s] with directions %s / %s; the convention is [u-order][v-order]' % (norm(k), norm(l), ra.fmt(tk), ra.fmt(tl)),
                   site(fi, n))


# ---------------------------------------------------------------------------------------------- TN1
def tn1(m, run):
    fi = m.func('_operations.tangent_surface_single')
    want = {'vector_u': '[1][0]', 'vector_v': '[0][1]'}
    rets = [n for n in walk_no_nested(fi.node) if isinstance(n, ast.Return)]
    order = [norm(e.args[0]) if isinstance(e, ast.Call) and e.args else norm(e) for e in rets[0].value.elts] if rets and isinstance(rets[0].value, ast.Tuple) else []
    defs = {n.targets[0].id: n.value for n in walk_no_nested(fi.node) if isinstance(n, ast.Assign) and isinstance(n.targets[0], ast.Name)}
    skl = [k for k, v in defs.items() if isinstance(v, ast.Call) and isinstance(v.func, ast.Attribute) and v.func.attr == 'derivatives']
    if not skl or len(order) != 3:
        raise AnalysisError('tangent_surface_single: structure not recognised')
    skl = skl[0]
    for pos, which in ((1, '[1][0]'), (2, '[0][1]')):
        v = defs.get(order[pos])
        cells = {norm(x).replace(skl, '') for x in ast.walk(v) if isinstance(x, ast.Subscript) and isinstance(x.value, ast.Subscript) and norm(x.value.value) == skl} if v is not None else set()
        ok = cells == {which}
        run.ob('TN1.tangent-normal', '%s :: returned vector %d' % (fi.key, pos), ok,
               '%s-tangent is %s%s' % ('uv'[pos - 1], skl, which) if ok else 'the %s-tangent (position %d of the result) is built from %s, expected %s%s' % ('uv'[pos - 1], pos, sorted(cells), skl, which),
               site(fi))
        norm_ok = isinstance(v, ast.IfExp) and norm(v.test) == params_of(fi.node)[2] and isinstance(v.body, ast.Call) and norm(v.body.func).endswith('vector_normalize') \
            and norm(v.body.args[0]) == norm(v.orelse)
        run.ob('TN1.tangent-normal', '%s :: vector %d normalisation' % (fi.key, pos), norm_ok, 'vector_normalize(x) if normalize else x' if norm_ok else 'normalisation is not `vector_normalize(x) if normalize else x`', site(fi))
    # derivative order requested is 1 and the parameter pair is passed as (uv[0], uv[1])
    d = defs[skl]
    okc = [norm(a) for a in d.args] == ['%s[0]' % params_of(fi.node)[1], '%s[1]' % params_of(fi.node)[1], '1']
    run.ob('TN1.tangent-normal', fi.key + ' :: derivatives call', okc, 'derivatives(uv[0], uv[1], 1)' if okc else 'derivatives called with %s' % [norm(a) for a in d.args], site(fi))
    fn = m.func('_operations.normal_surface_single')
    cross = [c for c in walk_no_nested(fn.node) if isinstance(c, ast.Call) and norm(c.func).endswith('vector_cross')]
    ok = False
    if len(cross) == 1 and len(cross[0].args) == 2:
        cells = sorted(norm(a)[-6:] for a in cross[0].args)
        ok = cells == ['[0][1]', '[1][0]'] and len({norm(a.value.value) for a in cross[0].args if isinstance(a, ast.Subscript) and isinstance(a.value, ast.Subscript)}) == 1
    run.ob('TN1.tangent-normal', fn.key + ' :: cross product operands', ok, 'normal = S_u x S_v (the two distinct first partials)' if ok else
           'normal is not the cross product of the two distinct first partial derivatives: %s' % (norm(cross[0]) if cross else 'no vector_cross call'), site(fn))
    nz = [n for n in walk_no_nested(fn.node) if isinstance(n, ast.IfExp) and isinstance(n.body, ast.Call) and norm(n.body.func).endswith('vector_normalize')]
    run.ob('TN1.tangent-normal', fn.key + ' :: normalisation', len(nz) == 1 and norm(nz[0].test) == params_of(fn.node)[2], 'normalised on the normalize path', site(fn))
    fc = m.func('_operations.tangent_curve_single')
    dc = [n.value for n in walk_no_nested(fc.node) if isinstance(n, ast.Assign) and isinstance(n.value, ast.Call) and isinstance(n.value.func, ast.Attribute) and n.value.func.attr == 'derivatives']
    okc = bool(dc) and norm(dc[0].args[-1]) == '1' and any(norm(x).endswith('[1]') for x in ast.walk(fc.node) if isinstance(x, ast.Subscript))
    run.ob('TN1.tangent-normal', fc.key, okc, 'curve tangent is the first derivative ders[1]' if okc else 'curve tangent is not ders[1] of derivatives(u, 1)', site(fc))


def tn2(m, run):
    """the list variants are the map of the single-parameter variant over the parameter list (sibling agreement): they return, per
    parameter, the result of X_single(obj, parameter, normalize).  A list variant that computes its vectors itself is only
    checked for the clause that is visible in its shape: a cross product returned on the normalize path goes through vector_normalize."""
    n = 0
    for fi in sorted(m.functions_in('_operations'), key=lambda f: f.key):
        if not fi.name.endswith('_single_list'):
            continue
        sib = fi.name[:-5]
        ps = params_of(fi.node)
        calls = [c for c in walk_no_nested(fi.node) if isinstance(c, ast.Call) and isinstance(c.func, ast.Name) and c.func.id == sib]
        n += 1
        if calls:
            c = calls[0]
            args = [norm(a) for a in c.args] + [norm(k.value) for k in c.keywords]
            # the middle argument is bound by iterating the parameter list
            itervars = set()
            for x in walk_no_nested(fi.node):
                if isinstance(x, ast.For) and norm(x.iter) == ps[1] and isinstance(x.target, ast.Name):
                    itervars.add(x.target.id)
                if isinstance(x, ast.comprehension) and norm(x.iter) == ps[1] and isinstance(x.target, ast.Name):
                    itervars.add(x.target.id)
            ok = len(args) == 3 and args[0] == ps[0] and args[2] == ps[2] and args[1] in itervars
            run.ob('TN2.list-variant-maps-single', fi.key, ok, '%s(%s) for every parameter of %s' % (sib, ', '.join(args), ps[1]) if ok else
                   'the list variant calls %s(%s): expected (%s, <each element of %s>, %s)' % (sib, ', '.join(args), ps[0], ps[1], ps[2]), site(fi, c))
            continue
        cross = [c for c in walk_no_nested(fi.node) if isinstance(c, ast.Call) and norm(c.func).endswith('vector_cross')]
        nz = [c for c in walk_no_nested(fi.node) if isinstance(c, ast.Call) and norm(c.func).endswith('vector_normalize')]
        if cross and not nz:
            run.ob('TN2.list-variant-maps-single', fi.key, False,
                   'the list variant does not evaluate %s per parameter and returns a cross product that is never passed through vector_normalize: with normalize=True '
                   'the normal is not a unit vector (the single-parameter variant normalises)' % sib, site(fi, cross[0]))
            continue
        raise AnalysisError('%s: does not delegate to %s (unknown idiom)' % (fi.key, sib))
    if n < 3:
        raise AnalysisError('_operations: only %d list variants found' % n)


# ---------------------------------------------------------------------------------------------- BC1
def bc1(m, run, funcs):
    for fi in funcs:
        sc = ra.scope_of(fi)
        for c in [x for x in walk_no_nested(fi.node) if isinstance(x, ast.Call) and norm(x.func).endswith('basis_function_ders') and len(x.args) >= 5]:
            order = c.args[4]
            deg = c.args[0]
            # resolve the order expression to min(...) through locals / tuple element
            src = order
            idx = None
            if isinstance(src, ast.Subscript) and isinstance(src.value, ast.Name):
                idx = src.slice
                ds = sc.reaching(src.value.id, c)
                src = ds[0][1] if len(ds) == 1 else None
                if isinstance(src, ast.Tuple) and isinstance(idx, ast.Name):
                    mins = src.elts
                elif isinstance(src, ast.Tuple) and isinstance(idx, ast.Constant):
                    mins = [src.elts[idx.value]]
                else:
                    mins = []
            else:
                if isinstance(src, ast.Name):
                    ds = sc.reaching(src.id, c)
                    src = ds[0][1] if len(ds) == 1 else None
                mins = [src] if src is not None else []
            ok = bool(mins)
            for k, mn in enumerate(mins):
                good = isinstance(mn, ast.Call) and norm(mn.func) == 'min' and len(mn.args) == 2
                if good:
                    dargs = [a for a in mn.args if 'degree' in norm(a)]
                    good = len(dargs) == 1
                    if good and isinstance(src, ast.Tuple):
                        good = sc.int_tags(dargs[0], c) == {k}
                    elif good:
                        good = norm(dargs[0]) == norm(deg)
                ok = ok and good
            run.ob('BC1.order-bounded-by-degree', '%s :: %s' % (fi.key, norm(c)[:80]), ok,
                   'order argument is min(degree of the same direction, requested order)' if ok else
                   'order argument `%s` is not bounded by the degree of the call\'s direction: basis_function_ders allocates min(degree, order) + 1 rows but '
                   'its loops run to `order`' % norm(order), site(fi, c))
    run.floor('BC1.order-bounded-by-degree', 2, 'A3.2 and A3.6')


# ---------------------------------------------------------------------------------------------- RQ1
def rq1(m, run, fi, pdim):
    """every product  C(A, B) * W[..][-1] * D[..]  pairs complementary orders: index(W) + index(D) == target order, (A, B) == (order, index(W))"""
    sup = [n for n in walk_no_nested(fi.node) if isinstance(n, ast.Assign) and isinstance(n.value, ast.Call) and isinstance(n.value.func, ast.Attribute)
           and n.value.func.attr == 'derivatives' and 'super' in norm(n.value.func.value)]
    rets = [n.value.id for n in walk_no_nested(fi.node) if isinstance(n, ast.Return) and isinstance(n.value, ast.Name)]
    if not sup or not rets:
        raise AnalysisError('%s: weighted table / result table not found' % fi.key)
    W, D = sup[0].targets[0].id, rets[0]
    # target indices: outer loops writing D[k]([l])
    tgt = None
    for n in walk_no_nested(fi.node):
        if isinstance(n, ast.Assign) and isinstance(n.targets[0], ast.Subscript):
            b, chain = n.targets[0], []
            while isinstance(b, ast.Subscript):
                if not isinstance(b.slice, ast.Slice):
                    chain.append(b.slice)
                b = b.value
            chain.reverse()
            if isinstance(b, ast.Name) and b.id == D and len(chain) == pdim and all(isinstance(c, ast.Name) for c in chain):
                tgt = [c.id for c in chain]
                final = n
    if tgt is None:
        raise AnalysisError('%s: final assignment %s[k]%s[:] = ... not found' % (fi.key, D, '[l]' if pdim == 2 else ''))
    T = [Poly.atom(t) for t in tgt]
    n_terms = 0
    for mul in [x for x in walk_no_nested(fi.node) if isinstance(x, ast.BinOp) and isinstance(x.op, ast.Mult)]:
        # flatten product
        facs = []

        def flat(e):
            if isinstance(e, ast.BinOp) and isinstance(e.op, ast.Mult):
                flat(e.left)
                flat(e.right)
            else:
                facs.append(e)
        par = getattr(mul, '_sa_parent', None)
        if isinstance(par, ast.BinOp) and isinstance(par.op, ast.Mult):
            continue
        flat(mul)
        bins = [f for f in facs if isinstance(f, ast.Call) and norm(f.func).endswith('binomial_coefficient')]
        ws = [f for f in facs if isinstance(f, ast.Subscript) and norm(f.slice) == '-1']
        if not bins or not ws:
            continue
        w = ws[0]
        wb, wchain = w.value, []
        while isinstance(wb, ast.Subscript):
            wchain.append(wb.slice)
            wb = wb.value
        wchain.reverse()
        if not (isinstance(wb, ast.Name) and wb.id == W and len(wchain) == pdim):
            continue
        # the derivative factor: loop variable bound by zip(v, D[...]) inside the enclosing comprehension
        comp = mul
        while comp is not None and not isinstance(comp, ast.ListComp):
            comp = getattr(comp, '_sa_parent', None)
        dchain = None
        if comp is not None:
            z = comp.generators[0].iter
            if isinstance(z, ast.Call) and norm(z.func) == 'zip':
                for a in z.args:
                    b, ch = a, []
                    while isinstance(b, ast.Subscript):
                        ch.append(b.slice)
                        b = b.value
                    ch.reverse()
                    if isinstance(b, ast.Name) and b.id == D and len(ch) == pdim:
                        dchain = ch
        if dchain is None:
            continue
        n_terms += 1
        key = '%s :: %s' % (fi.key, norm(mul)[:70])
        try:
            wi = [to_poly(x) for x in wchain]
            di = [to_poly(x) for x in dchain]
            A, B = to_poly(bins[0].args[0]), to_poly(bins[0].args[1])
        except NotPoly:
            run.ob('RQ1.quotient-rule', key, False, 'indices not polynomial', site(fi, mul))
            continue
        sums_ok = all(wi[k] + di[k] == T[k] for k in range(pdim))
        # binomial pairs with the direction whose weight-derivative index is the summation variable
        bin_ok = any(A == T[k] and B == wi[k] and wi[k] != Poly() for k in range(pdim))
        run.ob('RQ1.quotient-rule', key + ' :: orders', sums_ok,
               'w^(%s) multiplies the point derivative of order (%s): sums equal the target (%s)' % (', '.join(map(repr, wi)), ', '.join(map(repr, di)), ', '.join(tgt)) if sums_ok else
               'weight derivative index (%s) and point derivative index (%s) do not add up to the target order (%s): the quotient rule pairs w^(i,j) with S^(k-i,l-j)'
               % (', '.join(map(repr, wi)), ', '.join(map(repr, di)), ', '.join(tgt)), site(fi, mul))
        run.ob('RQ1.quotient-rule', key + ' :: binomial', bin_ok,
               'C(%s, %s) matches the summation index of the weight derivative' % (A, B) if bin_ok else
               'binomial C(%s, %s) does not match (target order, weight-derivative index) of any direction' % (A, B), site(fi, mul))
    # final division by w^(0[,0]) and start value from the weighted table at the target order
    div = [x for x in ast.walk(final.value) if isinstance(x, ast.BinOp) and isinstance(x.op, ast.Div)]
    okd = bool(div) and norm(div[0].right) == '%s%s[-1]' % (W, '[0]' * pdim)
    run.ob('RQ1.quotient-rule', fi.key + ' :: divisor', okd, 'divided by the weight %s%s[-1]' % (W, '[0]' * pdim) if okd else 'result is not divided by the zeroth weight derivative', site(fi, final))
    # the accumulator is the local the final division reads
    accs = {x.id for x in ast.walk(final.value) if isinstance(x, ast.Name)} - {W, D} - set(tgt)
    start = [n for n in walk_no_nested(fi.node) if isinstance(n, ast.Assign) and isinstance(n.targets[0], ast.Name) and W in norm(n.value)
             and all(t in norm(n.value) for t in tgt) and n.targets[0].id in accs]
    oks = bool(start) and norm(start[0].value).replace(' ', '').find('%s[%s]' % (W, ']['.join(tgt))) >= 0
    run.ob('RQ1.quotient-rule', fi.key + ' :: start value', oks, 'starts from A^(%s) = %s[%s]' % (', '.join(tgt), W, ']['.join(tgt)) if oks else 'accumulator does not start from the weighted derivative of the target order', site(fi))
    if n_terms < (1 if pdim == 1 else 3):
        raise AnalysisError('%s: only %d quotient-rule terms recognised' % (fi.key, n_terms))
    # every sum of the quotient rule is a separate sum: between a consumption of an accumulator and its next accumulation the
    # accumulator is re-initialised on every path (otherwise the terms of one (k, l, i) leak into the next)
    from ..cfg import CFG
    cfg = CFG(fi.node)
    stmts = [n for n in walk_no_nested(fi.node) if isinstance(n, (ast.Assign, ast.AugAssign))]

    def reads(n, x):
        v = n.value
        return any(isinstance(y, ast.Name) and y.id == x and isinstance(y.ctx, ast.Load) for y in ast.walk(v))

    def written_name(n):
        t = n.targets[0] if isinstance(n, ast.Assign) else n.target
        whole = isinstance(t, ast.Name)
        if isinstance(t, ast.Subscript) and isinstance(t.slice, ast.Slice) and isinstance(t.value, ast.Name):
            t = t.value
        return (t.id, whole) if isinstance(t, ast.Name) else (None, False)
    names = {written_name(n)[0] for n in stmts} - {None, W, D}
    n_acc = 0
    for x in sorted(names):
        accs_ = [n for n in stmts if written_name(n)[0] == x and (reads(n, x) or isinstance(n, ast.AugAssign))]
        inits = [n for n in stmts if written_name(n) == (x, True) and not reads(n, x) and not isinstance(n, ast.AugAssign)]
        uses = [n for n in stmts if reads(n, x) and n not in accs_]
        if not accs_ or not inits or not uses:
            continue
        n_acc += 1
        init_nodes = [cfg.of[n] for n in inits if n in cfg.of]
        leak = None
        for u in uses:
            un = cfg.of.get(u)
            if un is None:
                continue
            seen = set()
            for sc_, lab in un.succ:
                seen |= cfg.reach_from(sc_, skip_nodes=init_nodes)
            for a in accs_:
                if cfg.of.get(a) in seen:
                    leak = (u, a)
        run.ob('RQ1.sums-restart', '%s :: accumulator %s' % (fi.key, x), leak is None,
               'every path from a consumption of `%s` to its next accumulation re-initialises it' % x if leak is None else
               '`%s` is consumed at line %d and accumulated again at line %d without being re-initialised in between: the terms of one sum leak into the next'
               % (x, leak[0].lineno, leak[1].lineno), site(fi, (leak[1] if leak else inits[0])))
    if n_acc < (1 if pdim == 1 else 2):
        raise AnalysisError('%s: only %d accumulators recognised' % (fi.key, n_acc))


# ---------------------------------------------------------------------------------------------- A34
def a34(m, run, fc, fs):
    """alternative evaluators: basis[d][x][degree[d] - y] * PKL[..]: x = function index position, y = order position of direction d"""
    for fi, pdim in ((fc, 1), (fs, 2)):
        n = 0
        for mul in [x for x in walk_no_nested(fi.node) if isinstance(x, ast.BinOp) and isinstance(x.op, ast.Mult)]:
            bsub = mul.left if isinstance(mul.left, ast.Subscript) else (mul.right if isinstance(mul.right, ast.Subscript) else None)
            if bsub is None:
                continue
            b, chain = bsub, []
            while isinstance(b, ast.Subscript):
                chain.append(b.slice)
                b = b.value
            chain.reverse()
            if not isinstance(b, ast.Name) or len(chain) != (2 if pdim == 1 else 3):
                continue
            d = 0 if pdim == 1 else (chain[0].value if isinstance(chain[0], ast.Constant) else None)
            if d is None:
                continue
            x, lvl = chain[-2], chain[-1]
            try:
                pl = to_poly(lvl)
            except NotPoly:
                continue
            sc_ = ra.scope_of(fi)
            atom_nodes = {norm(x): x for x in ast.walk(lvl) if isinstance(x, (ast.Subscript, ast.Name, ast.Attribute))}
            deg_atoms = [a for a in pl.atoms() if a in atom_nodes and 'degree' in str(sc_.api_origin(atom_nodes[a]))]
            if len(deg_atoms) != 1:
                continue
            y = Poly.atom(deg_atoms[0]) - pl          # the derivative order this factor belongs to
            n += 1
            key = '%s :: %s' % (fi.key, norm(bsub))
            sc0 = ra.scope_of(fi)
            dnode = [x for x in ast.walk(lvl) if isinstance(x, (ast.Subscript, ast.Name)) and norm(x) == deg_atoms[0]]
            okdeg = pdim == 1 or (bool(dnode) and sc0.int_tags(dnode[0], mul) == {d})
            # the loop of x runs over degree - y + 1 functions
            sc = ra.scope_of(fi)
            ds = sc.reaching(x.id, mul) if isinstance(x, ast.Name) else []
            okrng = False
            if len(ds) == 1 and isinstance(ds[0][1], ast.Call) and norm(ds[0][1].func) == 'range':
                a = ds[0][1].args
                try:
                    hi = to_poly(a[1] if len(a) >= 2 else a[0])
                    okrng = hi == Poly.atom(deg_atoms[0]) - y + 1
                except NotPoly:
                    pass
            # the companion PK/PKL subscript in the same accumulation: order y at position d, function index x at position pdim + d
            comp = mul
            while comp is not None and not isinstance(comp, ast.ListComp):
                comp = getattr(comp, '_sa_parent', None)
            okpos = False
            if comp is not None:
                z = comp.generators[0].iter
                stmt_nodes = list(ast.walk(comp))
                loopbody = comp
                while loopbody is not None and not isinstance(loopbody, ast.For):
                    loopbody = getattr(loopbody, '_sa_parent', None)
                cand = []
                scope_node = loopbody if loopbody is not None else fi.node
                outer = scope_node
                # look in the two enclosing loops for a PK/PKL subscript with 2*pdim indices
                up = getattr(scope_node, '_sa_parent', None)
                search = [scope_node] + ([up] if isinstance(up, ast.For) else [])
                for sn in search:
                    for s2 in ast.walk(sn):
                        if isinstance(s2, ast.Subscript):
                            bb, ch = s2, []
                            while isinstance(bb, ast.Subscript):
                                ch.append(bb.slice)
                                bb = bb.value
                            ch.reverse()
                            if isinstance(bb, ast.Name) and len(ch) == 2 * pdim and bb.id != b.id:
                                cand.append(ch)
                for ch in cand:
                    try:
                        if to_poly(ch[d]) == y and norm(ch[pdim + d]) == norm(x):
                            okpos = True
                    except NotPoly:
                        pass
            ok = okdeg and okrng and okpos
            run.ob('A34.alt-evaluator-pairing', key, ok,
                   'N[%s][p - %s] pairs with derivative control point (order %s, index %s) of direction %s over p - %s + 1 functions' % (norm(x), y, y, norm(x), 'uvw'[d], y) if ok else
                   'basis factor `%s`: degree atom ok=%s, loop over degree - order + 1 functions ok=%s, matching PK/PKL positions ok=%s' % (norm(bsub), okdeg, okrng, okpos),
                   site(fi, mul))
        if n < pdim:
            raise AnalysisError('%s: expected %d basis factors of the [function][degree - order] form, found %d' % (fi.key, pdim, n))


# ---------------------------------------------------------------------------------------------- PK1
def pk2(m, run):
    """PK2 (A3.3): P_i^(k) = (p - k + 1) / (U[i+p+1] - U[i+k]) * (P_{i+1}^(k-1) - P_i^(k-1)).  Internal consistency visible in the
    code: the scalar factor equals the index distance of the two knots in the denominator, (i + p + 1) - (i + k).  Both are compared
    in polynomial normal form after resolving the locals that stand for them."""
    fi = m.func('helpers.curve_deriv_cpts')
    defs = {}
    for a in walk_no_nested(fi.node):
        if isinstance(a, ast.Assign) and len(a.targets) == 1 and isinstance(a.targets[0], ast.Name):
            defs.setdefault(a.targets[0].id, []).append(a.value)

    def env(nm):
        d = defs.get(nm.id, [])
        return d[0] if len(d) == 1 and not isinstance(d[0], (ast.Call, ast.ListComp, ast.List)) else None
    n = 0
    for dv in [x for x in walk_no_nested(fi.node) if isinstance(x, ast.BinOp) and isinstance(x.op, ast.Div)]:
        den = dv.right
        if not (isinstance(den, ast.BinOp) and isinstance(den.op, ast.Sub) and isinstance(den.left, ast.Subscript) and isinstance(den.right, ast.Subscript)
                and norm(den.left.value) == norm(den.right.value)):
            continue
        num = dv.left
        facs = []

        def flat(e):
            if isinstance(e, ast.BinOp) and isinstance(e.op, ast.Mult):
                flat(e.left)
                flat(e.right)
            else:
                facs.append(e)
        flat(num)
        scal = [f for f in facs if not (isinstance(f, ast.BinOp) and isinstance(f.op, ast.Sub))]
        if len(scal) != 1:
            continue
        try:
            factor = to_poly(scal[0], env=env)
            dist = to_poly(den.left.slice, env=env) - to_poly(den.right.slice, env=env)
        except NotPoly:
            continue
        n += 1
        run.ob('PK2.factor-equals-knot-index-distance', '%s :: %s' % (fi.key, norm(dv)[:70]), factor == dist,
               'factor %s = index distance of the knots in the denominator' % factor if factor == dist else
               'the derivative control points are scaled by `%s` but divided by a knot difference spanning %s knot intervals: in A3.3 both are degree - k + 1'
               % (factor, dist), site(fi, dv))
    if n < 1:
        raise AnalysisError('curve_deriv_cpts: difference quotient not found')


def pk1(m, run):
    fi = m.func('helpers.surface_deriv_cpts')
    sc = ra.scope_of(fi)
    rets = [n.value.id for n in walk_no_nested(fi.node) if isinstance(n, ast.Return) and isinstance(n.value, ast.Name)]
    tbl = rets[0]
    n_ = 0
    for n in walk_no_nested(fi.node):
        if isinstance(n, ast.Assign) and isinstance(n.targets[0], ast.Subscript):
            b, chain = n.targets[0], []
            while isinstance(b, ast.Subscript):
                chain.append(b.slice)
                b = b.value
            chain.reverse()
            if not (isinstance(b, ast.Name) and b.id == tbl and len(chain) == 4):
                continue
            n_ += 1
            t = [sc.int_tags(c, n) for c in chain]
            ok = t[0] <= {0} and (1 in t[1] or not t[1]) and t[2] == {0} and t[3] == {1}
            run.ob('PK1.deriv-cpts-positions', '%s :: %s' % (fi.key, norm(n.targets[0])), ok,
                   'written at [u-order][v-order][u-index][v-index]' if ok else
                   'positions carry directions %s; the table is [u-order][v-order][u-index][v-index]' % [ra.fmt(x) for x in t], site(fi, n))
            # source cell: PKu[k][i] / PKuv[l][j] with the same order and index variables
            v = n.value
            if isinstance(v, ast.Subscript) and isinstance(v.value, ast.Subscript):
                so, si = norm(v.value.slice), norm(v.slice)
                srcname = norm(v.value.value)
                oku = (so in (norm(chain[0]), norm(chain[1]))) and (si in (norm(chain[2]), norm(chain[3])) or si in norm(chain[3]))
                run.ob('PK1.deriv-cpts-positions', '%s :: %s <- %s' % (fi.key, norm(n.targets[0])[:30], norm(v)), oku,
                       'copied from the 1-D derivative table at the same order and index' if oku else 'source cell %s does not use the order/index of the target cell' % norm(v), site(fi, n))
    if n_ < 2:
        raise AnalysisError('surface_deriv_cpts: PKL writes not found')
    # u-pass computes up to du orders, v-pass is applied to every u-order that the A3.8 consumer reads (0..du)
    loops = [l for l in fi.node.body if isinstance(l, ast.For)]
    if len(loops) >= 2:
        second = loops[1]
        try:
            hi = to_poly(second.iter.args[-1])
        except (NotPoly, IndexError):
            hi = None
        # consumer (SurfaceEvaluator2) reads PKL[k][l] for k in 0..d[0] and l in 0..dd; producers must cover k = du with l >= 1 only if dd >= 1 there
        run.extra['pk1_second_pass_range'] = repr(hi)


def hodographs(m, run):
    """derivative_curve / derivative_surface build their shapes from the derivative control point tables at the right orders"""
    fi = m.func('operations.derivative_curve')
    calls = [c for c in walk_no_nested(fi.node) if isinstance(c, ast.Call) and norm(c.func).endswith('curve_deriv_cpts')]
    ok = len(calls) == 1
    if ok:
        c = calls[0]
        kw = {k.arg: norm(k.value) for k in c.keywords}
        args = [norm(a) for a in c.args]
        txt = ' '.join(args + list(kw.values()))
        ok = 'obj.degree' in txt and 'obj.knotvector' in txt
    run.ob('HD1.hodograph-source', fi.key, ok, 'control points of the derivative come from curve_deriv_cpts on the curve\'s own degree and knot vector' if ok else 'derivative curve is not built from curve_deriv_cpts', site(fi))
    fs = m.func('operations.derivative_surface')
    calls = [c for c in walk_no_nested(fs.node) if isinstance(c, ast.Call) and norm(c.func).endswith('surface_deriv_cpts')]
    run.ob('HD1.hodograph-source', fs.key, len(calls) == 1, 'derivative surfaces come from surface_deriv_cpts', site(fs))
    # every derivative shape is parametrised like its input: a shape that receives (a slice of) the input's knot vector is a deep copy of
    # the input or is constructed with the input's normalisation setting; a default-constructed shape would re-normalise the knots to
    # [0, 1] and no longer give the derivative at the input's parameters
    n_h = 0
    for f in (fi, fs):
        prm = params_of(f.node)[0]
        created = {}
        for n in walk_no_nested(f.node):
            if isinstance(n, ast.Assign) and len(n.targets) == 1 and isinstance(n.targets[0], ast.Name) and isinstance(n.value, ast.Call):
                created.setdefault(n.targets[0].id, []).append(n)
        holders = {}
        for n in walk_no_nested(f.node):
            if isinstance(n, ast.Assign) and len(n.targets) == 1 and isinstance(n.targets[0], ast.Attribute) and n.targets[0].attr.startswith('knotvector') \
                    and isinstance(n.targets[0].value, ast.Name):
                holders.setdefault(n.targets[0].value.id, n)
        for who, at in sorted(holders.items()):
            ctor = created.get(who, [])
            if len(ctor) != 1:
                raise AnalysisError('%s: creation of `%s` not found' % (f.key, who))
            c = ctor[0].value
            is_copy = norm(c.func) in ('copy.deepcopy', 'deepcopy') and len(c.args) == 1 and norm(c.args[0]) == prm
            kw = kwarg(c, 'normalize_kv')
            keeps = kw is not None and prm in {x.id for x in ast.walk(kw) if isinstance(x, ast.Name)}
            n_h += 1
            run.ob('HD2.hodograph-keeps-parametrisation', '%s :: %s' % (f.key, who), is_copy or keeps,
                   '`%s` is %s' % (who, 'a deep copy of the input' if is_copy else 'constructed with the input\'s normalize_kv') if (is_copy or keeps) else
                   '`%s = %s` creates a shape with the default normalize_kv=True and then stores the input\'s knots in it: for an input built with normalize_kv=False '
                   'the derivative shape is re-parametrised onto [0, 1]' % (who, norm(c)[:40]), site(f, ctor[0]))
    if n_h < 4:
        raise AnalysisError('hodographs: only %d derivative shapes recognised' % n_h)
    # degrees of the hodographs: S_u has degree (p-1, q), S_v (p, q-1), S_uv (p-1, q-1); knot vectors drop one end knot in the differentiated direction
    sc = ra.scope_of(fs)
    ra.axk_keyword_suffix(m, run, [fs])
    for n in walk_no_nested(fs.node):
        if isinstance(n, ast.Assign) and len(n.targets) == 1 and isinstance(n.targets[0], ast.Attribute) and n.targets[0].attr in ('degree_u', 'degree_v') \
                and isinstance(n.targets[0].value, ast.Name):
            who = n.targets[0].value.id
            try:
                p = to_poly(n.value)
            except NotPoly:
                continue
            ax = n.targets[0].attr[-1]
            base = Poly.atom('obj.degree_' + ax)
            lowered = p == base - 1
            same = p == base
            # which directions does this hodograph differentiate? read from the PKL cell it takes its points from:  PKL[a][b]
            run.note('HD1', '%s.%s' % (who, n.targets[0].attr), 'degree %s' % p)
