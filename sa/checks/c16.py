"""C16 - linear-algebra routines: history independence and structural identities."""
import ast
from ..model import norm, AnalysisError, walk_no_nested, params_of
from ..pure import Purity, is_memoised
from ..alg import Subst, Undecidable, unwrap_float
from ..poly import Poly, NotPoly

DECIDES = ('history independence of linalg/_linalg: no function mutates a parameter (PU1), results of memoised functions are '
           'immutable or never mutated/stored by any caller in the package (PU4), no module state is written (PU5) - hence every '
           'result is a function of the arguments alone, for all interleavings of calls; matrix_pivot swaps the permutation and '
           'the matrix with the same index pairs over full rows inside the same guard (PV1); every consumer of a pivoted matrix '
           'also consumes its permutation or sign (PV2) and lu_factor applies P - not its transpose - to the right-hand side (PV3); single-expression identities in polynomial normal form: cross product, '
           'binomial coefficient, is_left, element-wise vector maps, dot product as accumulated product (AL*); the LU factorisation, pivoting and triangular solves compare no matrix entry with a non-zero literal: they are scale-free (SC1); the degenerate-interval test of linspace compares the absolute difference of its ends with its threshold, so decreasing sequences are generated like increasing ones (TOL1).')
NOT_DECIDED = ('matrices larger than 3 x 3 (the exact rules enumerate 3 x 3 systems), the choice of the pivot row itself (comparisons of magnitudes), '
               'solvability for diagonally dominant / collocation matrices, floating-point accuracy (e.g. factorial quotients).')
DECIDES += (' [ABSTRACT INTERPRETATION, exact] LA3: on symbolic 3 x 3 matrices (rational-function arithmetic) doolittle gives L unit lower, U upper, L U = A for the '
            'dense matrix and all 42 patterns of up to three structural zeros; forward / backward substitution solve their triangular systems; lu_solve, lu_factor (every '
            'pivot permutation), matrix_inverse and matrix_determinant satisfy A x = b, A A^-1 = I and the Leibniz formula; FD2: the binomial is not truncated from a float quotient.')

MODS = ('linalg', '_linalg')
DECIDES += (' PV4: matrix_pivot, which touches entries only through abs() and comparisons, interpreted on one matrix of every weak order of the column magnitudes (n = 1..3, ties, zero columns): P is a permutation matrix, the result is P A with maximal pivots, the sign is the signature, the input is untouched.')
DECIDES += (' VN2: vector_normalize / vector_magnitude on symbolic vectors.')


def site(fi, node):
    return 'geomdl/%s.py:%s in %s' % (fi.mod, getattr(node, 'lineno', '?'), fi.key)


def sc1(m, run):
    """the factorisation and the triangular solves are scale-free: A x = b and (cA) x = (cb) have the same solution, so no matrix entry
    is compared with a non-zero numeric literal (an absolute pivot threshold treats a well-conditioned matrix with small entries as singular)"""
    names = ('_linalg.doolittle', 'linalg.lu_decomposition', 'linalg.lu_solve', 'linalg.lu_factor', 'linalg.forward_substitution',
             'linalg.backward_substitution', 'linalg.matrix_inverse', 'linalg.matrix_determinant', 'linalg.matrix_pivot')
    n = 0
    for key in names:
        fi = m.func(key)
        n += 1
        bad = None
        # locals that hold (a function of) a matrix entry: pivot = matrix_u[i][i]; a_abs = abs(mp[i][j]); ...
        entry_locals = set()
        changed = True
        is_entry = lambda e: any((isinstance(y, ast.Subscript) and isinstance(y.value, ast.Subscript)) or (isinstance(y, ast.Name) and y.id in entry_locals) for y in ast.walk(e))
        while changed:
            changed = False
            for a_ in walk_no_nested(fi.node):
                if isinstance(a_, ast.Assign) and len(a_.targets) == 1 and isinstance(a_.targets[0], ast.Name) and a_.targets[0].id not in entry_locals and is_entry(a_.value):
                    entry_locals.add(a_.targets[0].id)
                    changed = True
        for c in walk_no_nested(fi.node):
            if isinstance(c, ast.Compare):
                sides = [c.left] + list(c.comparators)
                lits = [x for x in sides if isinstance(x, ast.Constant) and isinstance(x.value, (int, float)) and not isinstance(x.value, bool) and x.value != 0]
                entries = [x for x in sides if is_entry(x)]
                if lits and entries:
                    bad = c
        run.ob('SC1.scale-free', key, bad is None, 'no matrix entry is compared with a non-zero literal' if bad is None else
               '`%s` compares a matrix entry with an absolute threshold: a non-singular matrix whose entries are below it is treated as singular '
               '(the result must not depend on the scale of the system)' % norm(bad)[:60], site(fi, bad if bad is not None else fi.node))
    return n


def pv3(m, run, piv):
    """matrix_pivot returns (P A, P): row i of the pivoted matrix is the row j of A with P[i][j] = 1.  A right-hand side is permuted the
    same way: P b as the product matrix_multiply(P, b) (P first), or row-wise with the permuted index on the SOURCE side
    (bp[i] = b[j(i)]); writing b[i] to position j(i) applies the inverse permutation, which differs for cycles longer than 2."""
    fi = m.func('linalg.lu_factor')
    ps = params_of(fi.node)
    rhs = ps[1]
    pname = None
    for n in walk_no_nested(fi.node):
        if isinstance(n, ast.Assign) and isinstance(n.value, ast.Call) and m.resolve_callable(fi.mod, n.value.func) is piv and isinstance(n.targets[0], ast.Tuple):
            pname = n.targets[0].elts[1].id if len(n.targets[0].elts) > 1 and isinstance(n.targets[0].elts[1], ast.Name) else None
    if pname is None:
        raise AnalysisError('lu_factor: permutation matrix of matrix_pivot not bound')
    verdict = None
    where = fi.node
    for n in walk_no_nested(fi.node):
        if isinstance(n, ast.Call) and norm(n.func).endswith('matrix_multiply') and len(n.args) == 2 and {norm(a) for a in n.args} == {pname, rhs}:
            verdict = (norm(n.args[0]) == pname, 'matrix_multiply(%s, %s)' % (norm(n.args[0]), norm(n.args[1])))
            where = n
        if isinstance(n, ast.Assign) and isinstance(n.targets[0], ast.Subscript) and isinstance(n.value, ast.Subscript) and norm(n.value.value) == rhs:
            t_uses = any(isinstance(x, ast.Name) and x.id == pname for x in ast.walk(n.targets[0].slice))
            s_uses = any(isinstance(x, ast.Name) and x.id == pname for x in ast.walk(n.value.slice))
            if t_uses or s_uses:
                verdict = (s_uses and not t_uses, norm(n)[:70])
                where = n
    if verdict is None:
        raise AnalysisError('lu_factor: application of the permutation to the right-hand side not recognised')
    run.ob('PV3.rhs-permuted-like-the-matrix', fi.key, verdict[0], '%s applies P to the right-hand side' % verdict[1] if verdict[0] else
           '`%s` applies the transpose (inverse) of the permutation to the right-hand side: correct for single swaps only, wrong whenever pivoting '
           'produces a cycle of three or more rows' % verdict[1], site(fi, where))


def pu4(m, run, P=None):
    P = P or Purity(m)
    # ---------------------------------------------------------------- PU4 memoised results
    memo = [fi for fi in m.funcs.values() if is_memoised(fi.node)]
    if len(memo) < 2:
        raise AnalysisError('fewer than 2 lru_cache functions found in the package')
    all_summ = {}
    for fi in m.funcs.values():
        if fi.kind in ('function', 'method', 'setter', 'getter', 'nested'):
            try:
                all_summ[fi.key] = P.summary(fi)
            except RecursionError:
                run.note('PU4', fi.key, 'summary recursion limit')
    for mf in memo:
        rets = [n for n in walk_no_nested(mf.node) if isinstance(n, ast.Return) and n.value is not None]
        immut = all(returns_immutable(r.value, mf.node) for r in rets) and bool(rets)
        root = 'memo:' + mf.key
        muts = [(k, mu) for k, s in all_summ.items() for mu in s.mutations if mu.root == root and ' via callee ' not in mu.how
                and not mu.how.startswith('via callee')]
        ok = immut or not muts
        detail = 'returns an immutable value' if immut else (
            'returns a mutable object but no caller mutates it (%d callers scanned)' % len(all_summ) if ok else
            'memoised function returns a shared mutable object which %s mutates at `%s` (%s): later calls see the modified value'
            % (muts[0][0], norm(muts[0][1].node)[:80], muts[0][1].how))
        run.ob('PU4.memo-result-immutable', mf.key, ok, detail, site(muts[0][1].func, muts[0][1].node) if muts else '')
        # memoised bodies must themselves be pure functions of the arguments
        s = all_summ.get(mf.key)
        impure = [n for n in walk_no_nested(mf.node) if isinstance(n, ast.Name) and isinstance(n.ctx, ast.Load) and
                  (mf.mod, n.id) in m.modassign and isinstance(m.modassign[(mf.mod, n.id)], (ast.List, ast.Dict))]
        run.ob('PU4.memo-body-pure', mf.key, not impure and not (s and s.mutations),
               'reads mutable module state `%s`' % impure[0].id if impure else 'body depends on its arguments only')


def pv2(m, run, piv=None):
    piv = piv or m.func('linalg.matrix_pivot')
    # ---------------------------------------------------------------- PV2 pivot companions
    n_cons = 0
    for fi in m.funcs.values():
        for n in walk_no_nested(fi.node):
            if isinstance(n, ast.Assign) and isinstance(n.value, ast.Call):
                tgt = m.resolve_callable(fi.mod, n.value.func)
                if tgt is piv and isinstance(n.targets[0], ast.Tuple):
                    n_cons += 1
                    names = [t.id if isinstance(t, ast.Name) else None for t in n.targets[0].elts]
                    loads = {x.id for x in walk_no_nested(fi.node) if isinstance(x, ast.Name) and isinstance(x.ctx, ast.Load)}
                    used_m = names[0] in loads
                    companions = [nm for nm in names[1:] if nm]
                    used_c = [nm for nm in companions if nm in loads]
                    ok = (not used_m) or bool(used_c)
                    run.ob('PV2.pivot-companion', '%s :: %s' % (fi.key, norm(n)), ok,
                           'the row-permuted matrix `%s` is used but neither the permutation nor its sign (%s) is: results refer to the '
                           'permuted system, e.g. the right-hand side is never permuted' % (names[0], companions) if not ok else
                           'permuted matrix used together with %s' % used_c, site(fi, n))


def pv5(m, run, piv=None):
    """PV5: the routines that are specified as LU with partial pivoting (lu_factor, and the inverse and determinant built on it) reach a
    call of matrix_pivot on every path to a normal return.  Exact arithmetic cannot tell a factorisation without row exchanges from one
    with them (both satisfy A x = b exactly whenever no pivot is zero); in floating point the first loses every digit on a tiny pivot, so
    the row exchange is what makes 'the result satisfies A x = b' true - a necessary structural condition, decided on the CFG"""
    from ..cfg import CFG
    piv = piv or m.func('linalg.matrix_pivot')
    n = 0
    for key in ('linalg.lu_factor', 'linalg.matrix_inverse', 'linalg.matrix_determinant'):
        if key not in m.funcs:
            continue
        fi = m.func(key)
        calls = [c_ for c_ in walk_no_nested(fi.node) if isinstance(c_, ast.Call) and isinstance(c_.func, (ast.Name, ast.Attribute)) and m.resolve_callable(fi.mod, c_.func) is piv]
        # a routine that delegates the whole job to another pivoting routine on every path is fine too
        deleg = [c_ for c_ in walk_no_nested(fi.node) if isinstance(c_, ast.Call) and isinstance(c_.func, (ast.Name, ast.Attribute))
                 and getattr(m.resolve_callable(fi.mod, c_.func), 'key', None) in ('linalg.lu_factor', 'linalg.matrix_inverse') and m.resolve_callable(fi.mod, c_.func) is not fi]
        marks = calls + deleg
        cfg = CFG(fi.node)
        ok = bool(marks) and cfg.must_pass(lambda nd: any(x is mk for mk in marks for x in ast.walk(nd.ast)))
        n += 1
        run.ob('PV5.pivoting-on-every-path', fi.key, ok, 'every path to a result exchanges rows through matrix_pivot (or a routine that does)' if ok else
               'a path returns a result without passing through matrix_pivot: with a tiny (non-zero) leading entry the factorisation divides by it and the computed '
               'solution no longer satisfies A x = b (e.g. [[1e-20, 1], [1, 1]])', site(fi, marks[0] if marks else None))
    if n < 1:
        raise AnalysisError('PV5: no pivoting routine found')


def check(m, run):
    sc1(m, run)
    from . import c09
    c09.tol_two_sided(m, run, [m.func('linalg.linspace'), m.func('linalg.vector_is_zero'), m.func('linalg.point_mid')] if 'linalg.point_mid' in m.funcs else [m.func('linalg.linspace')])
    run.floor('TOL1.two-sided-tolerance', 1, 'degenerate-interval test of linspace')
    P = Purity(m)
    funcs = [fi for mod in MODS for fi in m.functions_in(mod) if fi.kind == 'function']
    if len(funcs) < 30:
        raise AnalysisError('only %d module-level functions found in linalg/_linalg (expected >= 30)' % len(funcs))
    # ---------------------------------------------------------------- PU1 / PU5
    for fi in funcs:
        s = P.summary(fi)
        mp = [mu for mu in s.mutations if mu.root.startswith('param:')]
        if mp and fi.name.startswith('_') and fi.mod == 'linalg':
            # a private helper that works on the lists it is handed is judged where it is called: the mutation is part of every caller's
            # summary (via callee) and reported there when what the caller hands over is one of *its* parameters
            run.note('PU1.no-param-mutation', fi.key, 'private helper mutates %s; accounted for in the summaries of its callers' % mp[0].root)
            mp = []
        run.ob('PU1.no-param-mutation', fi.key, not mp,
               '; '.join('%s mutated by %s at `%s`' % (mu.root, mu.how, norm(mu.node)[:70]) for mu in mp[:3]) or 'no parameter is mutated',
               site(fi, mp[0].node) if mp else '')
        mg = [mu for mu in s.mutations if mu.root.startswith('global:')]
        run.ob('PU5.no-module-state', fi.key, not mg,
               '; '.join('%s: %s at `%s`' % (mu.root, mu.how, norm(mu.node)[:70]) for mu in mg[:3]) or 'no module-level state written',
               site(fi, mg[0].node) if mg else '')
    pu4(m, run, P)
    # ---------------------------------------------------------------- PV1 paired swap in matrix_pivot
    piv = m.func('linalg.matrix_pivot')
    # row pivoting is decided on one matrix of every order type of the column magnitudes (PV4); the rule that reads how the two swaps are
    # spelt corroborates
    from .. import skel_drivers as _sdp
    n_pv = len(run.obs)
    try:
        _sdp.pv4(m, run)
    except AnalysisError as ex:
        run.error(str(ex))
    pv_ok = len(run.obs) > n_pv and all(o.ok for o in run.obs[n_pv:])
    with run.corroborating(pv_ok, 'PV4', rules=('PV1.paired-swap', 'PV1.full-row-swap', 'PV1.permutation-starts-as-identity')):
        check_pivot(m, run, piv)
    pv2(m, run, piv)
    n_la4 = len(run.obs)
    _sdp.la4(m, run)       # determinant, inverse and pivoted solve on every non-singular 0/1 matrix up to 3 x 3, exactly; matrix_pivot is reached every time
    la4_ok = all(o.ok for o in run.obs[n_la4:])
    with run.corroborating(la4_ok, 'LA4', rules=('PV5.pivoting-on-every-path',)):
        pv5(m, run, piv)
    run.floor('PV2.pivot-companion', 3, 'matrix_inverse, matrix_determinant, lu_factor')
    # the LU kernels are decided exactly on symbolic matrices (LA3); the rule that reads how lu_factor spells the permutation corroborates
    from .. import skel_drivers as _sd
    n0 = len(run.obs)
    try:
        _sd.la3(m, run)
        la_ok = all(o.ok for o in run.obs[n0:])
    except AnalysisError as ex:
        run.error(str(ex))
        la_ok = False
    with run.corroborating(la_ok, 'LA3', rules=('PV3.rhs-permuted-like-the-matrix',)):
        pv3(m, run, piv)
    # ---------------------------------------------------------------- AL identities
    # the vector / matrix helpers are decided on symbolic operands (VH2); the rules that read the returned display / the element maps corroborate
    n_vh = len(run.obs)
    try:
        _sd.vh2(m, run)
        _sd.vn2(m, run)
    except AnalysisError as ex:
        run.error(str(ex))
    vh_ok = len(run.obs) > n_vh and all(o.ok for o in run.obs[n_vh:])
    with run.corroborating(vh_ok, 'VH2', rules=('AL1.cross-product', 'AL4.element-map')):
        check_cross(m, run)
        check_elementwise(m, run)
    check_binomial(m, run)
    rnd1(m, run)
    check_is_left(m, run, 'AL3.is-left')
    # ---------------------------------------------------------------- DV1 zero guards test the divisor
    for fi in funcs:
        for key, ok, detail, node in zero_guard_findings(fi.node):
            run.ob('DV1.zero-guard-tests-divisor', '%s :: %s' % (fi.key, key), ok, detail, site(fi, node))
    # positive control (the pinned tree guards divisions with try/except ZeroDivisionError, i.e. zero instances)
    ctl = ast.parse('def f(a, u, l, i, k):\n    if a[i][i] == 0:\n        l[k][i] = 0.0\n    else:\n        l[k][i] /= float(u[i][i])\n').body[0]
    hits = [x for x in zero_guard_findings(ctl) if not x[1]]
    if len(hits) != 1:
        raise AnalysisError('DV1 positive control not reported: rule is broken')
    run.extra.setdefault('positive_controls', []).append('DV1: synthetic wrong-variable zero guard reported as expected')
    # ---------------------------------------------------------------- FD1 running products never floor a single factor
    for fi in funcs:
        for key, node in floored_factor_findings(fi.node):
            run.ob('FD1.no-floored-factor', '%s :: %s' % (fi.key, key), False,
                   'a running product is multiplied by a floor-divided factor: floor(a/b) * c is not floor(a*c/b); the quotient of products must be taken on the whole product',
                   site(fi, node))
    ctl = ast.parse('def f(k, i):\n    r = 1\n    for j in range(i):\n        r *= (k - j) // (j + 1)\n    return r\n').body[0]
    if len(floored_factor_findings(ctl)) != 1:
        raise AnalysisError('FD1 positive control not reported: rule is broken')
    run.ob('FD1.no-floored-factor', 'linalg/_linalg', True, '%d functions scanned; positive control reported' % len(funcs))
    run.floor('PU1.no-param-mutation', 30, 'functions of linalg/_linalg')
    run.floor('PU4.memo-result-immutable', 5, 'five lru_cache functions on the pinned tree')


def floored_factor_findings(fn):
    out = []
    for n in walk_no_nested(fn):
        val = None
        if isinstance(n, ast.AugAssign) and isinstance(n.op, ast.Mult):
            val = n.value
        elif isinstance(n, ast.Assign) and isinstance(n.value, ast.BinOp) and isinstance(n.value.op, ast.Mult) and len(n.targets) == 1 \
                and isinstance(n.targets[0], ast.Name) and any(isinstance(x, ast.Name) and x.id == n.targets[0].id for x in (n.value.left, n.value.right)):
            val = n.value.right if isinstance(n.value.left, ast.Name) and n.value.left.id == n.targets[0].id else n.value.left
        if val is not None and isinstance(val, ast.BinOp) and isinstance(val.op, ast.FloorDiv) and not isinstance(val.right, ast.Constant):
            inloop = False
            p = n
            while p is not None:
                if isinstance(p, (ast.For, ast.While)):
                    inloop = True
                p = getattr(p, '_sa_parent', None)
            out.append((norm(n)[:70], n))
    return out


def truncated_quotient_findings(fn):
    """FD2: a whole number is recovered from floating-point arithmetic by truncation: int(x) / math.floor(x) / math.trunc(x) / x // 1 where
    x is (the local accumulator of) a product or sum that involves a true division of non-literal operands and no round() lies in
    between.  The float result of an exact integer quantity may sit one ulp below the integer; truncation then loses 1."""
    inexact = set()
    changed = True

    def rounds(c):
        """round(x) or the floor(x + 0.5) idiom: the nearest whole number, whatever the last bit of x"""
        if not isinstance(c, ast.Call):
            return False
        if norm(c.func) == 'round':
            return True
        if norm(c.func) in ('math.floor', 'floor', 'int') and len(c.args) == 1 and isinstance(c.args[0], ast.BinOp) and isinstance(c.args[0].op, ast.Add):
            a = c.args[0]
            return any(isinstance(s_, ast.Constant) and s_.value == 0.5 for s_ in (a.left, a.right))
        return False

    def expr_inexact(e):
        if rounds(e):
            return False
        for x in ast.walk(e):
            under_round, p = False, x
            while p is not None and p is not e:
                p = getattr(p, '_sa_parent', None)
                if p is not None and rounds(p):
                    under_round = True
            if under_round:
                continue
            if isinstance(x, ast.BinOp) and isinstance(x.op, ast.Div) and not (isinstance(x.left, ast.Constant) and isinstance(x.right, ast.Constant)):
                return True
            if isinstance(x, ast.Name) and x.id in inexact:
                return True
        return False
    while changed:
        changed = False
        for n in walk_no_nested(fn):
            tgt = val = None
            if isinstance(n, ast.Assign) and len(n.targets) == 1 and isinstance(n.targets[0], ast.Name):
                tgt, val = n.targets[0].id, n.value
            elif isinstance(n, ast.AugAssign) and isinstance(n.target, ast.Name):
                tgt, val = n.target.id, n.value
                if isinstance(n.op, ast.Div) and tgt not in inexact:
                    inexact.add(tgt)
                    changed = True
            if tgt and tgt not in inexact and val is not None and expr_inexact(val):
                inexact.add(tgt)
                changed = True
    out = []
    for n in walk_no_nested(fn):
        arg = None
        if isinstance(n, ast.Call) and norm(n.func) in ('int', 'math.floor', 'math.trunc', 'floor', 'trunc') and len(n.args) == 1 and not rounds(n):
            arg = n.args[0]
        elif isinstance(n, ast.BinOp) and isinstance(n.op, ast.FloorDiv) and isinstance(n.right, ast.Constant) and n.right.value == 1:
            arg = n.left
        if arg is not None and expr_inexact(arg):
            out.append((norm(n)[:70], n))
    return out


def sample_count_getters(m, run):
    """FD2 on the sample-size getters: the number of samples is recovered from 1 / delta, which is a float that may sit one ulp below
    the whole number the setter was given; every getter rounds (round / floor(x + 0.5)), none truncates - otherwise the tuple handed to the
    evaluators and the per-direction getters disagree about the grid size"""
    n = 0
    for ck, ci in sorted(m.classes.items()):
        if ck[0] != 'abstract':
            continue
        for name, fi in sorted(ci.getters.items()):
            if not name.startswith('sample_size'):
                continue
            n += 1
            bad = truncated_quotient_findings(fi.node)
            run.ob('FD2.no-truncated-float-quotient', fi.key + ' (getter)', not bad, 'the count is rounded to the nearest whole number' if not bad else
                   '`%s` truncates the float quotient 1 / delta: a sample size n stored as delta = 1 / n reads back as n - 1 whenever 1 / (1 / n) lands below n '
                   '(first at n = 49), while the sibling getters round' % bad[0][0], site(fi, bad[0][1]) if bad else '')
    if n < 6:
        raise AnalysisError('FD2: only %d sample_size getters found' % n)


def zero_guard_findings(fn):
    """`if E == 0: ... else: x / D` (or `if E != 0: x / D`): the guarded branch divides, so E must be one of its divisors"""
    out = []
    for n in walk_no_nested(fn):
        if not isinstance(n, ast.If) or not isinstance(n.test, ast.Compare) or len(n.test.ops) != 1:
            continue
        op, l, r = n.test.ops[0], n.test.left, n.test.comparators[0]
        if not isinstance(op, (ast.Eq, ast.NotEq)):
            continue
        if isinstance(r, ast.Constant) and r.value in (0, 0.0) and not isinstance(r.value, bool):
            e = l
        elif isinstance(l, ast.Constant) and l.value in (0, 0.0) and not isinstance(l.value, bool):
            e = r
        else:
            continue
        e = strip_num(e)
        if isinstance(e, ast.Call):     # len(x) == 0 etc. are not zero-divisor guards
            continue
        branch = n.orelse if isinstance(op, ast.Eq) else n.body
        divisors = []
        for st in branch:
            for x in ast.walk(st):
                if isinstance(x, ast.BinOp) and isinstance(x.op, (ast.Div, ast.FloorDiv, ast.Mod)):
                    divisors.append(strip_num(x.right))
                if isinstance(x, ast.AugAssign) and isinstance(x.op, (ast.Div, ast.FloorDiv, ast.Mod)):
                    divisors.append(strip_num(x.value))
        if not divisors:
            continue
        ok = any(norm(d) == norm(e) for d in divisors)
        out.append(('if %s' % norm(n.test), ok, 'the non-zero branch divides by %s%s' % (
            sorted({norm(d) for d in divisors}), '' if ok else ' but the guard tests `%s`: a zero divisor is not excluded' % norm(e)), n))
    return out


def strip_num(e):
    while isinstance(e, ast.Call) and isinstance(e.func, ast.Name) and e.func.id in ('float', 'int', 'abs') and len(e.args) == 1:
        e = e.args[0]
    return e


def returns_immutable(e, fn):
    e0 = e
    if isinstance(e, ast.Call) and isinstance(e.func, ast.Name) and e.func.id in ('float', 'int', 'bool', 'str', 'tuple', 'abs', 'round'):
        if e.func.id == 'tuple':
            return False
        return True
    if isinstance(e, ast.Constant):
        return True
    if isinstance(e, (ast.BinOp, ast.UnaryOp, ast.Compare)):
        return True
    if isinstance(e, ast.Name):
        defs = [n.value for n in walk_no_nested(fn) if isinstance(n, ast.Assign) and any(isinstance(t, ast.Name) and t.id == e.id for t in n.targets)]
        aug = [n for n in walk_no_nested(fn) if isinstance(n, ast.AugAssign) and isinstance(n.target, ast.Name) and n.target.id == e.id]
        return bool(defs) and all(returns_immutable(d, fn) for d in defs) and all(
            not isinstance(a.value, (ast.List, ast.ListComp)) for a in aug)
    return False


def check_pivot(m, run, piv):
    fn = piv.node
    swaps = []
    for n in walk_no_nested(fn):
        if isinstance(n, ast.Assign) and isinstance(n.targets[0], ast.Tuple) and isinstance(n.value, ast.Tuple) \
                and len(n.targets[0].elts) == 2 and len(n.value.elts) == 2:
            a, b = n.targets[0].elts
            c, d = n.value.elts
            if norm(a) == norm(d) and norm(b) == norm(c) and isinstance(a, ast.Subscript):
                base = a
                idx = []
                while isinstance(base, ast.Subscript):
                    idx.append(norm(base.slice))
                    base = base.value
                base2 = b
                idx2 = []
                while isinstance(base2, ast.Subscript):
                    idx2.append(norm(base2.slice))
                    base2 = base2.value
                if isinstance(base, ast.Name) and isinstance(base2, ast.Name) and base.id == base2.id:
                    swaps.append((base.id, tuple(reversed(idx)), tuple(reversed(idx2)), n))
    rets = [r for r in walk_no_nested(fn) if isinstance(r, ast.Return) and isinstance(r.value, ast.Tuple)]
    if not rets or not swaps:
        raise AnalysisError('matrix_pivot: no tuple return / no swap statement recognised (unknown idiom)')
    ret_names = [x.id if isinstance(x, ast.Name) else None for x in rets[-1].value.elts[:2]]
    by = {}
    for name, i1, i2, n in swaps:
        by.setdefault(name, []).append((frozenset([i1, i2]), n))
    key = piv.key + ' :: row swap'
    ok = all(nm in by for nm in ret_names)
    run.ob('PV1.paired-swap', key + ' both', ok, 'swaps found for %s; returned (matrix, permutation) = %s' % (sorted(by), ret_names), site(piv, swaps[0][3]))
    if ok:
        a, b = by[ret_names[0]], by[ret_names[1]]
        same = {x[0] for x in a} == {x[0] for x in b}
        run.ob('PV1.paired-swap', key + ' same index pairs', same,
               'matrix swaps %s, permutation swaps %s' % (sorted(map(sorted, {x[0] for x in a})), sorted(map(sorted, {x[0] for x in b}))),
               site(piv, a[0][1]))
        pa = getattr(a[0][1], '_sa_parent', None)
        pb = getattr(b[0][1], '_sa_parent', None)
        run.ob('PV1.paired-swap', key + ' same guard', pa is pb, 'both swaps are statements of the same block', site(piv, a[0][1]))
        # full-row loop: the column variable ranges over range(n) with n == len(matrix)
        loop = pa if isinstance(pa, ast.For) else None
        okr = False
        why = 'swap is not inside a column loop'
        if loop is not None and isinstance(loop.iter, ast.Call) and isinstance(loop.iter.func, ast.Name) and loop.iter.func.id == 'range':
            args = loop.iter.args
            lo = args[0] if len(args) >= 2 else ast.Constant(0)
            hi = args[1] if len(args) >= 2 else args[0]
            sub = Subst(fn)
            try:
                plo, phi = sub.poly(lo), sub.poly(hi)
                hi_txt = repr(phi)
                okr = plo == Poly.const(0) and hi_txt.startswith('len(') and len(phi.t) == 1 and len(args) <= 2 and \
                    any(nm and nm in hi_txt for nm in ret_names + params_of(fn))
                why = 'column loop is range(%s, %s)' % (plo, phi)
            except NotPoly:
                why = 'loop bounds not polynomial'
        run.ob('PV1.full-row-swap', key + ' column range', okr, why + (' (must cover every column 0..n-1 of the rows being exchanged)' if not okr else ''),
               site(piv, loop) if loop is not None else '')
    # the copy: the matrix that is swapped must be a deep copy of the parameter (PU1 covers mutation; here: permutation starts as identity)
    sub = Subst(fn)
    d = sub.definition(ret_names[1]) if ret_names[1] else None
    dn = unwrap_calls(d)
    run.ob('PV1.permutation-starts-as-identity', piv.key, dn is not None and 'matrix_identity' in dn,
           'permutation initialised as `%s`' % norm(d))


def unwrap_calls(e):
    return norm(e) if e is not None else None


def check_cross(m, run):
    fi = m.func('linalg.vector_cross')
    ps = params_of(fi.node)
    sub = Subst(fi.node, assume_len={ps[0]: 3, ps[1]: 3})
    rets = sub.returned()
    key = fi.key + ' :: a x b'
    try:
        val = rets[-1].value
        if not sub.closed_form(val):
            run.note('AL1.cross-product', key, 'result depends on loop-carried locals: identity not decidable in this form (not an obligation)')
            return
        if isinstance(val, ast.Name):
            val = sub.definition(val.id)
        if not isinstance(val, (ast.List, ast.Tuple)) or len(val.elts) != 3:
            run.note('AL1.cross-product', key, 'not a 3-element literal: identity not decidable in this form (not an obligation)')
            return
        got = [sub.poly(unwrap_float(x)) for x in val.elts]
    except (NotPoly, Undecidable, IndexError) as ex:
        run.note('AL1.cross-product', key, 'not decidable: %s' % ex)
        return
    A = [Poly.atom('%s[%d]' % (ps[0], k)) for k in range(3)]
    B = [Poly.atom('%s[%d]' % (ps[1], k)) for k in range(3)]
    want = [A[1] * B[2] - A[2] * B[1], A[2] * B[0] - A[0] * B[2], A[0] * B[1] - A[1] * B[0]]
    for k in range(3):
        run.ob('AL1.cross-product', '%s component %d' % (key, k), got[k] == want[k], 'got %s, definition %s' % (got[k], want[k]), site(fi, rets[-1]))


def check_binomial(m, run):
    fi = m.func('linalg.binomial_coefficient')
    for key_, node_ in truncated_quotient_findings(fi.node):
        run.ob('FD2.no-truncated-float-quotient', '%s :: %s' % (fi.key, key_), False,
               'a whole number is recovered from a floating-point quotient by truncation: the product of k-j+1 / j factors can land one ulp below the integer '
               '(first at C(11, 5)) and int() then returns one less; round, or keep the arithmetic in integers', site(fi, node_))
    ctl_ = ast.parse('def f(k, i):\n    r = 1.0\n    for j in range(1, i + 1):\n        r *= float(k - j + 1) / float(j)\n    return float(int(r))\n').body[0]
    for x_ in ast.walk(ctl_):
        for c_ in ast.iter_child_nodes(x_):
            c_._sa_parent = x_
    if len(truncated_quotient_findings(ctl_)) != 1:
        raise AnalysisError('FD2 positive control not reported: rule is broken')
    run.ob('FD2.no-truncated-float-quotient', fi.key, True, 'no truncation of a floating-point quotient; positive control reported')
    # the value on integers is decided by exact interpretation (BN2); the rule that reads the closed form of the return corroborates
    from .. import skel_drivers as _sdb
    n_bn = len(run.obs)
    try:
        _sdb.bn2(m, run)
    except AnalysisError as ex:
        run.error(str(ex))
    bn_ok = len(run.obs) > n_bn and all(o.ok for o in run.obs[n_bn:])
    with run.corroborating(bn_ok, 'BN2', rules=('AL2.binomial',)):
        _binomial_closed_form(m, run, fi)


def _binomial_closed_form(m, run, fi):
    ps = params_of(fi.node)
    k, i = ps[0], ps[1]
    sub = Subst(fi.node)
    rets = [r for r in sub.returned()]
    main = [r for r in rets if not is_zero_const(r.value)]
    key = fi.key + ' :: k!/(i!(k-i)!)'
    if len(main) != 1 or not sub.closed_form(main[0].value):
        run.note('AL2.binomial', key, 'not a single closed-form return (loop form): identity not decidable, not an obligation')
        return
    try:
        got = sub.poly(unwrap_float(main[0].value))
    except (NotPoly, Undecidable) as ex:
        run.note('AL2.binomial', key, 'not decidable: %s' % ex)
        return
    def fact(arg):
        return Poly.atom('math.factorial(%s)' % arg)
    want_atoms = {'math.factorial(%s)' % k: 1}
    # expected: fact(k) * inv(fact(k - i) * fact(i))
    den = fact(repr(Poly.atom(k) - Poly.atom(i))) * fact(i)
    want = fact(k) * Poly.atom('inv(%s)' % repr(den))
    alt = fact(k) * Poly.atom('inv(%s)' % repr(fact(i))) * Poly.atom('inv(%s)' % repr(fact(repr(Poly.atom(k) - Poly.atom(i)))))
    run.ob('AL2.binomial', key, got == want or got == alt, 'got %s, definition %s' % (got, want), site(fi, main[0]))
    # guard i > k -> 0
    z = [r for r in rets if is_zero_const(r.value)]
    run.ob('AL2.binomial', fi.key + ' :: zero above the diagonal', bool(z), 'returns 0 for i > k' if z else 'no zero branch for i > k')


def is_zero_const(e):
    e = unwrap_float(e)
    return isinstance(e, ast.Constant) and e.value in (0, 0.0)


def check_is_left(m, run, rule):
    fi = m.func('linalg.is_left')
    ps = params_of(fi.node)
    sub = Subst(fi.node)
    rets = sub.returned()
    key = fi.key + ' :: (p1-p0) x (p2-p0)'
    if not rets or not sub.closed_form(rets[-1].value):
        run.note(rule, key, 'not a closed-form return: not decidable (no obligation)')
        return
    try:
        got = sub.poly(rets[-1].value)
    except (NotPoly, Undecidable, IndexError) as ex:
        run.note(rule, key, 'not decidable: %s' % ex)
        return
    a = lambda p, c: Poly.atom('%s[%d]' % (p, c))
    p0, p1, p2 = ps
    want = (a(p1, 0) - a(p0, 0)) * (a(p2, 1) - a(p0, 1)) - (a(p2, 0) - a(p0, 0)) * (a(p1, 1) - a(p0, 1))
    run.ob(rule, key, got == want, 'got %s' % got if got != want else 'equals the 2-D cross product of the edge and the point vector', site(fi, rets[-1]))


def check_elementwise(m, run):
    """element maps of comprehension-defined vector helpers and the dot-product accumulator"""
    specs = {
        'linalg.vector_multiply': lambda v, s: v * s,
        'linalg.vector_sum': None,
        'linalg.matrix_scalar': None,
    }
    # vector_multiply: [v * scalar for v in vector_in]
    fi = m.func('linalg.vector_multiply')
    ps = params_of(fi.node)
    em = element_map(fi.node)
    if em is None:
        run.note('AL4.element-map', fi.key, 'not a single comprehension: not decidable')
    else:
        elt, binds = em
        ok = len(binds) == 1 and binds[0][1] == ps[0]
        got = Subst(fi.node, elem_alias={}).poly(elt) if ok else None
        want = Poly.atom(binds[0][0]) * Poly.atom(ps[1]) if ok else None
        run.ob('AL4.element-map', fi.key + ' :: v -> v*s', ok and got == want, 'element map %s over %s' % (got, [b[1] for b in binds]), site(fi, fi.node))
    # vector_sum: [v1 + coeff*v2 for v1, v2 in zip(vector1, vector2)]
    fi = m.func('linalg.vector_sum')
    ps = params_of(fi.node)
    em = element_map(fi.node)
    if em is None:
        run.note('AL4.element-map', fi.key, 'not a single comprehension: not decidable')
    else:
        elt, binds = em
        ok = [b[1] for b in binds] == ps[:2]
        got = Subst(fi.node).poly(elt) if ok else None
        want = Poly.atom(binds[0][0]) + Poly.atom(ps[2]) * Poly.atom(binds[1][0]) if ok else None
        run.ob('AL4.element-map', fi.key + ' :: v1 + c*v2', ok and got == want, 'element map %s over zip%s' % (got, tuple(b[1] for b in binds)), site(fi, fi.node))
    # point_translate
    fi = m.func('linalg.point_translate')
    ps = params_of(fi.node)
    em = element_map(fi.node)
    if em is not None:
        elt, binds = em
        ok = [b[1] for b in binds] == ps[:2]
        got = Subst(fi.node).poly(elt) if ok else None
        want = Poly.atom(binds[0][0]) + Poly.atom(binds[1][0]) if ok else None
        run.ob('AL4.element-map', fi.key + ' :: p + v', ok and got == want, 'element map %s' % got, site(fi, fi.node))
    # vector_dot: acc = 0; for a, b in zip(v1, v2): acc += a*b; return acc
    fi = m.func('linalg.vector_dot')
    ps = params_of(fi.node)
    acc = accumulator(fi.node)
    if acc is None:
        run.note('AL5.dot-accumulator', fi.key, 'accumulator idiom not recognised: not decidable')
    else:
        init, term, binds = acc
        ok = [b[1] for b in binds] == ps[:2] and init in (0, 0.0)
        got = Subst(fi.node).poly(term) if ok else None
        want = Poly.atom(binds[0][0]) * Poly.atom(binds[1][0]) if ok else None
        run.ob('AL5.dot-accumulator', fi.key + ' :: sum a*b', ok and got == want, 'init %r, term %s over zip%s' % (init, got, tuple(b[1] for b in binds)), site(fi, fi.node))


def element_map(fn):
    """(elt expr, [(loop var, iterated param)]) for `return [elt for vars in zip(params)]` (possibly via one local)"""
    rets = [n for n in walk_no_nested(fn) if isinstance(n, ast.Return) and n.value is not None]
    if len(rets) != 1:
        return None
    v = rets[0].value
    if isinstance(v, ast.Name):
        defs = [n.value for n in walk_no_nested(fn) if isinstance(n, ast.Assign) and any(isinstance(t, ast.Name) and t.id == v.id for t in n.targets)]
        if len(defs) != 1:
            return None
        v = defs[0]
    if isinstance(v, ast.Call) and isinstance(v.func, ast.Name) and v.func.id in ('list', 'tuple') and v.args:
        v = v.args[0]
    if not isinstance(v, (ast.ListComp, ast.GeneratorExp)) or len(v.generators) != 1 or v.generators[0].ifs:
        return None
    g = v.generators[0]
    binds = loop_binds(g.target, g.iter)
    if binds is None:
        return None
    return v.elt, binds


def loop_binds(target, it):
    if isinstance(target, ast.Name) and isinstance(it, ast.Name):
        return [(target.id, it.id)]
    if isinstance(target, ast.Tuple) and isinstance(it, ast.Call) and isinstance(it.func, ast.Name) and it.func.id == 'zip' \
            and len(target.elts) == len(it.args) and all(isinstance(t, ast.Name) for t in target.elts) \
            and all(isinstance(a, ast.Name) for a in it.args):
        return [(t.id, a.id) for t, a in zip(target.elts, it.args)]
    return None


def accumulator(fn):
    loops = [n for n in fn.body if isinstance(n, ast.For)]
    if len(loops) != 1:
        return None
    lp = loops[0]
    if len(lp.body) != 1 or not isinstance(lp.body[0], ast.AugAssign) or not isinstance(lp.body[0].op, ast.Add) \
            or not isinstance(lp.body[0].target, ast.Name):
        return None
    acc = lp.body[0].target.id
    inits = [n.value for n in fn.body if isinstance(n, ast.Assign) and any(isinstance(t, ast.Name) and t.id == acc for t in n.targets)]
    rets = [n for n in fn.body if isinstance(n, ast.Return)]
    if len(inits) != 1 or not isinstance(inits[0], ast.Constant) or len(rets) != 1 or not isinstance(rets[0].value, ast.Name) \
            or rets[0].value.id != acc:
        return None
    binds = loop_binds(lp.target, lp.iter)
    if binds is None:
        return None
    return inits[0].value, lp.body[0].value, binds


# ---------------------------------------------------------------------------------------------- RND1: evenly spaced samples reach their end point exactly
def rounding_order_findings(fn):
    """samples of an evenly spaced sequence: with the loop index x running up to the divisor n, `(x * delta) / n` is exactly `delta` at
    x = n whenever n * delta is exact (unit and small integer intervals - the knot vector generators use [0, 1]), and so is
    `delta * (x / n)`; but `x * (delta / n)` multiplies the index by an *already rounded* quotient and misses the end point for many n
    (49, 98, 103, ... on [0, 1]), and a running sum of that quotient drifts further.  Findings: (node, text) for every product of an
    index-dependent factor with an index-independent quotient, and every accumulation of an index-independent quotient in a loop."""
    idx = set()
    for n in ast.walk(fn):
        if isinstance(n, ast.comprehension) and isinstance(n.target, ast.Name) and isinstance(n.iter, ast.Call) and norm(n.iter.func) in ('range', 'xrange'):
            idx.add(n.target.id)
        if isinstance(n, ast.For) and isinstance(n.target, ast.Name) and isinstance(n.iter, ast.Call) and norm(n.iter.func) in ('range', 'xrange'):
            idx.add(n.target.id)
    defs = {}
    for n in walk_no_nested(fn):
        if isinstance(n, ast.Assign) and len(n.targets) == 1 and isinstance(n.targets[0], ast.Name):
            defs.setdefault(n.targets[0].id, []).append(n.value)
    # a re-binding of a name to a conversion of itself (start = float(start)) is not a definition to follow
    for k in list(defs):
        defs[k] = [v for v in defs[k] if not any(isinstance(x, ast.Name) and x.id == k for x in ast.walk(v))]

    def expand(e, seen=()):
        """the expression with single-assignment locals replaced by their definitions"""
        if isinstance(e, ast.Name) and e.id not in idx and e.id not in seen and len(defs.get(e.id, [])) == 1 and len(seen) < 8:
            return expand(defs[e.id][0], seen + (e.id,))
        return e

    def strip(e):
        e = expand(e)
        for _ in range(8):
            if isinstance(e, ast.Call) and isinstance(e.func, ast.Name) and e.func.id == 'float' and len(e.args) == 1:
                e = expand(e.args[0])
            else:
                break
        return e

    def uses_index(e, seen=()):
        e = strip(e)
        for x in ast.walk(e):
            if isinstance(x, ast.Name):
                if x.id in idx:
                    return True
                if x.id not in seen and len(defs.get(x.id, [])) == 1 and len(seen) < 8 and uses_index(defs[x.id][0], seen + (x.id,)):
                    return True
        return False

    def rounded_quotient(e):
        """an index-independent division (possibly wrapped / a local holding one)"""
        e = strip(e)
        return isinstance(e, ast.BinOp) and isinstance(e.op, ast.Div) and not uses_index(e)
    out = []
    for n in ast.walk(fn):
        if isinstance(n, ast.BinOp) and isinstance(n.op, ast.Mult):
            for a, b in ((n.left, n.right), (n.right, n.left)):
                if uses_index(a) and rounded_quotient(b):
                    out.append((n, '`%s`: the index is multiplied by the quotient `%s`, which is rounded before the multiplication' % (norm(n)[:70], norm(strip(b))[:50])))
                    break
        if isinstance(n, ast.AugAssign) and isinstance(n.op, ast.Add) and rounded_quotient(n.value):
            p = getattr(n, '_sa_parent', None)
            while p is not None and not isinstance(p, (ast.For, ast.While)):
                p = getattr(p, '_sa_parent', None)
            if p is not None:
                out.append((n, '`%s`: a running sum of the rounded quotient `%s`' % (norm(n)[:70], norm(strip(n.value))[:50])))
    return out


def rnd1(m, run):
    fi = m.func('linalg.linspace')
    f = rounding_order_findings(fi.node)
    run.ob('RND1.product-before-quotient', fi.key, not f,
           'no sample multiplies the index by a pre-rounded step: the last sample of a unit interval is exactly the end point' if not f else
           '%s - the last sample then misses `stop` for many sample counts (e.g. 0.9999999999999999 instead of 1.0 for 50 samples of [0, 1]): a clamped knot vector '
           'generated from it has one end knot too few' % f[0][1], site(fi, f[0][0] if f else None))
    # positive control: the two spellings that must be reported, and the two that must not
    for src, want in (('def f(a, b, n):\n    step = (b - a) / float(n - 1)\n    return [a + float(x) * step for x in range(n)]\n', 1),
                      ('def f(a, b, n):\n    step = (b - a) / (n - 1)\n    v = a\n    out = []\n    for x in range(n):\n        out.append(v)\n        v += step\n    return out\n', 1),
                      ('def f(a, b, n):\n    d = b - a\n    return [a + float(x) * float(d) / float(n - 1) for x in range(n)]\n', 0),
                      ('def f(a, b, n):\n    d = b - a\n    return [a + d * (x / float(n - 1)) for x in range(n)]\n', 0)):
        t = ast.parse(src).body[0]
        for x_ in ast.walk(t):
            for c_ in ast.iter_child_nodes(x_):
                c_._sa_parent = x_
        if len(rounding_order_findings(t)) != want:
            raise AnalysisError('RND1 control not as expected (%d findings wanted): rule is broken' % want)
