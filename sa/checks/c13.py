"""C13 - one control-net layout convention across all modules (structural property)."""
import ast
from ..model import norm, AnalysisError, walk_no_nested, params_of
from ..poly import Poly
from .. import rules_axis as ra
from .. import rules_layout as rl
from .. import layout
from .. import layout_drivers as ld
from ..layout import Interp, Sym, Lay, Obj, Fresh, Prealloc

DECIDES = ('every multi-direction subscript of a canonical flat array in the package uses the strides 1 / Sv / Su*Sv of the array\'s own '
           'object (LY1, package-wide), and the control point managers return that index (LY1); the layout of every temporary follows from '
           'its construction order and matches its consumers: gather -> helper -> scatter in insert/remove/refine, both flip helpers (contracts '
           'derived from their bodies and compared with the documented ones), the 2-D grid view setter (LY1/LY2/LY3 by abstract interpretation '
           'over symbolic sizes, so Su, Sv, Sw are distinct atoms); construct_surface (2 directions), construct_volume (3 directions), '
           'extract_curves, extract_surfaces (3 planes) and transpose induce a single-valued map target direction -> source direction through '
           'net positions, sizes, degrees and knot vectors (AX4) and their final flat list has the declared extents in canonical order (LY3); '
           'sizes are passed to set_ctrlpts in (u, v, w) order everywhere (LY3p); flip is the full reversal applied to the stored view (FL1); '
           'sweep_vector passes (input, translate) in this order along a direction whose degree admits two sections (AG8). the 2-D grid view is filled with the point lists of the object\'s own flat array - nothing that may alias an argument is stored in either view (ES1, may-alias analysis), so ctrlpts2d[u][v] and ctrlpts[v + Sv*u] stay one object. insert / remove / refine are additionally decided on abstract nets (OPS2, see C04-C06), so the symbolic rules cannot raise an alarm on a re-spelling of these three functions that OPS2 accepts. the control point managers return the canonical flat index for every position of a box of pairwise different sizes (MG2, integer-exact interpretation, whichever class of the hierarchy implements find_index).')
NOT_DECIDED = 'that reconstruction evaluates identically also needs C01; nothing structural is left out on the listed functions. Functions the interpreter cannot resolve are reported as notes, never as passes of a claimed obligation.'
TECHNIQUE = 'abstract interpretation of list layouts over symbolic sizes (polynomial extents, direction labels), stride rule, axis-map coherence'
DECIDES += (" [ABSTRACT INTERPRETATION] OPS2: insert / remove / refine on abstract nets with index-labelled points; MG2: the managers' index formula on integer boxes; EX2: extract_curves on an abstract surface returns per family the rows, degree and knot vector of its own direction and each option switches off its own family only; CV3: the flip converters cell by cell.")
DECIDES += (" TP2: operations.transpose interpreted together with the real degree / net / knot setters on nets where one direction has fewer points than the other's degree + 1: no setter rejects an intermediate state, and degrees, sizes, knots and points are exchanged; SW2: sweep_vector through the real accessors keeps class, degree, knots and weights of the section; KD5 / GV2: the 2-D view [u][v] of a surface is the very list stored at v + size_v * u.")

PKG = ('evaluators', 'helpers', 'operations', 'construct', 'control_points', 'compatibility', 'BSpline', 'NURBS', 'abstract', '_exchange', 'exchange',
       'fitting', 'utilities', '_tessellate', 'sweeping', 'multi', 'trimming', '_operations', 'convert', '_convert')
DOC_CONTRACT = {'flip_ctrlpts_u': 'u-fastest', 'flip_ctrlpts': 'canonical'}
DECIDES += (' CS2: construct_surface / construct_volume on sections and results of the real classes, every stacking direction, B-spline and rational: per-direction degree / knots / size, every control point and its weight is the section point the stacking prescribes. MG2 builds the manager by its own constructor chain.')


def site(fi, node=None):
    return 'geomdl/%s.py:%s in %s' % (fi.mod, getattr(node or fi.node, 'lineno', '?'), fi.key)


def check(m, run):
    funcs = [fi for fi in m.funcs.values() if fi.mod in PKG]
    # insert / remove / refine: decided on abstract nets first (OPS2); the symbolic-size rules corroborate for these three functions only
    from .. import skel_drivers as _sd
    OPSF = ('operations.insert_knot', 'operations.remove_knot', 'operations.refine_knotvector')
    n0 = len(run.obs)
    _sd.ops2(m, run, 'insert_knot', 'knot_insertion', 1)
    _sd.ops2(m, run, 'remove_knot', 'knot_removal', -1)
    _sd.ops2(m, run, 'refine_knotvector', 'knot_refinement', 1)
    sem_ok = all(o.ok for o in run.obs[n0:])
    ops_funcs = [fi for fi in funcs if fi.key in OPSF]
    other = [fi for fi in funcs if fi.key not in OPSF]
    summ, contracts = layout.flip_summaries(m)
    with run.corroborating(sem_ok, 'OPS2', rules=('LY1.canonical-stride', 'LY3.sizes-in-axis-order', 'LY1.index-matches-layout', 'LY3.list-matches-declared-sizes', 'AX4.axis-map-single-valued')):
        rl.ly1_canonical(m, run, ops_funcs)
        ra.ly3_positional_sizes(m, run, ops_funcs)
        for f in ('insert_knot', 'remove_knot', 'refine_knotvector'):
            ld.ops_blocks(m, run, f, summ)
    _check_syntactic(m, run, other, summ, contracts)


def _check_syntactic(m, run, funcs, summ, contracts):
    from .. import skel_drivers as _sd
    # how set_ctrlpts of a surface fills the 2-D view is decided on real surfaces (KD5 / GV2: [u][v] of the view is the point stored at
    # v + size_v * u); the stride rule corroborates for that method and decides the others
    kd_keys = ('BSpline.Surface.set_ctrlpts',)
    n_kd = len(run.obs)
    _sd.kd5(m, run)
    kd_ok = all(o.ok for o in run.obs[n_kd:])
    with run.corroborating(kd_ok, 'KD5/GV2', rules=(), only=lambda o: o.rule.startswith('LY1')):
        rl.ly1_canonical(m, run, [f for f in funcs if f.key in kd_keys])
    # the evaluators are decided on symbolic nets (EVX for evaluate, A36S / A34S for derivatives): the stride rule corroborates there
    ev_funcs = [f for f in funcs if f.mod == 'evaluators']
    n_ev = len(run.obs)
    if ev_funcs:
        _sd.evx(m, run)
        _sd.a36s(m, run)
        _sd.a34s(m, run)
    ev_ok = bool(ev_funcs) and all(o.ok for o in run.obs[n_ev:])
    with run.corroborating(ev_ok, 'EVX/A36S/A34S', rules=(), only=lambda o: o.rule.startswith('LY1')):
        rl.ly1_canonical(m, run, ev_funcs)
    n = rl.ly1_canonical(m, run, [f for f in funcs if f.key not in kd_keys and f.mod != 'evaluators'])
    n1 = len(run.obs)
    _sd.mg2(m, run)
    mg_ok = all(o.ok for o in run.obs[n1:])
    with run.corroborating(mg_ok, 'MG2', rules=('LY1.index-matches-layout',)):
        for c in ('SurfaceManager', 'VolumeManager'):
            rl.ly1_index_formula(m, run, m.func('control_points.%s.find_index' % c), 'self')
    run.floor('LY1.canonical-stride', 27, 'canonical stride sites of the pinned tree')
    ra.ly3_positional_sizes(m, run, funcs)
    run.floor('LY3.sizes-in-axis-order', 50, 'set_ctrlpts call sites with per-direction sizes')
    for name, (accepts, ret) in contracts.items():
        ok = accepts == DOC_CONTRACT[name]
        run.ob('LY2.flip-contract', 'compatibility.%s :: derived contract' % name, ok,
               'index arithmetic is consistent for a %s input and returns %s (as documented)' % (accepts, ret) if ok else
               'the body accepts a %s list, the documented contract is %s' % (accepts, DOC_CONTRACT[name]), site(m.func('compatibility.' + name)))
    # construction from sections is decided on sections and results built by the real classes, with exact points and weights (CS2); the
    # symbolic-size interpretation of construct_surface / construct_volume corroborates
    n_cs = len(run.obs)
    try:
        _sd.cs2(m, run)
    except AnalysisError as ex:
        run.error(str(ex))
    cs_ok = len(run.obs) > n_cs and all(o.ok for o in run.obs[n_cs:])
    with run.corroborating(cs_ok, 'CS2', rules=('LY3.weights-follow-points',)):
        ld.construct_rules(m, run, summ)
    # the surfaces extracted from a volume are decided on a labelled volume with surfaces of the real classes (EX4); the symbolic-size
    # interpretation of extract_surfaces corroborates
    n_ex4 = len(run.obs)
    try:
        _sd.ex4(m, run)
    except AnalysisError as ex:
        run.error(str(ex))
    ex4_ok = len(run.obs) > n_ex4 and all(o.ok for o in run.obs[n_ex4:])
    with run.corroborating(ex4_ok, 'EX4', rules=()):
        ld.extract_rules(m, run, summ)
    n2 = len(run.obs)
    _sd.ex2(m, run)
    ex_ok = all(o.ok for o in run.obs[n2:])
    with run.corroborating(ex_ok, 'EX2', rules=('AX4.axis-map-single-valued', 'LY1.index-matches-layout')):
        ld.extract_curves_rules(m, run, summ)
    n3 = len(run.obs)
    _sd.ec2(m, run)        # extracted shapes are independent objects
    gv_ok = kd_ok and all(o.ok for o in run.obs[n3:])
    with run.corroborating(gv_ok, 'KD5/GV2', rules=('LY2.grid-view', 'LY1.canonical-stride', 'LY3.list-matches-declared-sizes')):
        grid_view(m, run, summ)
    from . import c09
    c09.no_escape(m, run)     # the 2-D grid view holds the very point lists of the flat array (never the caller's): edits through one view reach the other
    transpose_checks(m, run, summ)
    # the 2-D flip and the surface flip are decided on labelled grids / real surfaces (FL3); the rules that read the cell assignment and
    # the reversal idiom corroborate
    n_fl = len(run.obs)
    try:
        _sd.fl3(m, run)
    except AnalysisError as ex:
        run.error(str(ex))
    fl_ok = len(run.obs) > n_fl and all(o.ok for o in run.obs[n_fl:])
    with run.corroborating(fl_ok, 'FL3', rules=('FL1.flip', 'LY2.flip2d')):
        flip_rule(m, run)
        flip2d_rule(m, run)
    # sweeping is decided on recorder curves (SW2) and on real curves and surfaces up to the constructed result (SW3); the rule that reads
    # the two construct calls corroborates
    n_sw = len(run.obs)
    _sd.sw2(m, run)
    try:
        _sd.sw3(m, run)
    except AnalysisError as ex:
        run.error(str(ex))
    sw_ok = len(run.obs) > n_sw and all(o.ok for o in run.obs[n_sw:])
    with run.corroborating(sw_ok, 'SW2/SW3', rules=('AG8.sweep',)):
        sweep_rule(m, run)
    _sd.ws5(m, run)       # sweeping and construction go through the rational accessors of all three classes: the three views agree, warm and cold (WS5, shared with C09)
    df1(m, run)
    run.floor('LY1.index-matches-layout', 40, 'index reads checked by the LAYOUT interpreter')
    run.floor('LY3.list-matches-declared-sizes', 24, 'set_ctrlpts / constructed nets checked by the LAYOUT interpreter')
    run.floor('AX4.axis-map-single-valued', 20, 'construct (2 + 3 directions), extract (3 planes + 2), transpose')


def transpose_checks(m, run, summ):
    """transposition is decided by interpreting operations.transpose together with the real property setters on abstract surfaces (TP2);
    the rule that reads the statement order of the pinned spelling corroborates"""
    from .. import skel_drivers as _sd
    n0 = len(run.obs)
    _sd.tp2(m, run)
    ok = all(o.ok for o in run.obs[n0:])
    with run.corroborating(ok, 'TP2', rules=('AX4.transpose-protocol', 'AX4.axis-map-single-valued', 'LY3.list-matches-declared-sizes')):
        transpose_rule(m, run, summ)


def grid_view(m, run, summ):
    """BSpline.Surface.ctrlpts2d setter: value[u][v] -> flat list -> set_ctrlpts(flat, size_u, size_v);
    BSpline.Surface.set_ctrlpts: the 2-D view is rebuilt as [i][j] = flat[j + i*Sv]"""
    fi = m.cls('BSpline', 'Surface').setters.get('ctrlpts2d')
    if fi is None:
        raise AnalysisError('BSpline.Surface.ctrlpts2d setter not found')
    val = params_of(fi.node)[1]
    eu, ev_ = Poly.atom('in.Su'), Poly.atom('in.Sv')
    it = Interp(fi.key, {val: Lay([[('in.u', eu)], [('in.v', ev_)]]), 'self': Obj('self', 2, labels=['in.u', 'in.v'])}, summ)
    it.run(fi.node.body)
    ld.emit(run, fi, it, '')
    lys = [c for c in it.checked if c[0] == 'LY3']
    if not lys:
        raise AnalysisError('ctrlpts2d setter: set_ctrlpts call not resolved by the interpreter')
    gi = m.cls('BSpline', 'Surface').methods.get('set_ctrlpts')
    rl.ly1_canonical(m, run, [gi])
    # 2-D rebuild: ctrlpts_float2d[i][j] = self._control_points[j + i * self.ctrlpts_size_v], i over size_u, j over size_v
    sc = ra.scope_of(gi)
    ok = False
    for n in walk_no_nested(gi.node):
        if isinstance(n, ast.Assign) and isinstance(n.targets[0], ast.Subscript) and isinstance(n.targets[0].value, ast.Subscript):
            i, j = n.targets[0].value.slice, n.targets[0].slice
            ti, tj = sc.int_tags(i, n), sc.int_tags(j, n)
            ok = ti == {0} and tj == {1}
            run.ob('LY2.grid-view', gi.key + ' :: ' + norm(n.targets[0]), ok,
                   '2-D view is indexed [u][v]' if ok else '2-D view cell [%s][%s] is indexed with directions %s / %s; the view is [u][v]' % (norm(i), norm(j), ra.fmt(ti), ra.fmt(tj)),
                   site(gi, n))
    if not ok and not any(o.rule == 'LY2.grid-view' for o in run.obs):
        raise AnalysisError('BSpline.Surface.set_ctrlpts: 2-D view construction not found')


def transpose_rule(m, run, summ):
    fi = m.func('operations.transpose')
    g = Obj('g', 2)
    loops = [n for n in walk_no_nested(fi.node) if isinstance(n, ast.For) and isinstance(n.iter, ast.Name)]
    if len(loops) != 1:
        raise AnalysisError('operations.transpose: element loop not found')
    it = Interp(fi.key, {loops[0].target.id: g}, summ)
    it.run(loops[0].body)
    ld.emit(run, fi, it, '')
    a = g.attrs
    L = a.get('ctrlpts2d')
    if not isinstance(L, Lay) or len(L.levels) != 2:
        run.ob('AX4.axis-map-single-valued', fi.key, False, 'new 2-D net not resolved: %r' % (L,), site(fi))
        return
    for k in range(2):
        srcs = {'net level': L.levels[k][0][0]}
        for nm in ('degree', 'knotvector'):
            v = a.get('%s_%s' % (nm, 'uv'[k]))
            if isinstance(v, Sym):
                srcs[nm] = v.label
        vals = {v for v in srcs.values() if v is not None}
        want = 'g.' + 'uv'[1 - k]
        ok = vals == {want} and len(srcs) == 3
        run.ob('AX4.axis-map-single-valued', '%s target %s' % (fi.key, 'uv'[k]), ok,
               'new %s direction is the old %s direction for net, degree and knot vector' % ('uv'[k], 'uv'[1 - k]) if ok else
               'transpose must take every %s-quantity from the old %s direction; found %s' % ('uv'[k], 'uv'[1 - k], sorted(srcs.items())), site(fi))
    # definition protocol: degrees before the net, knot vectors after it (the setters validate against each other)
    order = [x[0] for x in a.get('__order__', [])]
    if 'ctrlpts2d' in order:
        ic = order.index('ctrlpts2d')
        ok = all(x.startswith('degree') for x in order[:ic]) and all(x.startswith('knotvector') for x in order[ic + 1:])
        run.ob('AX4.transpose-protocol', fi.key, ok, 'degrees, then net, then knot vectors' if ok else
               'assignment order %s: the net must be set after both degrees (its size check uses them) and before the knot vectors' % order, site(fi))


def flip_rule(m, run):
    fi = m.func('operations.flip')
    # cpts = g.ctrlptsw if g.rational else g.ctrlpts ; new_cpts[idx] = pt for decreasing idx from size-1 ; g.set_ctrlpts(new_cpts, size_u, size_v)
    src = [n for n in walk_no_nested(fi.node) if isinstance(n, ast.Assign) and isinstance(n.value, ast.IfExp) and norm(n.value.test).endswith('.rational')]
    okv = bool(src) and norm(src[0].value.body).endswith('.ctrlptsw') and norm(src[0].value.orelse).endswith('.ctrlpts')
    run.ob('FL1.flip', fi.key + ' :: stored view', okv, 'reverses the stored (weighted if rational) points and stores them with set_ctrlpts' if okv else
           'the reversed list is not the stored view of the points (ctrlptsw for rational, ctrlpts otherwise)', site(fi))
    dec = [n for n in walk_no_nested(fi.node) if isinstance(n, ast.AugAssign) and isinstance(n.op, ast.Sub) and norm(n.value) == '1']
    init = [n for n in walk_no_nested(fi.node) if isinstance(n, ast.Assign) and isinstance(n.targets[0], ast.Name) and dec and n.targets[0].id == norm(dec[0].target)
            and isinstance(n.value, ast.BinOp) and isinstance(n.value.op, ast.Sub) and norm(n.value.right) == '1' and 'ctrlpts_size' in norm(n.value.left)]
    st = [n for n in walk_no_nested(fi.node) if isinstance(n, ast.Assign) and isinstance(n.targets[0], ast.Subscript) and dec and norm(n.targets[0].slice) == norm(dec[0].target)]
    okr = bool(dec) and bool(init) and bool(st)
    run.ob('FL1.flip', fi.key + ' :: full reversal', okr, 'cell size-1-k receives point k for every k' if okr else 'the reversal idiom (counter from size-1 down by 1 per point) is not recognised', site(fi))


def sweep_rule(m, run):
    fi = m.func('sweeping.sweep_vector')
    obj = params_of(fi.node)[0]
    calls = [c for c in walk_no_nested(fi.node) if isinstance(c, ast.Call) and norm(c.func).startswith('construct.construct_')]
    if len(calls) != 2:
        raise AnalysisError('sweep_vector: expected construct_surface and construct_volume calls')
    for c in calls:
        target = m.resolve_callable('sweeping', c.func)
        sections = c.args[1:]
        okorder = len(sections) == 2 and norm(sections[0]) == obj and norm(sections[1]) != obj
        run.ob('AG8.sweep', '%s :: %s sections' % (fi.key, norm(c.func)), okorder, 'sections are (input, translate) in this order' if okorder else
               'sections passed are %s; the first boundary section must be the input and the second its translate' % [norm(s) for s in sections], site(fi, c))
        # default degree of the new direction vs number of sections
        deg = next((k.value for k in c.keywords if k.arg == 'degree'), None)
        d = None
        if deg is not None and isinstance(deg, ast.Constant):
            d = deg.value
        elif target is not None:
            for n in walk_no_nested(target.node):
                if isinstance(n, ast.Call) and isinstance(n.func, ast.Attribute) and n.func.attr == 'get' and n.args and isinstance(n.args[0], ast.Constant) \
                        and n.args[0].value == 'degree' and len(n.args) > 1 and isinstance(n.args[1], ast.Constant):
                    d = n.args[1].value
        ok = d is not None and d + 1 <= len(sections)
        run.ob('AG8.sweep', '%s :: %s degree' % (fi.key, norm(c.func)), ok,
               'degree %s along the sweep direction admits %d sections' % (d, len(sections)) if ok else
               'the sweep direction gets degree %s (default of %s) but only %d sections are passed: degree + 1 control points are required, so the call always raises'
               % (d, norm(c.func), len(sections)), site(fi, c))
    # the translate is the input moved by vec: every control point through point_translate(p, vec)
    tr = [c for c in walk_no_nested(fi.node) if isinstance(c, ast.Call) and norm(c.func).endswith('point_translate')]
    okt = len(tr) == 1 and norm(tr[0].args[1]) == params_of(fi.node)[1]
    run.ob('AG8.sweep', fi.key + ' :: translate', okt, 'second section is the input translated by vec' if okt else 'control points of the second section are not point_translate(p, vec)', site(fi))


def df1(m, run):
    """DF1: an optional size (parameter with default 0) that is used as a loop extent is, on every path to that use, either re-computed
    from the data or known to be positive: each of the two sizes of flip_ctrlpts2d may be omitted on its own"""
    from ..cfg import CFG
    from ..poly import to_poly, NotPoly, Poly
    fi = m.func('compatibility.flip_ctrlpts2d')
    a = fi.node.args
    ps = [x.arg for x in a.args]
    dflt = dict(zip(ps[len(ps) - len(a.defaults):], a.defaults))
    opt = [p_ for p_, d in dflt.items() if isinstance(d, ast.Constant) and d.value == 0 and not isinstance(d.value, bool)]
    if len(opt) < 2:
        raise AnalysisError('flip_ctrlpts2d: optional size parameters not found')
    cfg = CFG(fi.node)
    for p_ in opt:
        redefs = [cfg.of[n] for n in walk_no_nested(fi.node) if isinstance(n, ast.Assign) and any(isinstance(t, ast.Name) and t.id == p_ for t in n.targets) and n in cfg.of]
        uses = [n for n in walk_no_nested(fi.node) if isinstance(n, ast.Call) and norm(n.func) == 'range' and any(isinstance(x, ast.Name) and x.id == p_ for x in ast.walk(n))]
        if not uses:
            continue
        un = cfg.node_of(uses[0])
        reach_unredefined = un in cfg.reach_from(cfg.entry, skip_nodes=redefs)
        positive = False
        if reach_unredefined:
            for e, pol in cfg.facts_at(un, skip_nodes=redefs):
                if isinstance(e, ast.Compare) and len(e.ops) == 1:
                    try:
                        d = to_poly(e.left) - to_poly(e.comparators[0])
                    except NotPoly:
                        continue
                    P_ = Poly.atom(p_)
                    op = type(e.ops[0])
                    # not (p <= 0) | not (p < 1) | p > 0 | p >= 1 | not (0 >= p) ...
                    if (d == P_ and ((op is ast.LtE and not pol) or (op is ast.Gt and pol))) or (d == P_ - 1 and ((op is ast.Lt and not pol) or (op is ast.GtE and pol))) \
                            or (d == -P_ and ((op is ast.GtE and not pol) or (op is ast.Lt and pol))):
                        positive = True
        ok = (not reach_unredefined) or positive
        run.ob('DF1.omitted-size-is-recomputed', '%s :: %s' % (fi.key, p_), ok,
               'on every path to its use `%s` is either given (> 0) or recomputed from the array' % p_ if ok else
               '`%s` can reach `%s` with its default 0 when only the other size is supplied: the guard that recomputes the sizes must fire when EITHER is missing'
               % (p_, norm(uses[0])), site(fi, uses[0]))


def flip2d_rule(m, run):
    """compatibility.flip_ctrlpts2d: new[i][j] = old[j][i] with i over size_v and j over size_u"""
    fi = m.func('compatibility.flip_ctrlpts2d')
    sc = ra.scope_of(fi)
    found = False
    for n in walk_no_nested(fi.node):
        if isinstance(n, ast.Assign) and isinstance(n.targets[0], ast.Subscript) and isinstance(n.targets[0].value, ast.Subscript):
            t = n.targets[0]
            a, b = norm(t.value.slice), norm(t.slice)
            srcs = [x for x in ast.walk(n.value) if isinstance(x, ast.Subscript) and isinstance(x.value, ast.Subscript)]
            if not srcs:
                continue
            found = True
            c, d = norm(srcs[0].value.slice), norm(srcs[0].slice)
            ok = (a, b) == (d, c)
            ta, tb = sc.int_tags(t.value.slice, n), sc.int_tags(t.slice, n)
            okr = ta == {1} and tb == {0}
            run.ob('LY2.flip2d', fi.key, ok and okr, 'new[v][u] = old[u][v]' if ok and okr else
                   'flip2d must exchange the two index levels: target [%s][%s] (directions %s, %s) from source [%s][%s]' % (a, b, ra.fmt(ta), ra.fmt(tb), c, d), site(fi, n))
    if not found:
        raise AnalysisError('flip_ctrlpts2d: cell assignment not found')
