"""C08 - degree elevation / reduction of Bezier control polygons (structural part)."""
import ast
from ..model import norm, AnalysisError, walk_no_nested, params_of
from ..cfg import CFG
from ..poly import Poly, to_poly, NotPoly
from ..pure import Purity

DECIDES = ('non-Bezier input (degree + 1 != number of points), a non-positive elevation count and degree < 2 for reduction reach a raise '
           'under the validation flag, in exact normal form, and the flag test dominates all computation (GD4); the accumulator rows have the '
           'coordinate count of an input point, not the point count (DK1); elevation sums, for every output row i, over exactly j = max(0, i - num) '
           '.. min(degree, i) and divides by C(degree + num, i): the index/argument structure of Eq. 5.36 (EQ536); the end rows of the reduced '
           'polygon are the input end rows (END1); the input polygon is never mutated (PU1); in operations.degree_operations the knot vector of every Bezier segment is rebuilt from the segment\'s own knots - no literal stands for an end knot, elevation pads with copies of knot [0] in front and knot [-1] behind (KV2), and the degree of an object is updated before its control points and its knot vector after them (PR1). [SKEL, bounded] every output row of elevation '
           '(degree 1..8 x num 1..4) and of reduction (degree 2..9) is assigned a defined point and no row is consumed before it is computed. [SKEL] every reduced point is computed from exactly the input points that the recurrences of Eq. 5.41 chain together: P_0..P_i for the forward part, P_{i+1}..P_p for the backward part, all of them for the middle point of an odd degree (SK5 dependency footprint).')
NOT_DECIDED = ('degrees beyond the enumerated ones (elevation 1..4 by 1..3, reduction 2..7); reduction of polygons that are not exactly degree-reducible (the error bound of Eqs. 5.45 / 5.46 is not implemented by the code either); floating-point accuracy of binomial quotients.')
TECHNIQUE = 'CFG dominance of validation guards, polynomial normal forms of bounds and binomial arguments, kind rule on accumulator shape; bounded index-skeleton interpretation for row coverage'
DECIDES += (' [ABSTRACT INTERPRETATION, exact] EL2: degree_elevation on symbolic control points is Eq. 5.36 exactly (degrees 1..4 x counts 1..3); degree_reduction applied to the exact elevation of a symbolic polygon returns that polygon (degrees 2..7); FD2: the binomial is not truncated from a float quotient (EQ536, END1 only corroborate).')
DECIDES += (' EL2 also on polygons of rows of points and on inadmissible requests (count 0 / negative, non-Bezier polygon: rejected); DO2: operations.degree_operations on recorder curves gives every Bezier piece its helper result, the new degree and the knot vector a x (d+1), b x (d+1), also for elevation counts above degree + 1; DC9 on the deep copies it works on.')
DECIDES += (' DO3: degree_operations with its pieces and its input as abstract curves whose real setters are interpreted: for one and two segments, elevation by 1..p+2 and reduction, no setter rejects an intermediate state (degree, then control points, then knots) and every object ends consistent.')
DECIDES += (' SC2: set_ctrlpts and the ctrlpts / ctrlptsw setters store every coordinate as given, on objects built with precision=2; DC2 (shared with C07): the Bezier pieces degree_operations edits are never its input.')


def site(fi, node=None):
    return 'geomdl/%s.py:%s in %s' % (fi.mod, getattr(node or fi.node, 'lineno', '?'), fi.key)


def raise_facts(fn):
    cfg = CFG(fn)
    out = []
    for n in walk_no_nested(fn):
        if isinstance(n, ast.Raise):
            out.append((n, cfg.facts_at(cfg.node_of(n))))
    return cfg, out


def cmp_poly(e):
    """comparison -> (op class, poly of left - right)"""
    if isinstance(e, ast.Compare) and len(e.ops) == 1:
        try:
            op, p = type(e.ops[0]), to_poly(e.left) - to_poly(e.comparators[0])
        except NotPoly:
            return None
        # canonical orientation: a > b is b < a, a >= b is b <= a (only <, <=, ==, != remain)
        if op is ast.Gt:
            return ast.Lt, -p
        if op is ast.GtE:
            return ast.LtE, -p
        return op, p
    return None


def rejects(facts, want):
    """want(opclass, poly, polarity) -> bool for some fact"""
    for e, pol in facts:
        c = cmp_poly(e)
        if c and want(c[0], c[1], pol):
            return True
    return False


def check(m, run):
    el, rd = m.func('helpers.degree_elevation'), m.func('helpers.degree_reduction')
    # elevation and reduction are decided exactly on symbolic polygons, inadmissible requests included (EL2); the rules that read the
    # spelling of the validation block, of Eq. 5.36 and of the end-point assignments corroborate
    from .. import skel_drivers as _sd
    n0 = len(run.obs)
    _sd.el2(m, run)
    el_ok = all(o.ok for o in run.obs[n0:])
    with run.corroborating(el_ok, 'EL2', rules=('GD4.validation-guard', 'GD4.validation-before-work', 'GD4.validation-default-on')):
        _gd4_syntactic(m, run, el, rd)
    # the results do not depend on the calls made before: no function of helpers.py keeps state in a module-level object (a memo keyed
    # too coarsely gives a later call the coefficients of an earlier one)
    P0 = Purity(m)
    for fi_ in [f for f in m.functions_in('helpers') if f.kind == 'function']:
        mg = [mu for mu in P0.summary(fi_).mutations if mu.root.startswith('global:')]
        run.ob('PU5.no-module-state', fi_.key, not mg, 'no module-level state written' if not mg else
               '%s: %s at `%s` - a value computed for one call is kept in a module-level object and can be served to a later call with other arguments' % (mg[0].root, mg[0].how[:60], norm(mg[0].node)[:70]),
               site(fi_, mg[0].node) if mg else '')
    for fi in (el, rd):
        pts = params_of(fi.node)[1]
        P = Purity(m)
        mu = [x for x in P.summary(fi).mutations if x.root == 'param:' + pts]
        run.ob('PU1.input-not-mutated', fi.key, not mu, 'control polygon is only read' if not mu else 'input polygon mutated at `%s`' % norm(mu[0].node)[:70], site(fi))
    with run.corroborating(el_ok, 'EL2', rules=('EQ536.sum-range', 'EQ536.binomials', 'EQ536.rows', 'END1.end-points-kept', 'DK1.accumulator-shape')):
        for fi_ in (el, rd):
            dk1(run, fi_, params_of(fi_.node)[1])
        eq536(m, run, el)
        end1(m, run, rd)
    from . import c16 as _c16
    _c16.check_binomial(m, run)
    n1 = len(run.obs)
    _sd.do2(m, run)
    do_ok = all(o.ok for o in run.obs[n1:])
    with run.corroborating(do_ok, 'DO2', rules=('KV2.pad-ends', 'KV2.segment-knots-from-own-knots')):
        kv2(m, run)
    # the definition protocol is decided by interpreting the real setters on abstract curves (DO3); the rule that reads the order of the
    # three assignments in each block corroborates
    n2 = len(run.obs)
    try:
        _sd.do3(m, run)
        _sd.sc2(m, run)        # the elevated / reduced polygon the object holds afterwards is the one computed: set_ctrlpts stores what it is given
        _sd.dc2(m, run)        # the Bezier pieces degree_operations edits in place are new objects, never its input (DC2, shared with C07)
    except AnalysisError as ex:
        run.error(str(ex))
    pr_ok = len(run.obs) > n2 and all(o.ok for o in run.obs[n2:])
    with run.corroborating(pr_ok, 'DO3', rules=('PR1.degree-then-points-then-knots',)):
        pr1(m, run)
    skel_rows(m, run)
    run.floor('GD4.validation-guard', 4, 'bezier x2, num, degree<2')
    run.floor('DK1.accumulator-shape', 2, 'elevation and reduction accumulators')
    # degree_operations and the decomposition before it work on deep copies: the copy shares nothing with the curve it was taken from
    from .. import rules_state as _rs
    _rs.iv4_deepcopy(m, run)


def _gd4_syntactic(m, run, el, rd):
    for fi, conds in ((el, ('bezier', 'num')), (rd, ('bezier', 'degree2'))):
        ps = params_of(fi.node)
        deg, pts = ps[0], ps[1]
        cfg, rf = raise_facts(fi.node)
        L = Poly.atom('len(%s)' % pts)
        D = Poly.atom(deg)

        def is_bezier(op, p, pol):
            return ((op is ast.NotEq and pol) or (op is ast.Eq and not pol)) and (p == D + 1 - L or p == L - D - 1)

        def is_num(op, p, pol):
            N = None
            atoms = [a for a in p.atoms()]
            if len(atoms) != 1:
                return False
            N = Poly.atom(atoms[0])
            # num <= 0 | num < 1 | not 0 < num | not 1 <= num   (canonical orientation, see cmp_poly)
            return (op is ast.LtE and pol and p == N) or (op is ast.Lt and pol and p == N - 1) or \
                (op is ast.Lt and not pol and p == -N) or (op is ast.LtE and not pol and p == 1 - N)

        def is_deg2(op, p, pol):
            return (op is ast.Lt and pol and p == D - 2) or (op is ast.LtE and pol and p == D - 1) or \
                (op is ast.LtE and not pol and p == 2 - D) or (op is ast.Lt and not pol and p == 1 - D)
        tests = {'bezier': (is_bezier, 'degree + 1 != len(ctrlpts) (non-Bezier input)'), 'num': (is_num, 'num <= 0'), 'degree2': (is_deg2, 'degree < 2')}
        for c in conds:
            fn_, desc = tests[c]
            hit = [r for r, facts in rf if rejects(facts, fn_)]
            run.ob('GD4.validation-guard', '%s :: rejects %s' % (fi.key, desc), bool(hit),
                   'a raise is reached exactly under `%s`' % desc if hit else 'no raise is guarded by the exact condition %s' % desc, site(fi, hit[0] if hit else None))
        # the validation flag test dominates every array allocation / loop
        flag_tests = [n for n in cfg.nodes if n.kind == 'test' and isinstance(n.ast.test, ast.Name)]
        work = [n for n in cfg.nodes if n.kind == 'loop' or (n.kind == 'stmt' and isinstance(n.ast, ast.Assign) and isinstance(n.ast.value, ast.ListComp))]
        okd = bool(flag_tests) and bool(work) and all(cfg.dominated_by(w, lambda n: n in flag_tests) for w in work)
        run.ob('GD4.validation-before-work', fi.key, okd, 'the validation block precedes every allocation and loop' if okd else 'computation is reachable before validation', site(fi))
        # the flag only switches validation off (default True)
        flg = [n for n in walk_no_nested(fi.node) if isinstance(n, ast.Assign) and isinstance(n.value, ast.Call) and isinstance(n.value.func, ast.Attribute)
               and n.value.func.attr == 'get' and n.value.args and isinstance(n.value.args[0], ast.Constant) and 'check' in str(n.value.args[0].value)]
        okf = bool(flg) and len(flg[0].value.args) == 2 and isinstance(flg[0].value.args[1], ast.Constant) and flg[0].value.args[1].value is True
        run.ob('GD4.validation-default-on', fi.key, okf, 'validation enabled by default' if okf else 'validation flag does not default to True', site(fi))


def pr1(m, run):
    """PR1: the definition protocol of a spline object - degree first, then control points (whose count is validated against the degree),
    then the knot vector (validated against both): in degree_operations every block that changes the degree of an object and replaces its
    control points does so in this order, otherwise a valid reduced/elevated polygon is validated against the old degree and rejected"""
    fi = m.func('operations.degree_operations')
    n = 0

    def blocks(node):
        for x in ast.walk(node):
            for fld in ('body', 'orelse', 'finalbody'):
                b = getattr(x, fld, None)
                if isinstance(b, list) and b and isinstance(b[0], ast.stmt):
                    yield b
    for blk in blocks(fi.node):
        deg, cps, kvs = {}, {}, {}
        for i, st in enumerate(blk):
            t = st.targets[0] if isinstance(st, ast.Assign) and len(st.targets) == 1 else (st.target if isinstance(st, ast.AugAssign) else None)
            if isinstance(t, ast.Attribute) and isinstance(t.value, ast.Name):
                if t.attr.startswith('degree'):
                    deg.setdefault(t.value.id, i)
                if t.attr.startswith('knotvector'):
                    kvs.setdefault(t.value.id, i)
            if isinstance(st, ast.Expr) and isinstance(st.value, ast.Call) and isinstance(st.value.func, ast.Attribute) and st.value.func.attr == 'set_ctrlpts' \
                    and isinstance(st.value.func.value, ast.Name):
                cps.setdefault(st.value.func.value.id, i)
        for who in sorted(set(deg) & set(cps)):
            n += 1
            ok = deg[who] < cps[who] and (who not in kvs or cps[who] < kvs[who])
            run.ob('PR1.degree-then-points-then-knots', '%s :: %s (line %d)' % (fi.key, who, blk[cps[who]].lineno), ok,
                   'degree, control points, knot vector in this order' if ok else
                   'the control points of `%s` are replaced before its degree is updated (or after its knot vector): set_ctrlpts validates the new polygon against the '
                   'old degree, so e.g. the reduction of a single Bezier segment (degree points) is rejected' % who, site(fi, blk[cps[who]]))
    if n < 3:
        raise AnalysisError('degree_operations: only %d degree/control point update blocks found' % n)


def kv2(m, run):
    """operations.degree_operations: the knot vector of every Bezier segment is rebuilt from that segment's own knots - elevation pads
    it with copies of its first knot in front and of its last knot behind, reduction drops one knot at either end; no numeric literal
    stands for a knot (segments of a shape whose domain is not [0, 1] keep their interval), and the pad count is the elevation count"""
    fi = m.func('operations.degree_operations')
    n = 0
    for a in walk_no_nested(fi.node):
        if not (isinstance(a, ast.Assign) and len(a.targets) == 1 and isinstance(a.targets[0], ast.Attribute) and a.targets[0].attr == 'knotvector'
                and isinstance(a.targets[0].value, ast.Name)):
            continue
        who = a.targets[0].value.id
        if who == params_of(fi.node)[0]:
            continue          # the final assignment of the linked knot vector
        n += 1
        own = '%s.knotvector' % who
        lits, foreign = [], []

        def visit(e):
            if isinstance(e, ast.Subscript):
                if norm(e.value) != own:
                    foreign.append(norm(e))
                return          # indices are not knot values
            if isinstance(e, ast.Call) and norm(e.func) == 'range':
                return
            if isinstance(e, ast.Attribute) and e.attr.startswith('knotvector') and norm(e) != own:
                foreign.append(norm(e))
            if isinstance(e, ast.Constant) and isinstance(e.value, (int, float)) and not isinstance(e.value, bool):
                par = getattr(e, '_sa_parent', None)
                # a literal is a knot value when it is a list element / comprehension element
                if isinstance(par, (ast.List, ast.ListComp)):
                    lits.append(e.value)
            for c in ast.iter_child_nodes(e):
                visit(c)
        visit(a.value)
        ok = not lits and not foreign
        run.ob('KV2.segment-knots-from-own-knots', '%s :: %s' % (fi.key, norm(a)[:70]), ok,
               'built from %s only' % own if ok else
               ('the literal(s) %s stand for end knots: a segment of a shape whose knot range is not [0, 1] gets the wrong interval' % lits if lits else
                'knots are taken from %s, not from the segment itself' % foreign), site(fi, a))
        # ends: leading pad reads [0], trailing pad reads [-1]
        if isinstance(a.value, ast.BinOp):
            parts = []

            def flat(e):
                if isinstance(e, ast.BinOp) and isinstance(e.op, ast.Add):
                    flat(e.left)
                    flat(e.right)
                else:
                    parts.append(e)
            flat(a.value)
            if len(parts) == 3:
                idx = lambda e: sorted({norm(x.slice) for x in ast.walk(e) if isinstance(x, ast.Subscript) and norm(x.value) == own})
                oke = idx(parts[0]) == ['0'] and idx(parts[2]) == ['-1']
                run.ob('KV2.pad-ends', '%s :: %s' % (fi.key, norm(a)[:50]), oke, 'front pad copies knot [0], back pad knot [-1]' if oke else
                       'front pad reads %s and back pad reads %s of the knot vector: expected [0] and [-1]' % (idx(parts[0]), idx(parts[2])), site(fi, a))
    if n < 2:
        raise AnalysisError('degree_operations: segment knot vector updates not found')


def dk1(run, fi, pts):
    """zero-initialised 2-level accumulators whose rows are zipped with input points have inner extent len(points[k])"""
    for n in walk_no_nested(fi.node):
        if isinstance(n, ast.Assign) and len(n.targets) == 1 and isinstance(n.targets[0], ast.Name) and isinstance(n.value, ast.ListComp) \
                and isinstance(n.value.elt, ast.ListComp) and isinstance(n.value.elt.elt, ast.Constant):
            acc = n.targets[0].id
            inner = n.value.elt.generators[0].iter
            zipped = any(isinstance(z, ast.Call) and norm(z.func) == 'zip' and any(isinstance(a, ast.Subscript) and norm(a.value) == acc for a in z.args)
                         and any(isinstance(a, ast.Subscript) and norm(a.value) == pts for a in z.args) for z in ast.walk(fi.node))
            if not zipped:
                continue
            ext = inner.args[-1] if isinstance(inner, ast.Call) and norm(inner.func) == 'range' and inner.args else None
            ok = ext is not None and isinstance(ext, ast.Call) and norm(ext.func) == 'len' and isinstance(ext.args[0], ast.Subscript) and norm(ext.args[0].value) == pts
            run.ob('DK1.accumulator-shape', '%s :: %s' % (fi.key, acc), ok,
                   'rows have len(%s[k]) coordinates' % pts if ok else
                   'accumulator rows are created with `%s` entries but are combined coordinate-wise (zip) with points of `%s`: zip silently truncates to the shorter, '
                   'so coordinates (e.g. the weight) are dropped when this differs from len(%s[0])' % (norm(ext) if ext is not None else '?', pts, pts), site(fi, n))


def eq536(m, run, fi):
    """structure of Eq. 5.36: for i: for j in range(max(0, i - t), min(p, i) + 1): C(p, j) * C(t, i - j) / C(p + t, i)"""
    ps = params_of(fi.node)
    p = ps[0]
    loops = [n for n in walk_no_nested(fi.node) if isinstance(n, ast.For)]
    outer = [l for l in loops if any(isinstance(x, ast.For) and x is not l for x in ast.walk(l))]
    if len(outer) != 1:
        run.note('EQ536', fi.key, 'loop nest not recognised: no obligation')
        return
    o = outer[0]
    inner = [x for x in ast.walk(o) if isinstance(x, ast.For) and x is not o][0]
    i, j = o.target.id, inner.target.id
    from ..alg import Subst
    # resolve start/end locals inside the outer loop body
    defs = {s.targets[0].id: s.value for s in o.body if isinstance(s, ast.Assign) and isinstance(s.targets[0], ast.Name)}
    numdef = [n.value for n in walk_no_nested(fi.node) if isinstance(n, ast.Assign) and isinstance(n.targets[0], ast.Name) and isinstance(n.value, ast.Call)
              and isinstance(n.value.func, ast.Attribute) and n.value.func.attr == 'get' and n.value.args and n.value.args[0].value == 'num']
    t = [n.targets[0].id for n in walk_no_nested(fi.node) if isinstance(n, ast.Assign) and isinstance(n.targets[0], ast.Name) and n.value in numdef]
    if not t:
        run.note('EQ536', fi.key, 'elevation count local not found')
        return
    t = t[0]

    def res(e):
        return defs.get(e.id, e) if isinstance(e, ast.Name) else e
    a = inner.iter.args
    lo, hi = (res(a[0]), res(a[1])) if len(a) >= 2 else (ast.Constant(0), res(a[0]))
    I, J, PP, T = Poly.atom(i), Poly.atom(j), Poly.atom(p), Poly.atom(t)

    def minmax(e, fname):
        if isinstance(e, ast.Call) and norm(e.func) == fname and len(e.args) == 2:
            return {repr(to_poly(x)) for x in e.args}
        return None
    oklo = minmax(lo, 'max') == {repr(Poly.const(0)), repr(I - T)}
    hi_core = None
    try:
        if isinstance(hi, ast.BinOp) and isinstance(hi.op, ast.Add) and norm(hi.right) == '1':
            hi_core = res(hi.left)
    except Exception:
        pass
    okhi = hi_core is not None and minmax(hi_core, 'min') == {repr(PP), repr(I)}
    run.ob('EQ536.sum-range', fi.key + ' :: j range', oklo and okhi, 'j = max(0, i - t) .. min(p, i)' if oklo and okhi else
           'inner range is (%s, %s); Eq. 5.36 sums j from max(0, i - t) to min(p, i)' % (norm(lo), norm(hi)), site(fi, inner))
    try:
        orange = to_poly(o.iter.args[-1], env=lambda n: next((x.value for x in walk_no_nested(fi.node) if isinstance(x, ast.Assign)
                                                              and isinstance(x.targets[0], ast.Name) and x.targets[0].id == n.id
                                                              and not isinstance(x.value, ast.Call)), None))
    except NotPoly:
        orange = None
    run.ob('EQ536.sum-range', fi.key + ' :: i range', orange == PP + 1 + T, 'i = 0 .. p + t' if orange == PP + 1 + T else 'outer range is %s, expected p + t + 1 rows' % orange, site(fi, o))
    # binomial arguments
    bins = [c for c in ast.walk(inner) if isinstance(c, ast.Call) and norm(c.func).endswith('binomial_coefficient') and len(c.args) == 2]
    got = sorted((repr(to_poly(c.args[0])), repr(to_poly(c.args[1]))) for c in bins)
    want = sorted([(repr(PP), repr(J)), (repr(T), repr(I - J)), (repr(PP + T), repr(I))])
    run.ob('EQ536.binomials', fi.key, got == want, 'C(p, j) * C(t, i - j) / C(p + t, i)' if got == want else 'binomial arguments %s, expected %s' % (got, want), site(fi, inner))
    # numerator product / denominator division
    divs = [n for n in ast.walk(inner) if (isinstance(n, ast.AugAssign) and isinstance(n.op, ast.Div)) or (isinstance(n, ast.BinOp) and isinstance(n.op, ast.Div))]
    okdiv = False
    for d in divs:
        den = d.value if isinstance(d, ast.AugAssign) else d.right
        if isinstance(den, ast.Call) and norm(den.func).endswith('binomial_coefficient') and repr(to_poly(den.args[0])) == repr(PP + T):
            okdiv = True
    run.ob('EQ536.binomials', fi.key + ' :: denominator', okdiv, 'divided by C(p + t, i)' if okdiv else 'C(p + t, i) is not the divisor', site(fi, inner))
    # accumulation over the right input row
    accs = [n for n in ast.walk(inner) if isinstance(n, ast.Call) and norm(n.func) == 'zip']
    okrow = any(any(isinstance(x, ast.Subscript) and norm(x.slice) == j and norm(x.value) == params_of(fi.node)[1] for x in z.args) and
                any(isinstance(x, ast.Subscript) and norm(x.slice) == i for x in z.args) for z in accs)
    run.ob('EQ536.rows', fi.key, okrow, 'row i accumulates coeff * P[j]' if okrow else 'accumulation does not combine output row i with input row j', site(fi, inner))


def end1(m, run, fi):
    pts = params_of(fi.node)[1]
    outs = [n.value.id for n in walk_no_nested(fi.node) if isinstance(n, ast.Return) and isinstance(n.value, ast.Name)]
    out = outs[0] if outs else None
    first = [n for n in fi.node.body if isinstance(n, ast.Assign) and norm(n.targets[0]) == '%s[0]' % out]
    last = [n for n in fi.node.body if isinstance(n, ast.Assign) and norm(n.targets[0]) == '%s[-1]' % out]
    ok = bool(first) and bool(last) and norm(first[0].value) in ('%s[0]' % pts, 'deepcopy(%s[0])' % pts, 'list(%s[0])' % pts) and \
        norm(last[0].value) in ('%s[-1]' % pts, 'deepcopy(%s[-1])' % pts, 'list(%s[-1])' % pts)
    run.ob('END1.end-points-kept', fi.key, ok, 'first and last rows are the input end points' if ok else 'end rows of the reduced polygon are not the input end points', site(fi))


def skel_rows(m, run):
    try:
        from .. import skel
    except ImportError:
        run.note('SK3', 'helpers.degree_*', 'SKEL engine not available in this build: row coverage not decided in this run')
        return
    skel.c08_rows(m, run)
