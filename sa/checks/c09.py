"""C09 - weights, weighted and unweighted control points stay mutually consistent."""
import ast
from ..model import norm, AnalysisError, walk_no_nested, params_of
from ..poly import Poly, to_poly, NotPoly
from .. import rules_state as rs
from .. import rules_axis as ra
from .. import pointmap

DECIDES = ('the unweighted-points / weights caches of the three rational classes and the weighted-grid cache can never be stale, for '
           'any order of setting ctrlpts / weights / ctrlptsw and any inherited mutator (IV1 typestate, inductive over histories; IV3 keys); '
           'the six helper converters multiply resp. divide every coordinate of a point by that point\'s own weight slot over the whole '
           'coordinate range and copy the slot (WS1), and paired converters are inverse element maps, (c*w)/w = c in normal form (WS2); '
           'rational property setters pass (points, weights) to the combiner in that order and sizes in (u, v, w) order (WS3, LY3) and store the result on every normally returning path (WS4); the '
           'weighted grid indexes its flat per-point weight list by both loop levels with the right stride (PP1); type converters copy '
           'every defining property from the same-direction property of the source and construct the result with the knot vector normalisation setting of the source (CV1, CV2); no method stores a structure that may alias one of its arguments into the control point array or a cached view, so the views cannot drift apart through the caller\'s own lists (ES1, may-alias analysis); a cached view is read only inside its own lazily filling getter, every other method goes through the property (IV8); the unit-weight test of nurbs_to_bspline is two-sided (TOL1) and a single non-unit weight refuses the conversion (UW1). the file variants of the 2-D converters apply the converter they are named after and save the array with matching sizes (FH1, LY3f).')
NOT_DECIDED = 'invariance of evaluated points under a common positive weight factor; numerical round-trip to rounding; evaluation equality after type conversion (needs C01).'
TECHNIQUE = 'static typestate dataflow + per-point map extraction in polynomial normal form + axis-tag rules + may-alias escape analysis'
DECIDES += (" [ABSTRACT INTERPRETATION, exact] CV3: every converter of geomdl.compatibility and its three file variants, interpreted on a non-square net of monomial cells, returns cell by cell the documented result (x*w / x/w / w kept; [u][v] <-> [v][u]) and saves the array of its own converter with that array's row / column counts; PP2: GridWeighted.grid multiplies point [i][j] by weight j + i * (points per row) (FH1, LY3f, PP1 only corroborate).")
DECIDES += (' KD5: the rational setters accept homogeneous points of the lowest admissible dimension and store floats in fresh lists.')

CONVERTERS = {
    'compatibility.generate_ctrlptsw': ('mul', 'own-slot'),
    'compatibility.generate_ctrlptsw2d': ('mul', 'own-slot'),
    'compatibility.generate_ctrlpts_weights': ('div', 'own-slot'),
    'compatibility.generate_ctrlpts2d_weights': ('div', 'own-slot'),
    'compatibility.combine_ctrlpts_weights': ('mul', 'partner'),
    'compatibility.separate_ctrlpts_weights': ('div', 'split'),
}
INVERSE_PAIRS = [('compatibility.generate_ctrlptsw', 'compatibility.generate_ctrlpts_weights'),
                 ('compatibility.generate_ctrlptsw2d', 'compatibility.generate_ctrlpts2d_weights'),
                 ('compatibility.combine_ctrlpts_weights', 'compatibility.separate_ctrlpts_weights')]
DECIDES += (' [ABSTRACT INTERPRETATION, exact, on the real classes] WS5: the three control point views agree after every assignment through the real accessors (ctrlptsw / ctrlpts / weights, warm and cold caches, lists edited in place and assigned back, sizes in axis order); CV4: bspline_to_nurbs / nurbs_to_bspline give a new shape with the definition of the source direction by direction, the same normalisation setting, the source untouched, and refuse a shape with one weight of 2 or 1/2 anywhere; CK3: every cache key a class reads exists, empty and unshared, on a new object and on its deep copy.')
DECIDES += (' GW2: CPGen.GridWeighted through generate / weight / grid / generate again on symbolic extents: every read is the current grid times the current weights; SC2: control points are stored as given for every precision; OWN2: two new objects of a class share no list or dictionary (class-level attributes evaluated once).')


def site(fi, node=None):
    return 'geomdl/%s.py:%s in %s' % (fi.mod, getattr(node or fi.node, 'lineno', '?'), fi.key)


def check(m, run):
    rational = [('NURBS', 'Curve'), ('NURBS', 'Surface'), ('NURBS', 'Volume'), ('CPGen', 'GridWeighted')]
    keep = lambda c: c in ("_cache['ctrlpts']", "_cache['weights']", "_cache['gridptsw']")
    rs.iv1(m, run, rational, caches_filter=keep)
    rs.iv3_cache_keys(m, run, rational)
    from .. import skel_drivers as _sdc
    _sdc.evx(m, run)       # the rational evaluators divide by the weight function itself, whatever its size (EVX, every threshold comparison taken both ways)
    _sdc.gw2(m, run)       # the weighted grid generator: every read follows the current grid and the current weights (also after generating again)
    _sdc.sc2(m, run)       # what the views are derived from is what was assigned (every class, a small precision included)
    run.floor('IV1.no-stale-cache', 200, 'rational classes x entries x 2 caches')
    # the six weight converters are decided exactly on symbolic points (WS6); the rules that read the per-point construction of each
    # converter and compose the extracted coordinate maps corroborate
    from .. import skel_drivers as _sdw
    n_ws = len(run.obs)
    try:
        _sdw.ws6(m, run)
    except AnalysisError as ex:
        run.error(str(ex))
    ws_ok = len(run.obs) > n_ws and all(o.ok for o in run.obs[n_ws:])
    with run.corroborating(ws_ok, 'WS6', rules=('WS1.weight-slot', 'WS2.inverse-pair')):
        maps = weight_slot(m, run)
        inverse_pairs(m, run, maps)
    setters(m, run)
    per_point_index(m, run)
    # the conversions are decided by interpreting them on shapes built through the real classes (CV4); the rules that read the spelling of
    # the assignments in _convert, of the dispatch and of the unit-weight test corroborate
    from .. import skel_drivers as _sdk
    n0 = len(run.obs)
    try:
        _sdk.cv4(m, run)
    except AnalysisError as ex:
        run.error(str(ex))
    cv_ok = len(run.obs) > n0 and all(o.ok for o in run.obs[n0:])
    with run.corroborating(cv_ok, 'CV4', rules=('CV1.convert-copies-same-axis', 'CV1.convert-order', 'CV1.convert-dispatch', 'CV2.converted-shape-keeps-parametrisation',
                                               'UW1.one-non-unit-weight-refuses')):
        converters(m, run)
        tol_two_sided(m, run, [m.func('convert.nurbs_to_bspline')])
        every_weight_tested(m, run)
    no_escape(m, run)
    from . import c14
    c14.file_helpers(m, run)
    reads_through_getters(m, run)
    run.floor('WS1.weight-slot', 12, '6 converters x (coordinate map, domain, slot)')
    run.floor('CV1.convert-copies-same-axis', 20, '4 + 7 + 10 assignments of _convert')
    from .. import skel_drivers as _sdk
    _sdk.kd5(m, run)       # rational setters accept homogeneous points of the lowest admissible dimension and store floats in fresh lists


# ---------------------------------------------------------------------------------------------- IV8
def reads_through_getters(m, run):
    """cold-cache reads are decided by driving the three views through the real accessors with empty caches (WS5); the rule that looks
    for direct reads of a cached view outside its filling getter corroborates (a refactoring may move the fill into a helper)"""
    from .. import skel_drivers as _sd
    n0 = len(run.obs)
    try:
        _sd.ws5(m, run, rule='WS5.views-agree-through-the-real-setters')
    except AnalysisError as ex:
        run.error(str(ex))
    ok = len(run.obs) > n0 and all(o.ok for o in run.obs[n0:])
    # (the obligations of WS5 are recorded once per check: drop the duplicates when setters() has already run it)
    seen = {(o.rule, o.key) for o in run.obs[:n0]}
    run.obs[n0:] = [o for o in run.obs[n0:] if (o.rule, o.key) not in seen]
    with run.corroborating(ok, 'WS5', rules=('IV8.view-read-through-its-getter',)):
        _reads_through_getters_syntactic(m, run)


def _reads_through_getters_syntactic(m, run):
    """the unweighted-points / weights views are filled lazily by their getters: a cached view is read only inside the getter of the
    same name (after its fill test).  Any other method must go through `self.ctrlpts` / `self.weights`; reading `self._cache[...]`
    directly sees the empty list whenever nobody has read the view since the last edit."""
    n = 0
    for cname in ('Curve', 'Surface', 'Volume'):
        ci = m.cls('NURBS', cname)
        members = [(k, f) for k, f in ci.methods.items()] + [(k + '#getter', f) for k, f in ci.getters.items()] + [(k + '#setter', f) for k, f in ci.setters.items()]
        for name, fi in members:
            for x in walk_no_nested(fi.node):
                if isinstance(x, ast.Subscript) and isinstance(x.ctx, ast.Load) and norm(x.value) == 'self._cache' and isinstance(x.slice, ast.Constant) \
                        and x.slice.value in ('ctrlpts', 'weights'):
                    par = getattr(x, '_sa_parent', None)
                    if isinstance(par, ast.Subscript) and par.value is x and isinstance(par.ctx, (ast.Store, ast.Del)):
                        continue          # self._cache[k][:] = ...  clears the view, it does not read it
                    own = name == x.slice.value + '#getter'
                    # ... or inside the routine that fills the view (it stores a computed value under the same key: its reads are the
                    # fill test of the lazy idiom, moved out of the getters)
                    fills = any(isinstance(a, ast.Assign) and any(isinstance(t, ast.Subscript) and norm(t.value) == 'self._cache' and isinstance(t.slice, ast.Constant)
                                                                  and t.slice.value == x.slice.value for t in a.targets)
                                and not (isinstance(a.value, ast.List) and not a.value.elts) and not (isinstance(a.value, ast.Call) and norm(a.value.func).endswith('_init_array'))
                                for a in walk_no_nested(fi.node))
                    own = own or fills
                    n += 1
                    run.ob('IV8.view-read-through-its-getter', '%s :: %s' % (fi.key, norm(x)), own,
                           'read inside its own lazily filling getter / filling routine' if own else
                           '`%s` is read directly: the view is only filled by its getter, so after any edit (cold cache) this read sees an empty list '
                           '- e.g. existing weights are taken for missing and replaced by 1.0' % norm(x), site(fi, x))
    if n < 12:
        raise AnalysisError('IV8: only %d cache reads found in the rational classes' % n)


# ---------------------------------------------------------------------------------------------- UW1
def every_weight_tested(m, run):
    """nurbs_to_bspline refuses (returns its input) as soon as ONE weight differs from 1: the refusal is reached under
    `exists w: |w - 1| > tol`.  Accepted shapes: early return inside a loop over the weights; any(<non-unit test>); not all(<unit test>)."""
    fi = m.func('convert.nurbs_to_bspline')
    src = params_of(fi.node)[0]
    def dev(side):       # the deviation of a weight from one:  w - 1 (possibly under abs())
        return any(isinstance(x, ast.BinOp) and isinstance(x.op, ast.Sub) and any(isinstance(y, ast.Constant) and y.value in (1, 1.0) for y in (x.left, x.right))
                   for x in ast.walk(side))
    cmps = [c for c in ast.walk(fi.node) if isinstance(c, ast.Compare) and len(c.ops) == 1 and isinstance(c.ops[0], (ast.Gt, ast.GtE, ast.Lt, ast.LtE))
            and (dev(c.left) != dev(c.comparators[0]))]
    if len(cmps) != 1:
        raise AnalysisError('%s: unit-weight test not found' % fi.key)
    c = cmps[0]
    # the comparison is true for a NON-unit weight:  deviation > tol   or   tol < deviation
    nonunit = isinstance(c.ops[0], (ast.Gt, ast.GtE)) if dev(c.left) else isinstance(c.ops[0], (ast.Lt, ast.LtE))
    quant, neg = None, False
    p, child = getattr(c, '_sa_parent', None), c
    while p is not None and p is not fi.node:
        if isinstance(p, ast.UnaryOp) and isinstance(p.op, ast.Not):
            if quant is None:
                nonunit = not nonunit
            else:
                neg = not neg
        if isinstance(p, ast.Call) and isinstance(p.func, ast.Name) and p.func.id in ('any', 'all') and quant is None:
            quant = p.func.id
        if isinstance(p, ast.If) and child is p.test:
            refuses = any(isinstance(x, ast.Return) and norm(x.value) == src for st in p.body for x in ast.walk(st))
            in_loop = any(isinstance(q, ast.For) for q in parents(p))
            if quant is None:
                ok = refuses and in_loop and nonunit
                how = 'early return inside the loop over the weights'
            else:
                exists_nonunit = (quant == 'any' and nonunit and not neg) or (quant == 'all' and not nonunit and neg)
                ok = refuses and exists_nonunit
                how = '%s%s(%s test)' % ('not ' if neg else '', quant, 'non-unit' if nonunit else 'unit')
            run.ob('UW1.one-non-unit-weight-refuses', fi.key, ok, 'refuses on the first non-unit weight (%s)' % how if ok else
                   'the refusal is reached under `%s`: a shape with some but not all weights different from 1 is converted and its weights are dropped' % how, site(fi, p))
            return
        child, p = p, getattr(p, '_sa_parent', None)
    raise AnalysisError('%s: the unit-weight test does not guard a refusal' % fi.key)


def parents(n):
    p = getattr(n, '_sa_parent', None)
    while p is not None:
        yield p
        p = getattr(p, '_sa_parent', None)


# ---------------------------------------------------------------------------------------------- ES1
def no_escape(m, run):
    """the three views are stored as structures of the object's own: nothing that may alias an argument of a public method is stored
    into `_control_points` or a `_cache[...]` view (may-alias analysis; level 0 = the argument itself, level 1 = its elements, which for
    point arrays are the caller's mutable point lists).  A stored alias lets the caller's later edits of its own list change one view
    without the other two.  The raw base-class `ctrlpts` setter, which stores its argument, is shadowed in every concrete class."""
    from ..pure import Purity
    P = Purity(m)
    n = 0
    for fi in sorted(m.funcs.values(), key=lambda f: f.key):
        if fi.mod not in ('abstract', 'BSpline', 'NURBS') or not fi.cls or fi.key == 'abstract.SplineGeometry.ctrlpts#setter':
            continue
        s = P.summary(fi)
        if s is None:
            continue
        stores = [x for x in walk_no_nested(fi.node) if isinstance(x, ast.Assign) and any(
            ('_control_points' in norm(t) and '_size' not in norm(t)) or norm(t).startswith('self._cache[') for t in x.targets)]
        if not stores:
            continue
        n += 1
        bad = []
        for node, tgt, esc in s.escapes:
            if not (('_control_points' in tgt and '_size' not in tgt) or tgt.startswith('self._cache[')):
                continue
            pointlike = 'weights' not in tgt
            grid = '2D' in tgt       # [u][v] grid of points: the points themselves sit two levels down
            hit = sorted((r, l) for r, l in esc if l == 0 or (l == 1 and pointlike) or (l == 2 and grid))
            if hit:
                bad.append((node, tgt, hit))
        run.ob('ES1.views-own-their-storage', fi.key, not bad,
               'values stored into the control point views are fresh structures' if not bad else
               '`%s` may store %s: the object then shares this list with the caller, whose later edits change this view but not the other two'
               % (bad[0][1], ', '.join('%s%s' % (r[6:], ' itself' if l == 0 else "'s elements") for r, l in bad[0][2])), site(fi, bad[0][0] if bad else None))
    return n
    for ck in (('BSpline', 'Curve'), ('NURBS', 'Curve'), ('BSpline', 'Surface'), ('NURBS', 'Surface'), ('BSpline', 'Volume'), ('NURBS', 'Volume')):
        st = m.lookup(ck, 'ctrlpts', 'setters')
        ok = st is not None and st.key != 'abstract.SplineGeometry.ctrlpts#setter'
        run.ob('ES1.raw-setter-shadowed', '%s.%s.ctrlpts' % ck, ok, 'resolves to %s' % (st.key if st else None), site(st) if st else '')
    if n < 8:
        raise AnalysisError('ES1: only %d methods storing control point views found' % n)


# ---------------------------------------------------------------------------------------------- WS1 / WS2
def weight_slot(m, run):
    maps = {}
    W = Poly.atom('W')
    c = Poly.atom('c')
    for key, (kind, slotkind) in CONVERTERS.items():
        fi = m.func(key)
        pms = pointmap.extract(fi.node)
        if len(pms) != 1:
            raise AnalysisError('%s: expected exactly one per-point construction, found %d (unknown idiom)' % (key, len(pms)))
        pm = pms[0]
        maps[key] = pm
        want = c * W if kind == 'mul' else c * Poly.atom('inv(W)')
        run.ob('WS1.weight-slot', key + ' :: coordinate map', pm.coord == want,
               'each coordinate is mapped c -> %s with W the %s' % (pm.coord, 'zip partner weight' if slotkind == 'partner' else "point's own last slot")
               if pm.coord == want else 'coordinate map is c -> %s, expected c -> %s (W = weight of the same point)' % (pm.coord, want), site(fi, pm.node))
        # domain: all coordinates of the point
        if slotkind == 'own-slot':
            ok = pm.domain == ('all',) and pm.slot_how == 'overwrite-last' and pm.slot == W
            why = 'comprehension over the whole point, last slot then overwritten by the weight itself' if ok else \
                'expected: comprehension over the whole point and `temp[-1] = float(point[-1])`; found domain %s, slot %s (%s)' % (pm.domain, pm.slot, pm.slot_how)
        elif slotkind == 'partner':
            ok = pm.domain == ('all',) and pm.slot_how == 'append' and pm.slot == W
            why = 'all coordinates scaled, partner weight appended' if ok else 'found domain %s, slot %s (%s)' % (pm.domain, pm.slot, pm.slot_how)
        else:
            ok = pm.domain == ('upto', -1) and pm.slot_how is None
            why = 'all coordinates but the weight slot are divided' if ok else 'found domain %s, slot %s' % (pm.domain, pm.slot_how)
            # the weight list receives the point's own last slot
            app = [n for n in ast.walk(pm.loop) if isinstance(n, ast.Call) and isinstance(n.func, ast.Attribute) and n.func.attr == 'append'
                   and n.args and norm(n.args[0]) == '%s[-1]' % pm.point]
            run.ob('WS1.weight-slot', key + ' :: weight extracted', bool(app), 'weights.append(%s[-1])' % pm.point if app else 'no append of the point\'s own weight slot', site(fi, pm.loop))
        run.ob('WS1.weight-slot', key + ' :: domain and slot', ok, why, site(fi, pm.node))
        # the transformed point is what is collected
        coll = [n for n in ast.walk(pm.loop) if isinstance(n, ast.Call) and isinstance(n.func, ast.Attribute) and n.func.attr == 'append'
                and n.args and isinstance(n.args[0], ast.Name) and n.args[0].id == pm.temp]
        run.ob('WS1.weight-slot', key + ' :: result collected', bool(coll), 'the new point is appended to the result' if coll else 'new point never appended', site(fi, pm.node))
    return maps


def inverse_pairs(m, run, maps):
    c = Poly.atom('c')
    for a, b in INVERSE_PAIRS:
        fa, fb = maps[a].coord, maps[b].coord
        comp = fb.subs('c', fa)
        run.ob('WS2.inverse-pair', '%s o %s' % (b.split('.')[-1], a.split('.')[-1]), comp == c,
               'composition of the coordinate maps is %s' % comp, site(m.func(b)))


# ---------------------------------------------------------------------------------------------- WS3 setters
def setters(m, run):
    # the three views are driven through the real accessors of the rational classes on exact symbolic data (WS5); the rules that read the
    # spelling of the setters (argument roles at the combiner, the store on every path, the order of the sizes) corroborate
    from .. import skel_drivers as _sd
    n0 = len(run.obs)
    try:
        _sd.ws5(m, run)
    except AnalysisError as ex:
        run.error(str(ex))
    ok = len(run.obs) > n0 and all(o.ok for o in run.obs[n0:])
    with run.corroborating(ok, 'WS5', rules=('WS3.setter-roles', 'WS4.setter-always-stores')):
        _setters_syntactic(m, run)


def _setters_syntactic(m, run):
    n = 0
    funcs = []
    for cname in ('Curve', 'Surface', 'Volume'):
        ci = m.cls('NURBS', cname)
        for prop, roles in (('ctrlpts', ('value', 'weights')), ('weights', ('ctrlpts', 'value'))):
            fi = ci.setters.get(prop)
            if fi is None:
                raise AnalysisError('NURBS.%s.%s setter not found' % (cname, prop))
            funcs.append(fi)
            calls = [x for x in walk_no_nested(fi.node) if isinstance(x, ast.Call) and isinstance(x.func, ast.Attribute)
                     and x.func.attr == 'combine_ctrlpts_weights']
            if len(calls) != 1 or len(calls[0].args) != 2:
                raise AnalysisError('%s: expected one combine_ctrlpts_weights(points, weights) call' % fi.key)
            a0, a1 = calls[0].args
            value_param = params_of(fi.node)[1]

            def kind(e):
                if isinstance(e, ast.Name) and e.id == value_param:
                    return 'value'
                if isinstance(e, ast.Attribute) and e.attr in ('ctrlpts', 'weights'):
                    return e.attr
                if isinstance(e, ast.Name):
                    # local: weights = self.weights | [1.0 ...]
                    ds = [x.value for x in walk_no_nested(fi.node) if isinstance(x, ast.Assign) and any(isinstance(t, ast.Name) and t.id == e.id for t in x.targets)]
                    ks = set()
                    for d in ds:
                        if isinstance(d, ast.Attribute):
                            ks.add(d.attr)
                        elif isinstance(d, ast.ListComp) and isinstance(d.elt, ast.Constant):
                            ks.add('weights')
                    return ks.pop() if len(ks) == 1 else None
                return None
            got = (kind(a0), kind(a1))
            n += 1
            run.ob('WS3.setter-roles', fi.key + ' :: combine(points, weights)', got == roles,
                   'combine_ctrlpts_weights(%s, %s): roles %s' % (norm(a0), norm(a1), got) if got == roles else
                   'combine_ctrlpts_weights(%s, %s) has roles %s, expected %s (points first, weights second)' % (norm(a0), norm(a1), got, roles),
                   site(fi, calls[0]))
            # the combined list is what is stored
            st = [x for x in walk_no_nested(fi.node) if isinstance(x, ast.Call) and isinstance(x.func, ast.Attribute) and x.func.attr == 'set_ctrlpts']
            okst = len(st) == 1 and st[0].args and isinstance(st[0].args[0], ast.Name)
            run.ob('WS3.setter-roles', fi.key + ' :: stores combined points', bool(okst), 'set_ctrlpts(%s, ...)' % (norm(st[0].args[0]) if okst else '?'), site(fi))
            # the store is reached on every path that returns normally: the getters hand out the cached lists themselves, so a value
            # comparison with the current view cannot tell "unchanged" from "edited in place by the caller"
            getter = ci.getters.get(prop)
            hands_out_cache = getter is not None and any(isinstance(r, ast.Return) and isinstance(r.value, ast.Subscript) and norm(r.value.value) == 'self._cache'
                                                         for r in walk_no_nested(getter.node))
            if okst and not hands_out_cache:
                run.note('WS4.setter-always-stores', fi.key, 'the getter does not return the cached list itself: rule not applicable')
            if okst and hands_out_cache:
                from ..cfg import CFG
                cfg = CFG(fi.node)
                always = cfg.must_pass(lambda nd: any(x is st[0] for x in ast.walk(nd.ast)))
                run.ob('WS4.setter-always-stores', fi.key, always, 'every normal path stores the recombined points' if always else
                       'a path returns without storing: assigning a list that was obtained from the getter and edited in place is silently dropped '
                       '(the getter returns the cached list itself, so it always compares equal)', site(fi, st[0]))
        for prop in ('ctrlptsw',):
            fi = ci.setters.get(prop)
            if fi is not None:
                funcs.append(fi)
    ra.ly3_positional_sizes(m, run, funcs)
    run.floor('WS3.setter-roles', 12, '3 classes x 2 setters x 2')
    run.floor('LY3.sizes-in-axis-order', 10, 'surface/volume rational setters')


# ---------------------------------------------------------------------------------------------- PP1
def per_point_index(m, run):
    from .. import skel_drivers as _sd
    n0 = len(run.obs)
    _sd.pp2(m, run)
    ok = all(o.ok for o in run.obs[n0:])
    with run.corroborating(ok, 'PP2', rules=('PP1.per-point-index',)):
        _per_point_index_syntactic(m, run)


def _per_point_index_syntactic(m, run):
    fi = m.cls('CPGen', 'GridWeighted').getters.get('grid')
    if fi is None:
        raise AnalysisError('CPGen.GridWeighted.grid getter not found')
    n = 0
    for outer in [x for x in walk_no_nested(fi.node) if isinstance(x, ast.For)]:
        inner = [x for x in ast.walk(outer) if isinstance(x, ast.For) and x is not outer]
        if not inner:
            continue
        inner = inner[0]
        ocnt, oelem = enum_vars(outer)
        icnt, ielem = enum_vars(inner)
        subs = [x for x in ast.walk(inner) if isinstance(x, ast.Subscript) and isinstance(x.value, ast.Attribute) and x.value.attr == '_weights'
                and isinstance(x.ctx, ast.Load)]
        # follow one local:  weight = self._weights[...]
        for s in subs:
            n += 1
            key = '%s :: %s' % (fi.key, norm(s))
            try:
                p = to_poly(s.slice, env=lambda nm: None)
            except NotPoly:
                run.ob('PP1.per-point-index', key, False, 'index is not a polynomial in the loop counters')
                continue
            atoms = p.atoms()
            both = ocnt in atoms and icnt is not None and icnt in atoms
            okstride = False
            if both:
                ci_ = p.coeff_of(icnt)
                co = p.coeff_of(ocnt)
                inner_len = 'len(%s)' % norm(inner.iter.args[0] if isinstance(inner.iter, ast.Call) and inner.iter.args else inner.iter)
                okstride = ci_ == Poly.const(1) and co is not None and repr(co) == inner_len
            run.ob('PP1.per-point-index', key, both and okstride,
                   'flat per-point weight list indexed by %s (inner counter stride 1, outer counter stride = inner extent)' % p if both and okstride else
                   'the weights list has one entry per grid point, but the index `%s` %s' % (
                       norm(s.slice), 'does not depend on both loop levels (outer counter %s, inner counter %s)' % (ocnt, icnt) if not both
                       else 'has strides that do not address point (row, column) as column + row*len(row)'), site(fi, s))
    if n == 0:
        raise AnalysisError('GridWeighted.grid: no read of the per-point weight list inside the row/column nest (unknown idiom)')


def enum_vars(loop):
    if isinstance(loop.target, ast.Tuple) and isinstance(loop.iter, ast.Call) and isinstance(loop.iter.func, ast.Name) \
            and loop.iter.func.id == 'enumerate' and len(loop.target.elts) == 2:
        return loop.target.elts[0].id, loop.target.elts[1].id
    if isinstance(loop.target, ast.Name):
        return None, loop.target.id
    return None, None


# ---------------------------------------------------------------------------------------------- CV1
REQUIRED = {'convert_curve': {'degree', 'knotvector', 'ctrlpts'},
            'convert_surface': {'degree_u', 'degree_v', 'knotvector_u', 'knotvector_v', 'ctrlpts', 'ctrlpts_size_u', 'ctrlpts_size_v'},
            'convert_volume': {'degree_u', 'degree_v', 'degree_w', 'knotvector_u', 'knotvector_v', 'knotvector_w', 'ctrlpts',
                               'ctrlpts_size_u', 'ctrlpts_size_v', 'ctrlpts_size_w'}}


def converters(m, run):
    for name, req in REQUIRED.items():
        fi = m.func('_convert.' + name)
        src = params_of(fi.node)[0]
        assigned = {}
        order = []
        for st in fi.node.body:
            if isinstance(st, ast.Assign) and len(st.targets) == 1 and isinstance(st.targets[0], ast.Attribute) and isinstance(st.value, ast.Attribute):
                t, v = st.targets[0], st.value
                ok = t.attr == v.attr and isinstance(v.value, ast.Name) and v.value.id == src
                run.ob('CV1.convert-copies-same-axis', '%s :: %s' % (fi.key, norm(st)), ok,
                       'copied from the same property of the source' if ok else 'target property %s is filled from source property %s' % (t.attr, norm(v)), site(fi, st))
                assigned[t.attr] = st
                order.append(t.attr)
        missing = req - set(assigned)
        run.ob('CV1.convert-copies-same-axis', fi.key + ' :: all defining properties copied', not missing,
               'copies %s' % sorted(assigned) if not missing else 'defining properties never copied: %s' % sorted(missing), site(fi))
        # sizes before ctrlpts (the flat setter needs them), ctrlpts before knot vectors (the knot vector check needs the count)
        if 'ctrlpts' in order:
            ic = order.index('ctrlpts')
            bad = [a for a in order[ic:] if a.startswith('ctrlpts_size') or a.startswith('degree')]
            late_kv = [a for a in order[:ic] if a.startswith('knotvector')]
            run.ob('CV1.convert-order', fi.key + ' :: protocol order', not bad and not late_kv,
                   'degrees and sizes, then control points, then knot vectors' if not bad and not late_kv else
                   'definition protocol violated: %s assigned after ctrlpts / %s before ctrlpts' % (bad, late_kv), site(fi))
    # the converted shape is parametrised like its source: it is constructed with the source's knot vector normalisation setting
    # (a default-constructed shape re-normalises the copied knot vectors onto [0, 1] and no longer evaluates at the source's parameters)
    for kind in ('curve', 'surface', 'volume'):
        fi = m.func('_convert.convert_' + kind)
        src = params_of(fi.node)[0]
        ctor = [a.value for a in walk_no_nested(fi.node) if isinstance(a, ast.Assign) and isinstance(a.value, ast.Call) and isinstance(a.value.func, ast.Attribute)
                and a.value.func.attr.lower() == kind]
        if not ctor:
            raise AnalysisError('%s: construction of the converted shape not found' % fi.key)
        kw = next((k.value for k in ctor[0].keywords if k.arg == 'normalize_kv'), None)
        ok = kw is not None and any(isinstance(x, ast.Name) and x.id == src for x in ast.walk(kw))
        run.ob('CV2.converted-shape-keeps-parametrisation', fi.key, ok, 'constructed with normalize_kv taken from the source' if ok else
               '`%s` creates the converted shape with the default normalize_kv=True: a source built with normalize_kv=False is re-parametrised onto [0, 1] '
               'and is no longer an identically evaluating shape' % norm(ctor[0]), site(fi))
    # convert.py dispatch: each isinstance(obj, X.K) branch calls convert_<k>
    for fname in ('bspline_to_nurbs', 'nurbs_to_bspline'):
        fi = m.func('convert.' + fname)
        for n in ast.walk(fi.node):
            if isinstance(n, ast.If) and isinstance(n.test, ast.Call) and norm(n.test.func) == 'isinstance' and len(n.test.args) == 2 \
                    and isinstance(n.test.args[1], ast.Attribute):
                kind = n.test.args[1].attr.lower()
                src_mod = norm(n.test.args[1].value)
                calls = [c for st in n.body for c in ast.walk(st) if isinstance(c, ast.Call) and isinstance(c.func, ast.Attribute) and c.func.attr.startswith('convert_')]
                ok = len(calls) == 1 and calls[0].func.attr == 'convert_' + kind and len(calls[0].args) == 2 and norm(calls[0].args[1]) != src_mod
                run.ob('CV1.convert-dispatch', '%s :: %s' % (fi.key, norm(n.test)), ok,
                       '%s -> %s' % (norm(n.test.args[1]), norm(calls[0]) if calls else '?'), site(fi, n))


# ---------------------------------------------------------------------------------------------- TOL1
def tol_two_sided(m, run, funcs, rule='TOL1.two-sided-tolerance'):
    """a comparison of a difference against a tolerance must take the absolute value of the difference"""
    n = 0
    for fi in funcs:
        tolnames = {x.targets[0].id for x in walk_no_nested(fi.node) if isinstance(x, ast.Assign) and len(x.targets) == 1
                    and isinstance(x.targets[0], ast.Name) and isinstance(x.value, ast.Call) and isinstance(x.value.func, ast.Attribute)
                    and x.value.func.attr == 'get' and x.value.args and isinstance(x.value.args[0], ast.Constant) and 'tol' in str(x.value.args[0].value)}
        tolnames |= {p for p in params_of(fi.node) if 'tol' in p}
        for x in walk_no_nested(fi.node):
            if isinstance(x, ast.Compare) and len(x.ops) == 1 and isinstance(x.ops[0], (ast.Lt, ast.LtE, ast.Gt, ast.GtE)):
                l, r = x.left, x.comparators[0]
                for a, b in ((l, r), (r, l)):
                    small = isinstance(b, ast.Constant) and isinstance(b.value, float) and 0 < b.value < 1e-3
                    if (isinstance(b, ast.Name) and b.id in tolnames) or small:
                        n += 1
                        is_abs = isinstance(a, ast.Call) and isinstance(a.func, ast.Name) and a.func.id == 'abs'
                        if isinstance(a, ast.Name):
                            # a local standing for a difference:  delta = stop - start
                            ds = [y.value for y in walk_no_nested(fi.node) if isinstance(y, ast.Assign) and len(y.targets) == 1 and isinstance(y.targets[0], ast.Name)
                                  and y.targets[0].id == a.id]
                            if len(ds) == 1:
                                a = ds[0]
                                is_abs = isinstance(a, ast.Call) and isinstance(a.func, ast.Name) and a.func.id == 'abs'
                        diff = isinstance(a, ast.BinOp) and isinstance(a.op, ast.Sub)
                        ok = is_abs or not diff
                        run.ob(rule, '%s :: %s' % (fi.key, norm(x)), ok,
                               'absolute difference compared with the tolerance' if ok else
                               'signed difference `%s` compared with tolerance `%s`: deviations in one direction are never detected' % (norm(a), norm(b)),
                               site(fi, x))
    return n
