"""C04 - knot insertion never changes the shape (structural part)."""
from .. import ops_common as oc

DECIDES = ('for insert_knot x {curve, surface u/v, volume u/v/w}: every per-direction helper call, guard and knot-vector update of a block '
           'belongs to the block\'s own direction (AX3/AX1); control rows are gathered from the canonical net with correct strides of the '
           'object\'s own sizes (LY1), passed through A5.1 and scattered back in canonical order (LY2: flip_ctrlpts_u exactly in the surface-u '
           'block with the new sizes; volume slabs read back as built; flatten nest w,u,v); the net grows by num[k] on direction k only and '
           'sizes are passed in (u, v, w) order (LY3); every mutation is dominated by the false outcome of `check_num and num[k] > degree_k - s_k` '
           'with s_k = find_multiplicity(param[k], knotvector_k), exact strict inequality (GD2); the net is replaced before the knot vector; '
           'the object wrappers fill the (u, v, w) parameter/count lists from the matching keywords, mutate nothing before delegating and catch '
           'only the rejection (WR1). the input rows of A5.1 are never mutated and cells of its in-place-updated work array leave it only as deep copies  (PU1, AL1); [SKEL, bounded] A5.1 assigns every one of the n + num output cells a defined point of the input shape (rows and volume slabs) and the new knot vector every slot, for degree 1..5, every admissible span / multiplicity / count. [ORDER TYPES, exact per type] knot_insertion_kv returns the sorted merge of the old knot vector and num copies of the parameter (KI1). the [0, 1] parameter rejection is only evaluated for shapes with normalised knot vectors (RG1). the unweighted-points / weights views of rational shapes cannot survive the replacement of the net (IV1 restricted to these caches). the wrappers reach the operation on every normally returning path (WR1.always-delegates), optional coordinates are tested with `is None` (NONE1), and knot_insertion_kv leaves its input knot vector untouched (PU1). [SKEL, abstract object] interpreted on an object created with normalize_kv=False, the named methods never reach utilities.check_params and hand the request on to the evaluator / operation (RG2: spelling-independent form of RG1). [SKEL, abstract objects] the whole operation interpreted on abstract curves, surfaces and volumes with index-labelled control points, ordered knots and a row helper of known effect: per requested direction and for all directions at once the net changes along the requested directions only, set_ctrlpts receives the new sizes in (u, v, w) order and every cell of the new flat list is the input cell at the mapped coordinates, the row helper receives the degree, row count and count of its direction, knot vectors of other directions are untouched, and no parameter value is used as a truth value (OPS2: spelling-independent form of AX3 / LY1 / LY2 / LY3 / GA1).')
NOT_DECIDED = ('that evaluated points are unchanged (needs C01); the blending arithmetic is decided as an exact identity for the three enumerated nets (degree 2 and 3, simple and double interior knots), not for every degree and knot vector, and not to floating-point rounding.')
TECHNIQUE = 'axis-tag dataflow, stride rule in polynomial normal form, CFG dominance of guards, structural gather/scatter rules'
DECIDES += (' [ABSTRACT INTERPRETATION, exact] KI3: helpers.knot_insertion on exact rational knots and symbolic control points equals r single Boehm insertions, for every span, existing multiplicity and admissible count of three nets.')
DECIDES += (' KD5: the setters store floats in fresh lists (the row helpers dispatch on isinstance(x[0][0], float)); TOL2: the multiplicity count the admissibility test relies on compares every knot with the parameter through the tolerance.')


def check(m, run):
    fi = m.func('operations.insert_knot')
    from .. import skel_drivers as _sd
    _sd.kir3(m, run, ('insert',))        # A5.1 on exact rational knots and symbolic control points equals repeated single insertions
    oc.shared_dependencies(m, run)
    oc.block_rules(m, run, fi, 'insert')
    oc.wrapper_rules(m, run, 'insert_knot', '_insert_knot_func')
    oc.optional_coordinate_rule(m, run)
    from .. import rules_state as rs
    rs.iv1(m, run, [('NURBS', 'Curve'), ('NURBS', 'Surface'), ('NURBS', 'Volume')], caches_filter=lambda c: c in ("_cache['ctrlpts']", "_cache['weights']"))
    oc.unit_range_rule(m, run, ('insert_knot',))
    run.floor('RG2.no-unit-range-test-for-un-normalised-shapes', 3, 'insert_knot of the three shape classes')
    _skel(m, run)
    # aliasing inside the row helpers is decided by the exact runs on rows of points (KI3: shared rows change together, and the rows handed
    # in must stay what they were); the rule that reads which stores are deep copies corroborates
    sem_ok_ = all(o.ok for o in run.obs if o.rule.startswith('KI3'))
    with run.corroborating(sem_ok_, 'KI3', rules=('AL1.no-shared-cells', 'PU1.rows-not-mutated')):
        oc.helper_alias_rules(m, run, 'helpers.knot_insertion')
    run.floor('AL1.no-shared-cells', 3, 'deep copies out of the work array of A5.1')
    # the admissibility test relies on the multiplicity count: every knot within the tolerance of the parameter is counted
    from . import c03 as _c03
    _c03.multiplicity_rules(m, run)
    from .. import skel_drivers as _sdk
    _sdk.kd5(m, run)       # the per-row helpers dispatch on isinstance(point[0], float): the setters store floats


def _skel(m, run):
    from .. import skel_drivers
    skel_drivers.c04(m, run)
    skel_drivers.c04_kv(m, run)
    from . import c06
    c06.kv_pure(m, run, 'helpers.knot_insertion_kv')
