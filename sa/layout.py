"""LAYOUT: abstract interpretation of flat control nets.

Abstract value of a list = its layout: nesting levels, and per level an ordered list of positions (label, extent), fastest first;
extents are polynomials over size atoms, labels name the *source* parametric direction (e.g. 'A.u') so that axis remappings
(construct / extract / transpose) can be followed.  Transfer functions: [] + append / += in loop nests, comprehensions,
index reads with stride matching (LY1: stride, label and extent of every index variable must match the position it addresses),
summaries of the flip helpers (derived from their own bodies), knot helper summaries, len().
Anything not understood evaluates to Unk; rules are emitted only where every ingredient is resolved.
"""
import ast
import re
from .model import norm, walk_no_nested, params_of, AnalysisError
from .poly import Poly, to_poly, NotPoly

AXL = 'uvw'


class Sym(object):
    def __init__(self, p, label=None):
        self.p = p if isinstance(p, Poly) else Poly.const(p)
        self.label = label

    def __repr__(self):
        return 'Sym(%s|%s)' % (self.p, self.label)


class Lay(object):
    def __init__(self, levels):
        self.levels = [list(l) for l in levels]

    def flat(self):
        return len(self.levels) == 1

    def __repr__(self):
        return 'Lay(' + ' / '.join('[' + ', '.join('%s:%s' % (l, e) for l, e in lv) + ']' for lv in self.levels) + ')'

    def same(self, other):
        return len(self.levels) == len(other.levels) and all(
            len(a) == len(b) and all(x[0] == y[0] and x[1] == y[1] for x, y in zip(a, b)) for a, b in zip(self.levels, other.levels))


class Obj(object):
    def __init__(self, name, pdim, labels=None):
        self.name, self.pdim, self.ver = name, pdim, 0
        self.labels = labels or ['%s.%s' % (name, a) for a in AXL[:pdim]]
        self.attrs = {}      # declared (assigned) attributes of a freshly built object

    def size(self, axis):
        return Sym(Poly.atom('%s.S%s%s' % (self.name, AXL[axis], '' if self.ver == 0 else "'" * self.ver)), self.labels[axis])

    def canon(self):
        order = [1, 0, 2][:self.pdim] if self.pdim > 1 else [0]
        return Lay([[(self.labels[a], self.size(a).p) for a in order]])

    def __repr__(self):
        return 'Obj(%s)' % self.name


class Unk(object):
    def __repr__(self):
        return 'Unk'


UNK = Unk()


class Fresh(object):
    def __init__(self, depth):
        self.depth, self.rec = depth, None


class Prealloc(object):
    """pre-allocated flat list addressed by index: its layout is the common stride assignment of all its writes"""

    def __init__(self, extent):
        self.extent = extent          # Poly: total number of cells
        self.lay = None


class Finding(object):
    def __init__(self, rule, node, msg):
        self.rule, self.node, self.msg = rule, node, msg


class Interp(object):
    def __init__(self, key, env, summaries=None, select=None):
        self.key = key
        self.env = dict(env)
        self.loops = []                 # [(var atom name, label or None, extent Poly, ast name)]
        self.varlabel = {}              # loop var atom -> label learned from the position it addresses
        self.summ = summaries or {}
        self.findings = []
        self.checked = []               # (rule, node, ok, text)
        self.select = select            # callable(test node) -> True/False/None
        self.counter = 0
        self.fused = {}

    # ------------------------------------------------------------------ reporting
    def report(self, rule, node, ok, msg):
        self.checked.append((rule, node, ok, msg))

    # ------------------------------------------------------------------ expressions
    def ev(self, e):
        if isinstance(e, ast.Constant):
            return Sym(Poly.const(e.value)) if isinstance(e.value, int) and not isinstance(e.value, bool) else UNK
        if isinstance(e, ast.Name):
            return self.env.get(e.id, UNK)
        if isinstance(e, ast.Attribute):
            b = self.ev(e.value)
            if isinstance(b, Obj):
                if e.attr in b.attrs:
                    return b.attrs[e.attr]
                mm = re.match(r'ctrlpts_size_([uvw])$', e.attr)
                if mm:
                    return b.size(AXL.index(mm.group(1)))
                if e.attr == 'ctrlpts_size':
                    if b.pdim == 1:
                        return b.size(0)
                    p = Poly.const(1)
                    for a in range(b.pdim):
                        p = p * b.size(a).p
                    return Sym(p, None)
                if e.attr in ('ctrlpts', 'ctrlptsw', 'weights', '_control_points'):
                    return b.canon()
                if e.attr == 'ctrlpts2d' and b.pdim == 2:
                    return Lay([[(b.labels[0], b.size(0).p)], [(b.labels[1], b.size(1).p)]])
                mm = re.match(r'(degree|knotvector|sample_size|delta)_([uvw])$', e.attr)
                if mm:
                    return Sym(Poly.atom('%s.%s' % (b.name, e.attr)), b.labels[AXL.index(mm.group(2))])
                if e.attr in ('degree', 'knotvector') and b.pdim == 1:
                    return Sym(Poly.atom('%s.%s' % (b.name, e.attr)), b.labels[0])
            return UNK
        if isinstance(e, ast.IfExp):
            a, b = self.ev(e.body), self.ev(e.orelse)
            if isinstance(a, Lay) and isinstance(b, Lay) and a.same(b):
                return a
            return UNK
        if isinstance(e, ast.BinOp):
            a, b = self.ev(e.left), self.ev(e.right)
            if isinstance(a, Sym) and isinstance(b, Sym):
                if isinstance(e.op, ast.Add):
                    p = a.p + b.p
                elif isinstance(e.op, ast.Sub):
                    p = a.p - b.p
                elif isinstance(e.op, ast.Mult):
                    p = a.p * b.p
                else:
                    return UNK
                labs = {x.label for x in (a, b) if x.label is not None}
                return Sym(p, labs.pop() if len(labs) == 1 else None)
            return UNK
        if isinstance(e, ast.Subscript):
            return self.subscript(e)
        if isinstance(e, ast.List) and not e.elts:
            return Fresh(len(self.loops))
        if isinstance(e, ast.ListComp):
            return self.listcomp(e)
        if isinstance(e, ast.Call):
            return self.call(e)
        if isinstance(e, ast.Tuple):
            return tuple(self.ev(x) for x in e.elts)
        return UNK

    def subscript(self, e):
        base = self.ev(e.value)
        if isinstance(base, tuple) and isinstance(e.slice, ast.Constant) and isinstance(e.slice.value, int):
            return base[e.slice.value] if e.slice.value < len(base) else UNK
        if isinstance(base, dict) and isinstance(e.slice, ast.Constant):
            return base.get(e.slice.value, UNK)
        if isinstance(base, Fresh):
            base = self.finish(base)
        if isinstance(base, Prealloc):
            base = base.lay if base.lay is not None else UNK
        if not isinstance(base, Lay):
            return UNK
        if isinstance(e.slice, ast.Slice):
            return self.slab_slice(base, e)
        idx = self.ev(e.slice)
        if not isinstance(idx, Sym):
            return UNK
        self.check_index(base.levels[0], idx, e)
        return Lay(base.levels[1:]) if len(base.levels) > 1 else 'pt'

    def slab_slice(self, base, e):
        """whole-slab slicing  L[S*i : S*(i+1)]  with S the product of the k fastest extents: the slab keeps those k positions and
        the loop variable i addresses position k (its extent must be that position's extent)"""
        sl = e.slice
        if sl.lower is None or sl.upper is None or sl.step is not None or not base.flat():
            return UNK
        lo, hi = self.ev(sl.lower), self.ev(sl.upper)
        if not isinstance(lo, Sym) or not isinstance(hi, Sym):
            return UNK
        lv = {name: (lab, ext) for name, lab, ext, _ in self.loops}
        used = [v for v in lv if v in lo.p.atoms()]
        if len(used) != 1:
            return UNK
        v = used[0]
        S = lo.p.coeff_of(v)
        if S is None or lo.p != S * Poly.atom(v) or hi.p != S * (Poly.atom(v) + 1):
            self.report('LY1', e, False, 'slice bounds [%s : %s] are not a whole slab S*i .. S*(i+1)' % (lo.p, hi.p))
            return UNK
        pos = base.levels[0]
        prod, k = Poly.const(1), 0
        while k < len(pos) and prod != S:
            prod = prod * pos[k][1]
            k += 1
        if prod != S or k >= len(pos):
            self.report('LY1', e, False, 'slab size %s is not the product of the fastest extents of %s' % (S, base))
            return UNK
        lab, ext = lv[v]
        ok = ext == pos[k][1]
        self.report('LY1', e, ok, 'slab %s of %s, one per %s' % (S, base, pos[k][0]) if ok else
                    'the slab loop runs over %s slabs but the list holds %s of them (direction %s): %s' % (
                        ext, pos[k][1], pos[k][0], 'the last slabs are dropped' if True else ''))
        have = self.varlabel.get(v, lab)
        if pos[k][0] is not None:
            self.varlabel[v] = pos[k][0]
        return Lay([pos[:k]])

    def check_index(self, positions, idx, node):
        """LY1: match every loop variable of the index to a position by stride; check label and extent"""
        lv = {name: (lab, ext) for name, lab, ext, _ in self.loops}
        used = [v for v in lv if v in idx.p.atoms()]
        if not used:
            return
        # constant part / non-loop atoms: allowed only as multiples handled elsewhere (e.g. slab bases) - require none
        others = [a for a in idx.p.atoms() if a not in lv and not a.endswith(('.Su', '.Sv', '.Sw')) and 'S' not in a.split('.')[-1][:1]]
        strides = []
        for v in used:
            c = idx.p.coeff_of(v)
            if c is None:
                self.report('LY1', node, False, 'index is not linear in %s' % v)
                return
            strides.append((c, v))
        strides.sort(key=lambda t: (len(t[0].atoms()), repr(t[0])))
        stride = Poly.const(1)
        pi = 0
        ok = True
        msgs = []
        for c, v in strides:
            lab, ext = lv[v]
            if pi >= len(positions):
                ok = False
                msgs.append('variable %s has no position left in layout %s' % (v.split('#')[0], positions))
                break
            if c != stride:
                ok = False
                msgs.append('variable %s is multiplied by %s, but the positions faster than it have extent %s' % (v.split('#')[0], c, stride))
            # fused variable: its extent is the product of several consecutive positions
            prod = Poly.const(1)
            k = pi
            while k < len(positions) and prod * positions[k][1] != ext and prod != ext:
                prod = prod * positions[k][1]
                k += 1
            if k < len(positions) and prod * positions[k][1] == ext:
                fusedpos = positions[pi:k + 1]
                if len(fusedpos) == 1:
                    plab = fusedpos[0][0]
                    have = self.varlabel.get(v, lab)
                    if have is not None and plab is not None and have != plab:
                        ok = False
                        msgs.append('variable %s runs over direction %s but addresses the position of direction %s' % (v.split('#')[0], have, plab))
                    self.varlabel[v] = plab if plab is not None else have
                else:
                    self.fused[v] = fusedpos
                stride = stride * ext
                pi = k + 1
            else:
                ok = False
                msgs.append('variable %s ranges over %s but the position it addresses (stride %s) has extent %s' % (
                    v.split('#')[0], ext, stride, positions[pi][1]))
                stride = stride * positions[pi][1]
                pi += 1
        self.report('LY1', node, ok, '; '.join(msgs) if msgs else 'index %s matches layout %s' % (idx.p, positions))

    def push_loop(self, name, ext):
        self.counter += 1
        atom = '%s#%d' % (name, self.counter)
        lab = ext.label if isinstance(ext, Sym) else None
        extp = ext.p if isinstance(ext, Sym) else Poly.atom('ext#%d' % self.counter)
        self.loops.append((atom, lab, extp, name))
        self.env[name] = Sym(Poly.atom(atom), lab)
        return atom

    def pop_loop(self):
        return self.loops.pop()

    def loop_label(self, atom, lab):
        return self.varlabel.get(atom, lab)

    def listcomp(self, e):
        g = e.generators[0]
        if len(e.generators) != 1:
            return UNK
        if not (isinstance(g.iter, ast.Call) and norm(g.iter.func) == 'range' and isinstance(g.target, ast.Name)):
            it = self.ev(g.iter)
            if isinstance(it, Lay) and isinstance(e.elt, ast.Name) and isinstance(g.target, ast.Name) and e.elt.id == g.target.id:
                return it
            return 'pt' if it == 'pt' else UNK
        ext = self.ev(g.iter.args[-1] if len(g.iter.args) < 3 else g.iter.args[1])
        if isinstance(e.elt, (ast.List, ast.Constant)) and not getattr(e.elt, 'elts', None) and isinstance(ext, Sym):
            return Prealloc(ext.p)
        old = self.env.get(g.target.id)
        atom = self.push_loop(g.target.id, ext)
        el = self.ev(e.elt)
        a, lab, extp, _ = self.pop_loop()
        lab = self.loop_label(atom, lab)
        if old is None:
            self.env.pop(g.target.id, None)
        else:
            self.env[g.target.id] = old
        fp = self.fused.get(atom)
        if el == 'pt' and fp and len(fp) > 1:
            return Lay([list(fp)])
        if el == 'pt':
            return Lay([[(lab, extp)]])
        if isinstance(el, Lay):
            return Lay([[(lab, extp)]] + el.levels)
        return UNK

    def finish(self, fr):
        if fr.rec is None:
            return UNK
        loops, val, mode = fr.rec
        pos = [(self.loop_label(a, lab), ext) for (a, lab, ext, _) in reversed(loops)]
        if val == 'pt':
            return Lay([pos]) if pos else UNK
        if isinstance(val, Lay) and mode == 'concat':
            return Lay([val.levels[0] + pos] + val.levels[1:])
        if isinstance(val, Lay) and mode == 'append':
            return Lay(([pos] if pos else []) + val.levels)
        return UNK

    def call(self, e):
        f = e.func
        name = f.attr if isinstance(f, ast.Attribute) else (f.id if isinstance(f, ast.Name) else None)
        args = [self.ev(a) for a in e.args]
        args = [self.finish(a) if isinstance(a, Fresh) else (a.lay if isinstance(a, Prealloc) and a.lay is not None else a) for a in args]
        kw = {k.arg: self.ev(k.value) for k in e.keywords if k.arg}
        if name in ('knot_insertion', 'knot_removal', 'knot_refinement') and len(args) >= 3:
            rows = args[2]
            if not isinstance(rows, Lay):
                return UNK
            lab, ext = rows.levels[0][-1] if len(rows.levels[0]) == 1 else (None, None)
            if ext is None:
                return UNK
            if name == 'knot_insertion' and isinstance(kw.get('num'), Sym):
                ext = ext + kw['num'].p
            elif name == 'knot_removal' and isinstance(kw.get('num'), Sym):
                ext = ext - kw['num'].p
            else:
                self.counter += 1
                ext = Poly.atom('refined#%d' % self.counter)
            out = Lay([[(lab, ext)]] + rows.levels[1:])
            return out if name != 'knot_refinement' else (out, UNK)
        if name in self.summ:
            return self.summ[name](self, args, e)
        if name == 'len' and len(args) == 1:
            a = args[0]
            if isinstance(a, Lay) and len(a.levels[0]) == 1:
                return Sym(a.levels[0][0][1], a.levels[0][0][0])
            if isinstance(a, Lay):
                p = Poly.const(1)
                for _, x in a.levels[0]:
                    p = p * x
                return Sym(p, None)
            return UNK
        if name in ('list', 'tuple') and args:
            return args[0]
        if name == 'set_ctrlpts' and isinstance(f, ast.Attribute):
            o = self.ev(f.value)
            if isinstance(o, Obj):
                self.set_ctrlpts(o, args, e)
            return UNK
        return UNK

    def prealloc_store(self, pa, target, node):
        idx = self.ev(target.slice)
        if not isinstance(idx, Sym):
            return
        lv = {name: (lab, ext) for name, lab, ext, _ in self.loops}
        used = [v for v in lv if v in idx.p.atoms()]
        if not used:
            return
        strides = []
        for v in used:
            c = idx.p.coeff_of(v)
            if c is None:
                return
            strides.append((c, v))
        strides.sort(key=lambda t: (len(t[0].atoms()), repr(t[0])))
        pos, stride, ok = [], Poly.const(1), True
        for c, v in strides:
            lab, ext = lv[v]
            if c != stride:
                ok = False
            pos.append((self.varlabel.get(v, lab), ext))
            stride = stride * ext
        rest = idx.p
        for _, v in strides:
            rest = rest.without(v)
        if rest != Poly():
            ok = False
        lay = Lay([pos])
        if not ok:
            self.report('LY1', node, False, 'write index %s is not a mixed-radix index over its loop extents %s' % (idx.p, [(v.split('#')[0], repr(lv[v][1])) for _, v in strides]))
            return
        if pa.lay is None:
            pa.lay = lay
            self.report('LY1', node, True, 'writes define the layout %s' % lay)
        else:
            self.report('LY1', node, pa.lay.same(lay), 'write agrees with the layout %s' % pa.lay if pa.lay.same(lay) else 'this write addresses the array as %s but earlier writes as %s' % (lay, pa.lay))

    def set_ctrlpts(self, o, args, node):
        L = args[0] if args else UNK
        sizes = args[1:]
        if not sizes:
            o.ver += 1
            return
        order = [1, 0, 2][:len(sizes)] if len(sizes) > 1 else [0]
        if not isinstance(L, Lay) or not all(isinstance(s, Sym) for s in sizes):
            self.report('LY3', node, None, 'unresolved: list %r sizes %r' % (L, sizes))
            o.ver += 1
            return
        want = [(None, sizes[a].p) for a in order]
        got = L.levels[0]
        ok = len(L.levels) == 1 and len(got) == len(want) and all(g[1] == w[1] for g, w in zip(got, want))
        labs_ok = True
        if ok:
            # directions: position k of the list must be direction order[k] of the object
            for g, a in zip(got, order):
                if g[0] is not None and g[0] != o.labels[a]:
                    labs_ok = False
        self.report('LY3', node, ok and labs_ok,
                    'list %s matches declared sizes' % L if ok and labs_ok else 'list layout %s does not match the canonical layout of the declared sizes %s (v fastest, then u, then w)'
                    % (L, [(o.labels[a], repr(sizes[a].p)) for a in order]))
        o.ver += 1

    # ------------------------------------------------------------------ statements
    def run(self, body):
        for st in body:
            self.stmt(st)

    def stmt(self, n):
        if isinstance(n, ast.Assign):
            t = n.targets[0]
            if isinstance(t, ast.Tuple) and isinstance(n.value, ast.Tuple) and len(t.elts) == len(n.value.elts):
                vals = [self.ev(x) for x in n.value.elts]
                for a, b in zip(t.elts, vals):
                    if isinstance(a, ast.Name):
                        self.env[a.id] = b
                return
            v = self.ev(n.value)
            if isinstance(t, ast.Tuple) and isinstance(v, tuple):
                for a, b in zip(t.elts, v):
                    if isinstance(a, ast.Name):
                        self.env[a.id] = b
                return
            if isinstance(t, ast.Name):
                self.env[t.id] = v
            elif isinstance(t, ast.Subscript) and isinstance(t.value, ast.Name) and isinstance(self.env.get(t.value.id), Prealloc):
                self.prealloc_store(self.env[t.value.id], t, n)
            elif isinstance(t, ast.Attribute):
                o = self.ev(t.value)
                if isinstance(o, Obj):
                    if isinstance(v, Fresh):
                        v = self.finish(v)
                    o.attrs[t.attr] = v
                    o.attrs.setdefault('__order__', []).append((t.attr, n))
            return
        if isinstance(n, ast.AugAssign) and isinstance(n.op, ast.Add) and isinstance(n.target, ast.Name):
            tgt = self.env.get(n.target.id)
            v = self.ev(n.value)
            if isinstance(v, Fresh):
                v = self.finish(v)
            if isinstance(tgt, Fresh) and isinstance(v, Lay):
                tgt.rec = (self.loops[tgt.depth:], v, 'concat')
            elif isinstance(tgt, Fresh):
                tgt.rec = None
            elif isinstance(tgt, Sym) and isinstance(v, Sym):
                self.env[n.target.id] = UNK
            return
        if isinstance(n, ast.Expr) and isinstance(n.value, ast.Call):
            c = n.value
            if isinstance(c.func, ast.Attribute) and c.func.attr == 'append' and isinstance(c.func.value, ast.Name):
                tgt = self.env.get(c.func.value.id)
                v = self.ev(c.args[0])
                if isinstance(v, Fresh):
                    v = self.finish(v)
                if isinstance(tgt, Fresh):
                    tgt.rec = (self.loops[tgt.depth:], v, 'append') if (v == 'pt' or isinstance(v, Lay)) else None
                return
            self.ev(c)
            return
        if isinstance(n, ast.For):
            if isinstance(n.iter, ast.Call) and norm(n.iter.func) == 'range' and isinstance(n.target, ast.Name):
                ext = self.ev(n.iter.args[-1] if len(n.iter.args) < 3 else n.iter.args[1])
                lo = self.ev(n.iter.args[0]) if len(n.iter.args) >= 2 else Sym(Poly.const(0))
                if isinstance(ext, Sym) and isinstance(lo, Sym) and lo.p != Poly.const(0):
                    ext = UNK
                old = self.env.get(n.target.id)
                self.push_loop(n.target.id, ext)
                self.run(n.body)
                self.pop_loop()
                return
            hook = getattr(self, 'for_hook', None)
            if hook is not None and hook(n):
                return
            self.run(n.body)
            return
        if isinstance(n, ast.If):
            tv = self.select(n.test) if self.select else None
            if tv is True:
                self.run(n.body)
            elif tv is False:
                self.run(n.orelse)
            else:
                self.run(n.body)
                self.run(n.orelse)
            return
        if isinstance(n, (ast.Return, ast.Raise, ast.Pass)):
            return


# ---------------------------------------------------------------------- flip summaries derived from the helpers' own bodies
def derive_flip_on_labels(m, name):
    """the contract of compatibility.<name>(list, size_u, size_v), decided by interpreting it (SKEL) on lists of labelled points for
    three non-square size pairs: 'u-fastest' if for every (u, v) the point at v + size_v * u of the result is the input point at
    u + size_u * v (it turns a u-fastest list into the canonical one), 'canonical' if the result at u + size_u * v is the input at
    v + size_v * u; None if neither holds for all sizes"""
    from . import skel
    fi = m.func('compatibility.' + name)
    verdict = None
    for su, sv in ((2, 3), (3, 2), (4, 3)):
        inp = [[skel.Tok('DEF', dep=frozenset([(k, c)])) for c in range(2)] for k in range(su * sv)]
        sk = skel.SK(m, {})
        try:
            out = sk.call(fi, [inp, su, sv], {})
        except (skel.Violation, skel.Unsupported):
            return None
        if not isinstance(out, list) or len(out) != su * sv:
            return None
        lab = []
        for p in out:
            f = skel.footprint(p) if isinstance(p, (list, tuple)) else None
            ks = {x[0] for x in f} if f else set()
            if len(ks) != 1:
                return None
            lab.append(next(iter(ks)))
        uf = all(lab[v + sv * u] == u + su * v for u in range(su) for v in range(sv))
        ca = all(lab[u + su * v] == v + sv * u for u in range(su) for v in range(sv))
        here = 'u-fastest' if uf and not ca else ('canonical' if ca and not uf else None)
        if here is None or (verdict is not None and verdict != here):
            return None
        verdict = here
    return verdict


def derive_flip(m, name):
    """the contract of a flip helper: decided on labelled lists (spelling-independent); when that is not conclusive, by running the LAYOUT
    interpreter over compatibility.<name> for the two candidate input layouts - the one that is LY1-clean is the contract:
    -> (accepts 'canonical'|'u-fastest', returns Lay over P.Su/P.Sv)"""
    su, sv = Poly.atom('P.Su'), Poly.atom('P.Sv')
    sem = derive_flip_on_labels(m, name)
    if sem is not None:
        return sem, Lay([[('P.v', sv), ('P.u', su)]] if sem == 'u-fastest' else [[('P.u', su), ('P.v', sv)]])
    fi = m.func('compatibility.' + name)
    ps = params_of(fi.node)
    res = None
    for inp_name, inp in (('canonical', [('P.v', sv), ('P.u', su)]), ('u-fastest', [('P.u', su), ('P.v', sv)])):
        it = Interp(fi.key, {ps[0]: Lay([inp]), ps[1]: Sym(su, 'P.u'), ps[2]: Sym(sv, 'P.v')})
        it.run(fi.node.body)
        rets = [n.value for n in walk_no_nested(fi.node) if isinstance(n, ast.Return) and isinstance(n.value, ast.Name)]
        out = it.env.get(rets[0].id) if rets else None
        out = it.finish(out) if isinstance(out, Fresh) else out
        clean = all(ok for _, _, ok, _ in it.checked) and bool(it.checked)
        if clean and isinstance(out, Lay) and res is None:
            res = (inp_name, out)
    if res is None:
        raise AnalysisError('compatibility.%s: no input layout makes its index arithmetic consistent (flip contract not derivable)' % name)
    return res


def flip_summaries(m):
    fl = {n: derive_flip(m, n) for n in ('flip_ctrlpts_u', 'flip_ctrlpts')}

    def mk(name):
        accepts, ret = fl[name]

        def f(it, args, node):
            if len(args) != 3 or not isinstance(args[0], Lay) or not all(isinstance(a, Sym) for a in args[1:]):
                it.report('LY2', node, None, 'unresolved argument of %s: %r' % (name, args))
                return UNK
            L, su, sv = args
            want = [(sv.label, sv.p), (su.label, su.p)] if accepts == 'canonical' else [(su.label, su.p), (sv.label, sv.p)]
            got = L.levels[0]
            ok = len(L.levels) == 1 and len(got) == 2 and all(g[1] == w[1] for g, w in zip(got, want)) and \
                all(g[0] is None or w[0] is None or g[0] == w[0] for g, w in zip(got, want))
            it.report('LY2', node, ok, '%s receives a %s list %s' % (name, accepts, L) if ok else
                      '%s expects a %s list with extents %s, but receives %s' % (name, accepts, [(l, repr(e)) for l, e in want], L))
            outpos = [(sv.label, sv.p), (su.label, su.p)] if accepts == 'u-fastest' else [(su.label, su.p), (sv.label, sv.p)]
            return Lay([outpos])
        return f
    out = {n: mk(n) for n in fl}

    def combine(it, args, node):
        # combine_ctrlpts_weights(points, weights): element-wise, layout preserving; both lists must have the same layout
        if len(args) >= 2 and isinstance(args[0], Lay) and isinstance(args[1], Lay):
            it.report('LY2', node, args[0].same(args[1]), 'points and weights share the layout %s' % args[0] if args[0].same(args[1]) else
                      'points are laid out as %s but the weights as %s: weights are paired with the wrong points' % (args[0], args[1]))
            return args[0]
        return args[0] if args and isinstance(args[0], Lay) else UNK

    def separate(it, args, node):
        if args and isinstance(args[0], Lay):
            return (args[0], args[0])
        return UNK

    def preserve(it, args, node):
        return args[0] if args and isinstance(args[0], Lay) else UNK
    out.update({'combine_ctrlpts_weights': combine, 'separate_ctrlpts_weights': separate, 'generate_ctrlptsw': preserve,
                'generate_ctrlpts_weights': preserve, 'generate_ctrlptsw2d': preserve, 'generate_ctrlpts2d_weights': preserve})
    return out, {n: (a, repr(r)) for n, (a, r) in fl.items()}
