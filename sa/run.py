"""Entry point:  python3-vt -m sa.run <Cxx> [--tier quick|thorough] [--replay path] [--repo DIR]"""
import argparse
import importlib
import json
import os
import sys
import traceback


def main(argv=None):
    ap = argparse.ArgumentParser()
    ap.add_argument('pid')
    ap.add_argument('--tier', default=os.environ.get('VERIF_TIER', 'quick'))
    ap.add_argument('--replay')
    ap.add_argument('--repo')
    ap.add_argument('--no-evidence', action='store_true')
    a = ap.parse_args(argv)
    if a.repo:
        os.environ['SA_REPO'] = a.repo
    from . import model, report
    if a.repo:
        model.REPO = a.repo
    pid = a.pid.upper()
    tier = a.tier if a.tier in ('quick', 'thorough') else 'quick'
    try:
        seed = int(os.environ.get('VERIF_SEED', '0'))
    except ValueError:
        seed = 0
    try:
        mod = importlib.import_module('sa.checks.' + pid.lower())
    except ImportError as ex:
        print('ANALYSIS-ERROR property=%s no check module (%s)' % (pid, ex))
        return 2
    run = report.Run(pid, tier, seed, decides=getattr(mod, 'DECIDES', ''), not_decided=getattr(mod, 'NOT_DECIDED', ''))
    try:
        m = model.Model()
        run.model_stats = m.stats()
        from . import rules_axis
        rules_axis.MODEL = m
        rules_axis._RET_CACHE.clear()
        rules_axis.DECLARED_RET.clear()
        mod.check(m, run)
        if tier == 'thorough' and not a.replay:
            from . import selftest
            selftest.battery(pid, run, model.REPO)
            rules_axis.MODEL = m
    except model.AnalysisError as ex:
        run.error(str(ex))
    except Exception as ex:  # a crash of the checker is never a verdict
        tb = traceback.format_exc().strip().splitlines()
        run.error('checker crashed: %s: %s | %s' % (type(ex).__name__, ex, ' / '.join(tb[-6:])))
    if a.replay:
        try:
            with open(a.replay) as f:
                rp = json.load(f)
        except Exception as ex:
            print('ANALYSIS-ERROR property=%s cannot read replay file: %s' % (pid, ex))
            return 2
        hits = [o for o in run.obs if o.rule == rp.get('rule') and o.key == rp.get('key')]
        if not hits:
            print('replay: obligation %s %s is no longer enumerated on the current tree' % (rp.get('rule'), rp.get('key')))
            return 0
        bad = [o for o in hits if not o.ok]
        for o in hits:
            print('replay: rule=%s key=%s -> %s\n   site=%s\n   %s' % (o.rule, o.key, 'VIOLATED' if not o.ok else 'discharged', o.site, o.detail))
        if bad:
            print('VIOLATION property=%s replay=%s' % (pid, a.replay))
            return 1
        return 0
    return run.finish(write=not a.no_evidence)


if __name__ == '__main__':
    sys.exit(main())
