"""SKEL: index-skeleton abstract interpreter (DESIGN 3.6; tier 3, bounded).

An AST interpreter of my own - the repository's code objects are never created or run.  Integers, booleans, None, tuples and
list *objects* are concrete (aliasing, deepcopy, slice assignment behave as in Python); every floating-point datum is an abstract
token: DEF (defined), PH0 (a 0.0/1.0 initial fill), PHN (None placeholder), PHL (empty-list placeholder is just []).
Arithmetic on tokens yields DEF and records PH0 operands.  Structural parameters (degrees, counts, spans, orders, sizes, spacings)
are enumerated over a stated box.  Rules: SK1 no subscript out of range; SK2 no None/[] placeholder reaches arithmetic;
SK3 every obligated output cell is a DEF point of the right shape; SK4 a PH0 cell is read only by the statement that
accumulates into the same cell.  Decides definedness, shape and bounds - nothing numerical.
"""
import ast
import itertools
import operator as o
from fractions import Fraction
from .model import norm, AnalysisError


class Violation(Exception):
    def __init__(self, rule, msg, node=None):
        Exception.__init__(self, msg)
        self.rule, self.msg, self.node = rule, msg, node

    def where(self):
        return 'line %d: %s' % (self.node.lineno, norm(self.node)[:80]) if self.node is not None and hasattr(self.node, 'lineno') else ''


class Unsupported(Exception):
    pass


class Raised(Violation):
    """a Python exception raised by the interpreted code's own arithmetic (ZeroDivisionError): caught by a matching `except` of the
    interpreted code, a Violation when nothing catches it"""
    def __init__(self, exc, msg, node=None):
        Violation.__init__(self, 'SK1', msg, node)
        self.exc = exc


class Tok(object):
    __slots__ = ('kind', 'val', 'dep')

    def __init__(self, kind='DEF', val=None, dep=None):
        self.kind = kind
        self.val = val
        self.dep = dep          # dependency footprint: frozenset of labels of the input cells this value was computed from (None = not tracked)

    def __repr__(self):
        return self.kind


def DEF():
    return Tok('DEF')


class Sym(Tok):
    """abstract float that is an exact polynomial over named input atoms (rational coefficients): closed under + - * and division
    by a non-zero number; cos / sin / radians of a Sym are fresh atoms named after their argument.  Decides small algebraic maps
    (an affine transform of a control point) exactly, for every value of the atoms."""
    __slots__ = ('p', 'q', 'iv')

    def __init__(self, p, q=None, iv=None):
        self.iv = iv            # for a parameter atom: the open interval (lo, hi) of numbers it ranges over (order comparisons with numbers outside it are decided)
        from .poly import Poly
        if isinstance(p, str):
            p = Poly.atom(p)
        if q is not None:
            if not p.t:
                q = None
            elif q.is_const():
                p, q = p * (1 / q.const_value()), None
            elif p == q:
                p, q = Poly.const(1), None
            else:
                d = p.divexact(q)
                if d is not None:
                    p, q = d, None
        Tok.__init__(self, 'DEF', dep=frozenset(a for k in p.t for a, _ in k) | (frozenset(a for k in q.t for a, _ in k) if q is not None else frozenset()))
        self.p = p
        self.q = q          # denominator polynomial (None = 1): rational functions, no cancellation; equality by cross-multiplication

    def den(self):
        from .poly import Poly
        return self.q if self.q is not None else Poly.const(1)

    def same(self, other):
        return self.p * other.den() == other.p * self.den()

    def is_zero(self):
        return not self.p.t

    def __bool__(self):
        return bool(self.p.t)

    def __repr__(self):
        return 'Sym(%r)' % (self.p,) if self.q is None else 'Sym((%r) / (%r))' % (self.p, self.q)


class Mono(Tok):
    """abstract float that is a Laurent monomial over labelled input atoms (x * w, x / w, w ...): closed under * and /; any other
    arithmetic degrades it to a plain token carrying the dependency footprint.  Decides 'is this coordinate multiplied or divided
    by its weight' exactly, for every value of the atoms."""
    __slots__ = ('exp',)

    def __init__(self, exp):
        exp = frozenset((k, e) for k, e in dict(exp).items() if e != 0)
        Tok.__init__(self, 'DEF', dep=frozenset(k for k, _ in exp))
        self.exp = exp

    def __repr__(self):
        return 'Mono(%s)' % ' '.join('%s^%d' % (k, e) for k, e in sorted(self.exp, key=repr))

    def __eq__(self, other):
        return isinstance(other, Mono) and other.exp == self.exp

    def __ne__(self, other):
        return not self.__eq__(other)

    def __hash__(self):
        return hash(self.exp)

    def combine(self, other, sign):
        d = dict(self.exp)
        for k, e in other.exp:
            d[k] = d.get(k, 0) + sign * e
        return Mono(d)


class Ord(Tok):
    """abstract float that is only compared: a position on an abstract line.  Knots sit at integer ranks (equal knots share a rank),
    a parameter strictly between two knots at a half-integer rank.  Code that touches these values only through comparisons is
    decided exactly for *every* real assignment with this order type.  Affine combinations of two ADJACENT distinct values
    (a + (b - a) / 2) stay inside their interval in every realisation, so they get the corresponding intermediate rank."""
    __slots__ = ('rank', 'off')

    def __init__(self, rank, off=0.0):
        Tok.__init__(self, 'DEF')
        self.rank = rank
        # an explicit small number added to (subtracted from) the value by the interpreted code, e.g. a tolerance: it is far below the
        # distance of two distinct ranks and decides the order of two values of the same rank
        self.off = off

    def __repr__(self):
        return 'Ord(%s)' % self.rank if not self.off else 'Ord(%s%+g)' % (self.rank, self.off)

    def __eq__(self, other):
        return isinstance(other, Ord) and other.rank == self.rank and other.off == self.off

    def __ne__(self, other):
        return not self.__eq__(other)

    def __hash__(self):
        return hash(('Ord', self.rank, self.off))

    def __lt__(self, other):
        return (self.rank, self.off) < (other.rank, other.off)


NEAR = 1e-3


class Gap(Tok):
    """difference of two ordered values: only its sign and whether it is zero are meaningful (mag is the rank difference, used to place
    affine combinations inside an interval).  A non-zero gap is assumed to exceed every tolerance it is compared with (distinct knots
    differ by more than the tolerances) - stated as an assumption in the evidence."""
    __slots__ = ('mag', 'off')

    def __init__(self, mag, off=0.0):
        Tok.__init__(self, 'DEF')
        self.mag = mag
        self.off = off          # explicit small numbers carried by the operands (see Ord.off)

    @property
    def sign(self):
        return (self.mag > 0) - (self.mag < 0)

    def __repr__(self):
        return 'Gap(%+g)' % self.mag if not self.off else 'Gap(%+g%+g)' % (self.mag, self.off)


def order_compare(l, r, op):
    """decide a comparison between ordered abstractions; None if not decidable"""
    import operator as _o
    ops = {ast.Lt: _o.lt, ast.LtE: _o.le, ast.Gt: _o.gt, ast.GtE: _o.ge, ast.Eq: _o.eq, ast.NotEq: _o.ne}
    if type(op) not in ops:
        return None
    if isinstance(l, Ord) and isinstance(r, Ord):
        if not l.off and not r.off:
            return ops[type(op)](l.rank, r.rank)
        d = l.rank - r.rank
        if abs(d) >= NEAR:
            return ops[type(op)](l.rank, r.rank)             # distinct ranks are further apart than any explicit small number
        return ops[type(op)](((d > 0) - (d < 0)) * 10 ** -12 + l.off - r.off, 0.0)
    # an order token stands for a finite real: it lies strictly between -inf and +inf
    import math as _m
    if isinstance(l, Ord) and isinstance(r, float) and _m.isinf(r):
        return ops[type(op)](0.0, r)
    if isinstance(r, Ord) and isinstance(l, float) and _m.isinf(l):
        return ops[type(op)](l, 0.0)
    # an untouched initial fill still has its literal value
    if isinstance(l, Tok) and l.kind == 'PH0' and l.val is not None and isinstance(r, (int, float)) and not isinstance(r, bool):
        return ops[type(op)](l.val, r)
    if isinstance(r, Tok) and r.kind == 'PH0' and r.val is not None and isinstance(l, (int, float)) and not isinstance(l, bool):
        return ops[type(op)](l, r.val)
    # a symbolic parameter that ranges over an open interval, against a number outside that interval
    from fractions import Fraction as _F
    if isinstance(l, Sym) and l.iv is not None and isinstance(r, (int, float, _F)) and not isinstance(r, bool) and type(op) in (ast.Lt, ast.LtE, ast.Gt, ast.GtE):
        lo, hi = l.iv
        if r >= hi:
            return type(op) in (ast.Lt, ast.LtE)
        if r <= lo:
            return type(op) in (ast.Gt, ast.GtE)
        return None
    if isinstance(r, Sym) and r.iv is not None and isinstance(l, (int, float, _F)) and not isinstance(l, bool) and type(op) in (ast.Lt, ast.LtE, ast.Gt, ast.GtE):
        lo, hi = r.iv
        if l >= hi:
            return type(op) in (ast.Gt, ast.GtE)
        if l <= lo:
            return type(op) in (ast.Lt, ast.LtE)
        return None
    # gap vs a (small, positive) tolerance or zero: a non-zero gap exceeds it - unless the two values are *near* each other (ranks that
    # differ by less than NEAR stand for values that differ by round-off only, i.e. by less than every tolerance)
    def gapval(g):
        return g.sign * (10 ** -12 if 0 < abs(g.mag) < NEAR else 10 ** 9) + g.off
    if isinstance(l, Gap) and isinstance(r, (int, float)) and not isinstance(r, bool):
        return ops[type(op)](gapval(l), r)
    if isinstance(r, Gap) and isinstance(l, (int, float)) and not isinstance(l, bool):
        return ops[type(op)](l, gapval(r))
    return None


class Bag(object):
    """abstracted object with attributes (Vertex, Triangle, evaluator self ...)"""

    def __init__(self, cls, **attrs):
        self.__dict__['_cls'] = cls
        self.__dict__['_a'] = dict(attrs)


class Ret(Exception):
    def __init__(self, v):
        self.v = v


class Brk(Exception):
    pass


class Cont(Exception):
    pass


def _walk_own(fn):
    """nodes of a function body without nested function / lambda bodies"""
    stack = list(fn.body)
    while stack:
        n = stack.pop()
        yield n
        for c in ast.iter_child_nodes(n):
            if not isinstance(c, (ast.FunctionDef, ast.Lambda, ast.ClassDef)):
                stack.append(c)


class GenObj(object):
    """lazy generator of the interpreted program: the body runs in its own thread that is handed the baton for exactly one step at a time
    (strict alternation with the consumer, so interpreter state is never touched concurrently)"""

    def __init__(self, sk, fn, env):
        import threading
        self.sk, self.fn, self.env = sk, fn, env
        self.thread = None
        self.go = threading.Semaphore(0)
        self.ready = threading.Semaphore(0)
        self.item = None
        self.done = False
        self.exc = None

    def _run(self):
        self.go.acquire()
        try:
            self.sk.gen_stack.append(self)
            try:
                self.sk.block(self.fn.body, self.env)
            except Ret:
                pass
        except BaseException as ex:          # carried over to the consumer
            self.exc = ex
        finally:
            if self.sk.gen_stack and self.sk.gen_stack[-1] is self:
                self.sk.gen_stack.pop()
            self.done = True
            self.ready.release()

    def emit(self, v):
        self.item = v
        self.sk.gen_stack.pop()
        self.ready.release()
        self.go.acquire()
        self.sk.gen_stack.append(self)

    def __iter__(self):
        return self

    def __next__(self):
        import threading
        if self.done:
            raise StopIteration
        if self.thread is None:
            try:
                threading.stack_size(64 * 1024 * 1024)
            except (ValueError, RuntimeError):
                pass
            self.thread = threading.Thread(target=self._run, daemon=True)
            self.thread.start()
        self.go.release()
        self.ready.acquire()
        if self.exc is not None:
            ex, self.exc = self.exc, None
            raise ex
        if self.done:
            raise StopIteration
        return self.item


class FnRef(object):
    def __init__(self, fi, bound=None):
        self.fi, self.bound = fi, bound


class Py(object):
    """host-implemented callable: f(sk, node, *args, **kw)"""

    def __init__(self, f, name=''):
        self.f, self.name = f, name


NOATTR = object()


def _memoising_decorator(fn):
    for d in getattr(fn, 'decorator_list', ()):
        t = d.func if isinstance(d, ast.Call) else d
        name = t.id if isinstance(t, ast.Name) else (t.attr if isinstance(t, ast.Attribute) else '')
        if name in ('lru_cache', 'cache'):
            return True
    return False


def _memo_call(sk, memo, who, compute, args, kw, node):
    try:
        key = (who, tuple(args), tuple(sorted(kw.items())))
        hash(key)
    except TypeError:
        raise Raised('TypeError', 'unhashable argument of a memoised function', node)
    if key not in memo:
        memo[key] = compute()
    return memo[key]


def _lru_cache(sk, node, *a, **k):
    """functools.lru_cache / cache (and the package's backport of it): lru_cache(f), lru_cache(maxsize=...)(f)"""
    def wrap(f):
        memo = {}
        return Py(lambda sk2, n2, *a2, **k2: _memo_call(sk2, memo, id(f), lambda: sk2.apply(f, list(a2), dict(k2), n2), a2, k2, n2), 'memoised')
    if len(a) == 1 and not k and (isinstance(a[0], (Py, FnRef)) or (isinstance(a[0], tuple) and a[0] and a[0][0] == 'class')):
        return wrap(a[0])
    return Py(lambda sk2, n2, f: wrap(f), 'lru_cache(...)')


class ModRef(object):
    def __init__(self, name):
        self.name = name


class SuperRef(object):
    def __init__(self, obj, after):
        self.obj, self.after = obj, after


def deepcopy_(x):
    if isinstance(x, Bag) and '__deepcopy__' in x._a:
        return x._a['__deepcopy__'](x)
    if isinstance(x, list):
        return [deepcopy_(y) for y in x]
    if isinstance(x, dict):
        return {k: deepcopy_(v) for k, v in x.items()}
    return x


def same_cells(a, b):
    if isinstance(a, list) and isinstance(b, list):
        return len(a) == len(b) and all(same_cells(x, y) for x, y in zip(a, b))
    return a is b


def deepcopy_memo(sk, n, x, memo):
    """copy.deepcopy(x, memo) with the memo contract: an object whose id is in memo is replaced by the memo value; containers are copied
    recursively; an object of the class hierarchy is copied through its own __deepcopy__"""
    if id(x) in memo:
        return memo[id(x)]
    if isinstance(x, Bag) and isinstance(x._cls, tuple):
        fi = sk.m.lookup(x._cls, '__deepcopy__', 'methods')
        if fi is not None:
            return sk.call(fi, [x, memo], {})
    if isinstance(x, Bag) and '__deepcopy__' in x._a:
        return x._a['__deepcopy__'](x)
    if isinstance(x, list):
        r = []
        memo[id(x)] = r
        r.extend(deepcopy_memo(sk, n, y, memo) for y in x)
        return r
    if isinstance(x, dict):
        r = {}
        memo[id(x)] = r
        for k, v in x.items():
            r[k] = deepcopy_memo(sk, n, v, memo)
        return r
    if isinstance(x, tuple):
        return tuple(deepcopy_memo(sk, n, y, memo) for y in x)
    return x


def _shallowcopy(sk, n, x):
    if isinstance(x, Bag) and isinstance(x._cls, tuple):
        fi = sk.m.lookup(x._cls, '__copy__', 'methods')
        if fi is not None:
            return sk.call(fi, [x], {})
        b = Bag(x._cls)
        b._a.update(x._a)
        return b
    if isinstance(x, list):
        return list(x)
    if isinstance(x, dict):
        return dict(x)
    return x


ITERTOOLS_FUNCS = ('islice', 'chain', 'product', 'repeat', 'zip_longest', 'combinations', 'permutations', 'count', 'cycle', 'tee', 'pairwise', 'takewhile', 'dropwhile', 'starmap', 'accumulate')


def itertools_func(name):
    """the itertools functions that only rearrange the elements of their iterables (they never look at an element): applied to the
    materialised iterables, the result materialised too (count / cycle / repeat without a bound stay lazy and are only usable under islice / zip)"""
    def g(sk, n, *a, **k):
        def mat(x):
            if isinstance(x, (list, tuple, dict, set, str, range)) or hasattr(x, '__next__'):
                return x
            if isinstance(x, (Bag, GenObj)):
                return list(sk.iterate(x, n))
            return x
        if name in ('takewhile', 'dropwhile') and len(a) == 2 and not k:
            # the predicate belongs to the interpreted program; evaluated lazily, element by element (the iterable may be count())
            pred, it = a[0], mat(a[1])

            def lazy():
                dropping = name == 'dropwhile'
                for x in it:
                    t_ = bool(sk.apply(pred, [x], {}, n))
                    if name == 'takewhile':
                        if not t_:
                            return
                        yield x
                    else:
                        if dropping and t_:
                            continue
                        dropping = False
                        yield x
            return lazy()
        if name == 'starmap' and len(a) == 2 and not k:
            return [sk.apply(a[0], list(args_), {}, n) for args_ in mat(a[1])]
        if name == 'accumulate':
            seq = list(mat(a[0]))
            fn_ = a[1] if len(a) > 1 else k.get('func')
            out_, started = [], False
            if 'initial' in k and k['initial'] is not None:
                out_.append(k['initial'])
                started = True
            for x in seq:
                if not started:
                    out_.append(x)
                    started = True
                else:
                    out_.append(sk.apply(fn_, [out_[-1], x], {}, n) if fn_ is not None else sk.arith(o.add, out_[-1], x, n))
            return out_
        f = getattr(itertools, name, None)
        if f is None:
            raise Unsupported('itertools.%s' % name)
        res = f(*[mat(x) for x in a], **k)
        if name in ('count', 'cycle') or (name == 'repeat' and len(a) < 2 and 'times' not in k):
            return res
        if name == 'tee':
            return tuple(list(x) for x in res)
        return list(res)
    return Py(g, 'itertools.' + name)


OPERATOR_FUNCS = {'mul': o.mul, 'add': o.add, 'sub': o.sub, 'truediv': o.truediv, 'floordiv': o.floordiv, 'mod': o.mod, 'pow': o.pow}


def operator_func(name):
    """operator.mul and friends: the interpreter's own arithmetic on two operands"""
    op = OPERATOR_FUNCS[name]

    def g(sk, n, a, b):
        if isinstance(a, Tok) or isinstance(b, Tok) or sk.exact:
            return sk.arith(op, a, b, n)
        return op(a, b)
    return Py(g, 'operator.' + name)


def _setattr(sk, n, ob, k, v):
    """setattr(obj, name, value): through the property setter of the object's class when there is one, like an attribute assignment"""
    if isinstance(ob, Bag) and isinstance(ob._cls, tuple):
        st = sk.m.lookup(ob._cls, k, 'setters')
        if st is not None:
            sk.call(st, [ob, v], {})
            return None
        # (a read-only property: Python raises AttributeError; the stand-in objects of the drivers shadow some read-only properties with
        # plain attributes, which __deepcopy__ then copies by name - stored as a plain attribute)
    if not isinstance(ob, Bag):
        raise Unsupported('setattr on %s' % type(ob).__name__)
    ob._a[k] = v
    return None


def _getattr(sk, n, ob, k, *d):
    """getattr(obj, name[, default]) on modules of the package, abstract objects (instance attributes, then the class's methods,
    properties and class-level attributes) and dictionaries of attributes"""
    if isinstance(ob, ModRef):
        if ob.name.startswith('ext:'):
            raise Unsupported('getattr on the external module %s' % ob.name)
        return sk.lookup_global(ob.name, k)
    if isinstance(ob, Bag):
        if k in ob._a:
            return ob._a[k]
        if isinstance(ob._cls, tuple):
            fi = sk.m.lookup(ob._cls, k, 'methods')
            if fi is not None:
                return FnRef(fi, bound=ob)
            g = sk.m.lookup(ob._cls, k, 'getters')
            if g is not None:
                return sk.call(g, [ob], {})
            cv = sk.class_attr(ob._cls, k)
            if cv is not NOATTR:
                return cv
        if d:
            return d[0]
        raise Violation('SK2', 'getattr: no attribute %s' % k, n)
    if d:
        return d[0]
    raise Unsupported('getattr on %s' % type(ob).__name__)


def _reduce(sk, n, f, seq, *init):
    items = list(sk.iterate(seq, n))
    if init:
        acc = init[0]
    elif items:
        acc, items = items[0], items[1:]
    else:
        raise Violation('SK2', 'reduce() of an empty sequence with no initial value', n)
    for x in items:
        acc = sk.apply(f, [acc, x], {}, n)
    return acc


def _deepcopy_tracked(sk, n, x, *memo):
    if memo and isinstance(memo[0], dict):
        return deepcopy_memo(sk, n, x, memo[0])
    if isinstance(x, Bag) and isinstance(x._cls, tuple) and sk.m.lookup(x._cls, '__deepcopy__', 'methods') is not None and sk.follow_deepcopy:
        return deepcopy_memo(sk, n, x, {})
    r = deepcopy_(x)
    if isinstance(x, list):
        sk.copies.setdefault(id(x), (x, []))[1].append(r)
    return r


def shape_ok(pt, dim):
    return isinstance(pt, (list, tuple)) and len(pt) == dim and all(isinstance(c, Tok) and c.kind == 'DEF' for c in pt)


class SK(object):
    MAXDEPTH = 14
    MAXITER = 20000

    def __init__(self, model, abstracted=None):
        self.m = model
        self.depth = 0
        self.ph0_reads = []         # (node, enclosing statement) of reads of PH0 tokens
        self.cur_stmt = None
        self.abstracted = abstracted or {}
        self.steps = 0
        self.decisions = None       # None: undecidable float comparisons are unsupported; list: replayed / extended fork decisions
        self.trace = []
        self.modconst = {}              # module-level constants evaluated so far
        self.gen_stack = []             # generators of the interpreted program that are currently running (innermost last)
        self.construct = False          # a class of the package without a hook is constructed by interpreting its __init__ chain
        self.follow_deepcopy = False    # copy.deepcopy(obj) of a class-keyed object runs the class's own __deepcopy__
        self.generic_eq = 0         # number of ==/!= tests between an abstract float and a number decided by genericity
        self.exact = False          # exact mode: literal initial fills take part in arithmetic as their numbers (symbolic drivers)
        self.text = False           # text mode: strings are concrete (str(), +, join are faithful; an abstract float prints as <label>)
        self.fork_log = []          # (comparison text, outcome taken) of every comparison the abstraction could not decide on this path
        self.printed = {}           # text mode: printed form of an abstract float -> the token (float() of that text gives the token back)
        self.copies = {}            # id(source list) -> (source, [deep copies made of it]); working-copy discipline (SS1)
        self.stale = []             # (node, index): element of a copied source read after the working copy's element changed

    # ------------------------------------------------------------------ name resolution
    def lookup_global(self, mod, name):
        if name in self.abstracted:
            return self.abstracted[name]
        if (mod, name) in self.abstracted:
            return self.abstracted[(mod, name)]
        fi = self.m.lookup_modfunc(mod, name)
        if fi is not None and fi.key == 'functools_lru_cache.lru_cache':
            return BUILTINS['lru_cache']            # the backport stands for the library function
        if fi is not None:
            k = (fi.mod, fi.name)
            if k in self.abstracted:
                return self.abstracted[k]
            return FnRef(fi)
        imp = self.m.imports.get(mod, {}).get(name)
        if imp and imp[0] == 'mod':
            return ModRef(imp[1])
        if imp and imp[0] == 'ext':
            if imp[1] == 'copy.deepcopy':
                return BUILTINS['deepcopy']
            if imp[1] == 'copy.copy':
                return BUILTINS['shallowcopy']
            if imp[1] in ('functools.reduce',):
                return BUILTINS['reduce']
            if imp[1].startswith('operator.') and imp[1].split('.', 1)[1] in OPERATOR_FUNCS:
                return operator_func(imp[1].split('.', 1)[1])
            if imp[1].startswith('itertools.') and imp[1].split('.', 1)[1] in ITERTOOLS_FUNCS:
                return itertools_func(imp[1].split('.', 1)[1])
            if imp[1] == 'functools.partial':
                return BUILTINS['partial']
            if imp[1] in ('functools.lru_cache', 'functools.cache'):
                return BUILTINS['lru_cache']
            if imp[1] in ('bisect.bisect_left', 'bisect.bisect_right', 'bisect.bisect'):
                return BUILTINS[imp[1].split('.')[1]]
            return ModRef('ext:' + imp[1])
        if imp and imp[0] == 'obj':
            if (imp[1], imp[2]) in self.m.classes:
                return ('class', (imp[1], imp[2]))
            return self.lookup_global(imp[1], imp[2])
        if (mod, name) in self.m.classes:
            return ('class', (mod, name))
        if name in BUILTINS:
            return BUILTINS[name]
        # a module-level constant (NAME = <expression> at the top level of the module): evaluated once, in the module's own scope
        tree = self.m.tree.get(mod)
        if tree is not None:
            ck = (mod, name)
            if ck in self.modconst:
                return self.modconst[ck]
            for st in tree.body:
                if isinstance(st, ast.Assign) and len(st.targets) == 1 and isinstance(st.targets[0], ast.Name) and st.targets[0].id == name:
                    v = self.ev(st.value, {'__mod__': mod, '__cls__': None})
                    self.modconst[ck] = v
                    return v
        raise Unsupported('name %s in module %s' % (name, mod))

    # ------------------------------------------------------------------ expressions
    def ev(self, e, env):
        meth = getattr(self, 'e_' + type(e).__name__, None)
        if meth is None:
            raise Unsupported('expression ' + type(e).__name__)
        return meth(e, env)

    def e_Constant(self, e, env):
        return e.value

    def e_Name(self, e, env):
        if e.id in env:
            return env[e.id]
        return self.lookup_global(env['__mod__'], e.id)

    def e_Attribute(self, e, env):
        b = self.ev(e.value, env)
        if isinstance(b, ModRef):
            if b.name == 'ext:copy' and e.attr == 'deepcopy':
                return BUILTINS['deepcopy']
            if b.name == 'ext:copy' and e.attr == 'copy':
                return BUILTINS['shallowcopy']
            if b.name == 'ext:bisect' and e.attr in ('bisect_left', 'bisect_right', 'bisect'):
                return BUILTINS[e.attr]
            if b.name == 'ext:math':
                return Py(lambda sk, node, *a: math_fn(e.attr, *a), 'math.' + e.attr)
            if b.name == 'ext:json' and e.attr in ('dumps', 'loads'):
                # JSON as a function on plain data: tuples become lists, keys strings; abstract numbers pass through as themselves
                def _plain(x):
                    if isinstance(x, dict):
                        return {str(k): _plain(v) for k, v in x.items()}
                    if isinstance(x, (list, tuple)):
                        return [_plain(v) for v in x]
                    if isinstance(x, (Bag, set)) or callable(x):
                        raise Violation('SK2', 'json cannot serialise %s' % type(x).__name__, e)
                    return x
                if e.attr == 'dumps':
                    return Py(lambda sk, node, data, **k: ('json-document', _plain(data)), 'json.dumps')
                return Py(lambda sk, node, doc, **k: _plain(doc[1]) if isinstance(doc, tuple) and len(doc) == 2 and doc[0] == 'json-document'
                          else (_ for _ in ()).throw(Unsupported('json.loads of a text that json.dumps did not produce')), 'json.loads')
            if b.name == 'ext:itertools' and e.attr in ITERTOOLS_FUNCS:
                return itertools_func(e.attr)
            if b.name == 'ext:operator' and e.attr in OPERATOR_FUNCS:
                return operator_func(e.attr)
            if b.name == 'ext:functools' and e.attr == 'reduce':
                return BUILTINS['reduce']
            if b.name == 'ext:functools' and e.attr == 'partial':
                return BUILTINS['partial']
            if b.name == 'ext:functools' and e.attr in ('lru_cache', 'cache'):
                return BUILTINS['lru_cache']
            if b.name == 'ext:sys' and e.attr == 'float_info':
                import sys as _sys
                return _sys.float_info          # constants of the float format
            if b.name == 'ext:os' and e.attr == 'path':
                return ModRef('ext:os.path')
            if b.name == 'ext:os.path' and e.attr in ('splitext', 'basename', 'dirname', 'join'):
                import os.path as _osp
                return Py(lambda sk, node, *a, _f=getattr(_osp, e.attr): _f(*a), 'os.path.' + e.attr)          # pure functions of their string arguments
            if b.name.startswith('ext:'):
                raise Unsupported('external %s.%s' % (b.name, e.attr))
            return self.lookup_global(b.name, e.attr)
        if isinstance(b, Bag):
            if e.attr in b._a:
                return b._a[e.attr]
            if e.attr == '__dict__':
                return b._a                                   # the live attribute dictionary
            if e.attr == '__class__' and isinstance(b._cls, tuple):
                return ('class', b._cls)
            cls = b._cls
            if isinstance(cls, tuple):
                fi = self.m.lookup(cls, e.attr, 'methods')
                if fi is not None:
                    decos = {norm(d_) for d_ in getattr(fi.node, 'decorator_list', [])}
                    if 'staticmethod' in decos:
                        return FnRef(fi)                                # no implicit first argument
                    if 'classmethod' in decos:
                        return FnRef(fi, bound=('class', cls))
                    return FnRef(fi, bound=b)
                g = self.m.lookup(cls, e.attr, 'getters')
                if g is not None:
                    return self.call(g, [b], {})          # property read
                cv = self.class_attr(cls, e.attr)
                if cv is not NOATTR:
                    return cv
            raise Violation('SK2', 'attribute %s of %s read before it is set' % (e.attr, b._cls), e)
        if isinstance(b, SuperRef):
            fi = self.m.lookup(b.obj._cls, e.attr, 'methods', after=b.after)
            if fi is None and e.attr in ('__init__', '__init_subclass__'):
                return Py(lambda sk, node, *a, **k: None, 'object.' + e.attr)       # the class derives from object: nothing to initialise there
            if fi is None:
                raise Unsupported('super().%s' % e.attr)
            if ('method', fi.key) in self.abstracted:
                return self.abstracted[('method', fi.key)]
            return FnRef(fi, bound=b.obj)
        if isinstance(b, tuple) and len(b) == 2 and b[0] == 'class' and e.attr == '__name__':
            return b[1][1]
        if isinstance(b, tuple) and len(b) == 2 and b[0] == 'class' and isinstance(b[1], tuple):
            cv = self.class_attr(b[1], e.attr)
            if cv is not NOATTR:
                return cv
        if isinstance(b, tuple) and len(b) == 2 and b[0] == 'class' and e.attr == '__new__':
            return Py(lambda sk, node, c, *a, **k: Bag(c[1]) if isinstance(c, tuple) and c and c[0] == 'class' else {}, '__new__')
        if isinstance(b, Py) and getattr(b, 'name', None) == 'dict' and e.attr == 'fromkeys':
            return Py(lambda sk, node, keys, val=None: dict.fromkeys(list(self.iterate(keys, node)) if not isinstance(keys, (list, tuple, dict, set, str)) else list(keys), val), 'dict.fromkeys')
        if type(b).__name__ == 'float_info' and e.attr in ('epsilon', 'max', 'min', 'dig', 'mant_dig'):
            return getattr(b, e.attr)
        if isinstance(b, dict) and e.attr == '__new__':
            return Py(lambda sk, node, *a, **k: {}, 'dict.__new__')
        if isinstance(b, dict) and e.attr in ('update', 'setdefault', 'copy', 'clear'):
            return Py(lambda sk, node, *a, _b=b, _n=e.attr, **k: getattr(_b, _n)(*a, **k), 'dict.' + e.attr)
        if isinstance(b, dict) and e.attr in ('get', 'pop', 'items', 'keys', 'values'):
            return Py(lambda sk, node, *a, _b=b, _n=e.attr: getattr(_b, _n)(*a), 'dict.' + e.attr)
        if isinstance(b, list) and e.attr in ('append', 'extend', 'insert', 'pop', 'reverse', 'index', 'count', 'sort'):
            return Py(lambda sk, node, *a, _b=b, _n=e.attr: getattr(_b, _n)(*a), 'list.' + e.attr)
        if isinstance(b, set) and e.attr in ('add', 'update', 'discard', 'remove', 'clear'):
            return Py(lambda sk, node, *a, _b=b, _n=e.attr: getattr(_b, _n)(*a), 'set.' + e.attr)
        if isinstance(b, str) and self.text and e.attr in ('join', 'format', 'strip', 'split', 'rstrip', 'lstrip'):
            return Py(lambda sk, node, *a, _b=b, _n=e.attr, **k: getattr(_b, _n)(*[fmt_arg(sk, x) if _n == 'format' else (list(x) if hasattr(x, '__next__') else x) for x in a],
                                                                               **{kk: (fmt_arg(sk, vv) if _n == 'format' else vv) for kk, vv in k.items()}), 'str.' + e.attr)
        if isinstance(b, str) and e.attr in ('format', 'join'):
            return Py(lambda sk, node, *a, **k: '', 'str')
        if isinstance(b, str) and e.attr in ('endswith', 'startswith', 'lower', 'upper'):
            return Py(lambda sk, node, *a, _b=b, _n=e.attr: getattr(_b, _n)(*a), 'str.' + e.attr)
        if b is None:
            raise Violation('SK2', 'attribute %s of None' % e.attr, e)
        raise Unsupported('attribute %s on %s' % (e.attr, type(b).__name__))

    def class_attr(self, cls, name):
        """a class-level attribute (an assignment in a class body), resolved through the MRO; its value is evaluated in the class's module"""
        for k in self.m.mro(cls):
            ci = self.m.classes.get(k)
            if ci is None:
                continue
            for st in ci.node.body:
                if isinstance(st, ast.Assign) and any(isinstance(t, ast.Name) and t.id == name for t in st.targets):
                    memo = self.__dict__.setdefault('_clsvals', {})
                    if (k, name) not in memo:           # evaluated once, when the class body runs: every instance sees the very same object
                        memo[(k, name)] = self.ev(st.value, {'__mod__': k[0]})
                    return memo[(k, name)]
        return NOATTR

    def arith(self, op, a, b, node):
        for x in (a, b):
            if x is None or isinstance(x, (list, dict)):
                raise Violation('SK2', 'placeholder %r used in arithmetic' % (x,), node)
        if self.exact:
            # exact mode: a literal initial fill (0.0 / 1.0) is its number
            if isinstance(a, Tok) and a.kind == 'PH0' and isinstance(a.val, (int, float)):
                a = a.val
            if isinstance(b, Tok) and b.kind == 'PH0' and isinstance(b.val, (int, float)):
                b = b.val
            # integral float literals (1.0, 2.0) are the integers they denote, so that 1.0 / degree and (1.0 - alpha) stay exact
            if isinstance(a, float) and a.is_integer():
                a = int(a)
            if isinstance(b, float) and b.is_integer():
                b = int(b)
            if op is o.truediv and isinstance(a, (int, Fraction)) and isinstance(b, (int, Fraction)) and not isinstance(a, bool) and not isinstance(b, bool) and b != 0:
                return Fraction(a) / Fraction(b)
        if op in (o.truediv, o.floordiv, o.mod) and isinstance(b, Gap) and b.mag == 0:
            # the difference of two equal knots: a division by it is a division by zero for every knot vector of this order type
            raise Raised('ZeroDivisionError', 'division by the difference of two equal knots', node)
        if isinstance(a, Ord) and isinstance(b, Ord) and op is o.sub:
            return Gap(a.rank - b.rank, a.off - b.off)
        small = lambda x: isinstance(x, (int, float)) and not isinstance(x, bool) and 0 < abs(x) < NEAR
        if isinstance(a, Ord) and small(b) and op in (o.add, o.sub):
            return Ord(a.rank, op(a.off, float(b)))          # a tolerance added to an ordered value
        if isinstance(b, Ord) and small(a) and op is o.add:
            return Ord(b.rank, b.off + float(a))
        if isinstance(a, Gap) and small(b) and op in (o.add, o.sub):
            return Gap(a.mag, op(a.off, float(b)))
        if isinstance(a, Gap) and isinstance(b, (int, float)) and not isinstance(b, bool) and (op is o.mul or (op is o.truediv and b != 0)):
            return Gap(op(a.mag, float(b)), op(a.off, float(b)))
        if isinstance(b, Gap) and isinstance(a, (int, float)) and not isinstance(a, bool) and op is o.mul:
            return Gap(a * b.mag, a * b.off)
        if isinstance(a, Ord) and isinstance(b, Gap) and op in (o.add, o.sub):
            return Ord(op(a.rank, b.mag), op(a.off, b.off))
        if isinstance(a, Gap) and isinstance(b, Ord) and op is o.add:
            return Ord(b.rank + a.mag, b.off + a.off)
        if isinstance(a, Gap) and isinstance(b, Gap) and op in (o.add, o.sub):
            return Gap(op(a.mag, b.mag), op(a.off, b.off))
        if isinstance(a, Sym) or isinstance(b, Sym):
            num = lambda x: isinstance(x, (int, float, Fraction)) and not isinstance(x, bool)
            lit = lambda x: x.val if isinstance(x, Tok) and x.kind == 'PH0' and num(x.val) else x      # a literal initial fill is its number
            a, b = lit(a), lit(b)
            from .poly import Poly as _P
            sa_ = a if isinstance(a, Sym) else (Sym(_P.const(a)) if num(a) else None)
            sb_ = b if isinstance(b, Sym) else (Sym(_P.const(b)) if num(b) else None)
            if sa_ is not None and sb_ is not None:
                if op in (o.add, o.sub):
                    if sa_.q is None and sb_.q is None:
                        return Sym(op(sa_.p, sb_.p))
                    if sa_.q is not None and sb_.q is not None and sa_.q == sb_.q:
                        return Sym(op(sa_.p, sb_.p), sa_.q)
                    qa, qb = sa_.den(), sb_.den()
                    d = qb.divexact(qa)             # common denominator: the larger one when it is a multiple of the other
                    if d is not None:
                        return Sym(op(sa_.p * d, sb_.p), qb)
                    d = qa.divexact(qb)
                    if d is not None:
                        return Sym(op(sa_.p, sb_.p * d), qa)
                    return Sym(op(sa_.p * qb, sb_.p * qa), qa * qb)
                if op is o.mul:
                    if sa_.q is None and sb_.q is None:
                        return Sym(sa_.p * sb_.p)
                    pa_, qa, pb_, qb = sa_.p, sa_.den(), sb_.p, sb_.den()
                    if sb_.q is not None:
                        d = pa_.divexact(qb)        # cancel across: (pa / qa) * (pb / qb) with qb | pa
                        if d is not None:
                            pa_, qb = d, _P.const(1)
                    if sa_.q is not None:
                        d = pb_.divexact(qa)
                        if d is not None:
                            pb_, qa = d, _P.const(1)
                    return Sym(pa_ * pb_, qa * qb)
                if op is o.truediv:
                    if sb_.is_zero():
                        raise Raised('ZeroDivisionError', 'division by zero', node)
                    return Sym(sa_.p * sb_.den(), sa_.den() * sb_.p)
            if op is o.pow and isinstance(a, Sym) and isinstance(b, (int, float, Fraction)) and not isinstance(b, bool) and b == int(b) and 0 <= int(b) <= 6:
                pp, qq = _P.const(1), _P.const(1)           # a small natural power is the repeated product
                for _ in range(int(b)):
                    pp, qq = pp * a.p, qq * a.den()
                return Sym(pp, qq if a.q is not None else None)
        if isinstance(a, Mono) and isinstance(b, Mono) and op in (o.mul, o.truediv):
            return a.combine(b, 1 if op is o.mul else -1)
        if isinstance(a, Mono) and isinstance(b, (int, float)) and not isinstance(b, bool) and b == 1 and op in (o.mul, o.truediv):
            return a
        if isinstance(b, Mono) and isinstance(a, (int, float)) and not isinstance(a, bool) and a == 1 and op in (o.mul, o.truediv):
            return b if op is o.mul else Mono({}).combine(b, -1)
        if isinstance(a, Tok) or isinstance(b, Tok):
            dep = None
            for x in (a, b):
                if isinstance(x, Tok) and x.kind == 'PH0':
                    self.ph0_reads.append((node, self.cur_stmt))
                if isinstance(x, Tok) and x.kind == 'PHN':
                    raise Violation('SK2', 'None placeholder used in arithmetic', node)
                if isinstance(x, Tok) and x.dep is not None:
                    dep = x.dep if dep is None else (dep | x.dep)
            return Tok('DEF', dep=dep)
        try:
            return op(a, b)
        except ZeroDivisionError:
            raise Raised('ZeroDivisionError', 'division by zero', node)
        except TypeError as ex:
            raise Violation('SK2', 'type error in arithmetic: %s' % ex, node)

    OPS = {ast.Add: o.add, ast.Sub: o.sub, ast.Mult: o.mul, ast.Div: o.truediv, ast.FloorDiv: o.floordiv, ast.Mod: o.mod, ast.Pow: o.pow,
           ast.LShift: o.lshift, ast.RShift: o.rshift, ast.BitAnd: o.and_, ast.BitOr: o.or_, ast.BitXor: o.xor}

    def e_BinOp(self, e, env):
        # [0.0] * n  /  n * [0.0]: the replicated float literal is a placeholder fill, like the element of an initialiser comprehension
        if isinstance(e.op, ast.Mult):
            for lst, cnt in ((e.left, e.right), (e.right, e.left)):
                if isinstance(lst, ast.List) and len(lst.elts) == 1 and isinstance(lst.elts[0], ast.Constant) and (isinstance(lst.elts[0].value, float) or lst.elts[0].value is None):
                    n_ = self.ev(cnt, env)
                    if isinstance(n_, int) and not isinstance(n_, bool):
                        v_ = lst.elts[0].value
                        return [Tok('PHN') if v_ is None else Tok('PH0', v_) for _ in range(max(0, n_))]
        a, b = self.ev(e.left, env), self.ev(e.right, env)
        if isinstance(e.op, ast.Add) and isinstance(a, (list, str, tuple)) and isinstance(b, type(a)):
            return a + b
        if self.text and isinstance(e.op, ast.Add) and (isinstance(a, str) or isinstance(b, str)):
            if not (isinstance(a, str) and isinstance(b, str)):
                raise Violation('SK2', 'str + %s' % type(b if isinstance(a, str) else a).__name__, e)
            return a + b
        if isinstance(e.op, ast.Add) and isinstance(a, str) or isinstance(b, str):
            return ''
        if isinstance(e.op, ast.Mult) and isinstance(a, (list, str)) and isinstance(b, int):
            return a * b
        if isinstance(e.op, ast.Mod) and isinstance(a, str):
            return ''
        return self.arith(self.OPS[type(e.op)], a, b, e)

    def e_UnaryOp(self, e, env):
        v = self.ev(e.operand, env)
        if isinstance(v, Sym) and isinstance(e.op, ast.Not):
            return v.is_zero()          # atoms are generic reals: a rational function is zero only if it is identically zero
        if isinstance(e.op, ast.Not):
            if isinstance(v, Tok):
                raise Unsupported('truth value of abstract float')
            return not v
        if isinstance(v, Sym):
            return Sym(-v.p, v.q) if isinstance(e.op, ast.USub) else v
        if isinstance(v, Tok):
            return self.arith(lambda a, b: a, v, 0, e)
        if v is None or isinstance(v, list):
            raise Violation('SK2', 'placeholder %r negated' % (v,), e)
        return -v if isinstance(e.op, ast.USub) else +v

    def e_BoolOp(self, e, env):
        r = None
        for v in e.values:
            r = self.ev(v, env)
            if isinstance(r, Tok):
                raise Unsupported('truth value of abstract float')
            if isinstance(e.op, ast.And) and not r:
                return r
            if isinstance(e.op, ast.Or) and r:
                return r
        return r

    CMP = {ast.Lt: o.lt, ast.LtE: o.le, ast.Gt: o.gt, ast.GtE: o.ge, ast.Eq: o.eq, ast.NotEq: o.ne, ast.Is: o.is_, ast.IsNot: o.is_not,
           ast.In: lambda a, b: a in b, ast.NotIn: lambda a, b: a not in b}

    def e_Compare(self, e, env):
        l = self.ev(e.left, env)
        for op, c in zip(e.ops, e.comparators):
            r = self.ev(c, env)
            if isinstance(op, (ast.In, ast.NotIn)) and isinstance(r, (list, tuple)) and (isinstance(l, Tok) or any(isinstance(y, Tok) for y in r)):
                # membership in a display is equality with one of its elements
                hit = False
                for y in r:
                    d_ = order_compare(l, y, ast.Eq()) if (isinstance(l, Tok) or isinstance(y, Tok)) else (l == y)
                    if d_ is None and (isinstance(l, Sym) or isinstance(y, Sym)):
                        # symbolic atoms stand for generic reals: equal only if identical
                        from .poly import Poly as _P
                        num_ = lambda v: isinstance(v, (int, float, Fraction)) and not isinstance(v, bool)
                        pl = l if isinstance(l, Sym) else (Sym(_P.const(l)) if num_(l) else None)
                        py = y if isinstance(y, Sym) else (Sym(_P.const(y)) if num_(y) else None)
                        if pl is not None and py is not None:
                            d_ = pl.same(py)
                    if d_ is None:
                        d_ = (l is y) or None
                    if d_ is None:
                        raise Unsupported('membership of an abstract float: %s' % norm(e))
                    hit = hit or bool(d_)
                res = hit if isinstance(op, ast.In) else not hit
                if not res:
                    return False
                l = r
                continue
            if isinstance(l, Tok) or isinstance(r, Tok):
                dec = order_compare(l, r, op)
                if dec is not None:
                    if not dec:
                        return False
                    l = r
                    continue
                if isinstance(op, (ast.Is, ast.IsNot)):
                    res = (l is r) if isinstance(op, ast.Is) else (l is not r)
                    if not res:
                        return False
                    l = r
                    continue
                if (isinstance(l, Sym) or isinstance(r, Sym)) and isinstance(op, (ast.Eq, ast.NotEq)):
                    # symbolic atoms stand for generic reals: two polynomials are equal only if they are identical
                    from .poly import Poly as _P
                    pl = l if isinstance(l, Sym) else (Sym(_P.const(l)) if isinstance(l, (int, float, Fraction)) and not isinstance(l, bool) else None)
                    pr = r if isinstance(r, Sym) else (Sym(_P.const(r)) if isinstance(r, (int, float, Fraction)) and not isinstance(r, bool) else None)
                    if pl is not None and pr is not None:
                        same = pl.same(pr)
                        res = same if isinstance(op, ast.Eq) else not same
                        if not res:
                            return False
                        l = r
                        continue
                if self.decisions is not None:
                    # PH0 is the literal initial fill 0.0/1.0 of this run: comparisons of it with a literal are concrete only for ==/!= 0.0
                    k = len(self.trace)
                    res = self.decisions[k] if k < len(self.decisions) else True
                    self.trace.append(res)
                    self.fork_log.append((norm(e)[:80], res))
                    if not res:
                        return False
                    l = r
                    continue
                if isinstance(op, (ast.Eq, ast.NotEq)) and (isinstance(l, (int, float)) or isinstance(r, (int, float))) and \
                        all(not isinstance(x, Tok) or x.kind == 'DEF' for x in (l, r)):
                    # an abstract float stands for a generic real: it equals no particular number (the exactly-equal path is the
                    # business of the drivers that place structural zeros)
                    self.generic_eq += 1
                    res = isinstance(op, ast.NotEq)
                    if not res:
                        return False
                    l = r
                    continue
                raise Unsupported('comparison of abstract floats: %s' % norm(e))
            try:
                if not self.CMP[type(op)](l, r):
                    return False
            except TypeError as ex:
                raise Violation('SK2', 'comparison with placeholder: %s' % ex, e)
            l = r
        return True

    def e_IfExp(self, e, env):
        return self.ev(e.body, env) if self.ev(e.test, env) else self.ev(e.orelse, env)

    def e_Tuple(self, e, env):
        return tuple(self.ev(x, env) for x in e.elts)

    def e_List(self, e, env):
        return [self.ev(x, env) for x in e.elts]

    def e_Dict(self, e, env):
        return {self.ev(k, env): self.ev(v, env) for k, v in zip(e.keys, e.values)}

    def e_Slice(self, e, env):
        return slice(*(None if x is None else self.ev(x, env) for x in (e.lower, e.upper, e.step)))

    def e_Subscript(self, e, env):
        b = self.ev(e.value, env)
        i = self.ev(e.slice, env)
        if isinstance(i, Tok):
            raise Unsupported('abstract float used as index')
        if self.copies and id(b) in self.copies and isinstance(i, int):
            src, works = self.copies[id(b)]
            for w in works:
                if -len(src) <= i < len(src) and len(w) == len(src) and not same_cells(src[i], w[i]):
                    self.stale.append((e, i))
        if isinstance(b, Bag) and '__iter__' in b._a:
            b = b._a['__iter__']
        try:
            return b[i]
        except KeyError:
            raise Raised('KeyError', 'key %r is not in the dictionary (keys %s)' % (i, sorted(map(str, b))[:8] if isinstance(b, dict) else '?'), e)
        except IndexError:
            raise Raised('IndexError', 'index %r out of range (length %s)' % (i, len(b) if hasattr(b, '__len__') else '?'), e)
        except TypeError:
            raise Violation('SK2', 'subscript of placeholder %r' % (b,), e)

    def comp(self, gens, env, body):
        if not gens:
            yield body(env)
            return
        g = gens[0]
        for item in self.iterate(self.ev(g.iter, env), g.iter):
            env2 = dict(env)
            self.bind(g.target, item, env2)
            if all(self.ev(c, env2) for c in g.ifs):
                for x in self.comp(gens[1:], env2, body):
                    yield x

    def e_ListComp(self, e, env):
        # a float literal as the element of an initialiser comprehension is a placeholder fill
        if isinstance(e.elt, ast.Constant) and isinstance(e.elt.value, float):
            return [Tok('PH0', e.elt.value) for _ in self.comp(e.generators, env, lambda en: 0)]
        if isinstance(e.elt, ast.Constant) and e.elt.value is None:
            return [Tok('PHN') for _ in self.comp(e.generators, env, lambda en: 0)]
        return list(self.comp(e.generators, env, lambda en: self.ev(e.elt, en)))

    e_GeneratorExp = e_ListComp

    def e_DictComp(self, e, env):
        out = {}
        for k_, v_ in self.comp(e.generators, env, lambda en: (self.ev(e.key, en), self.ev(e.value, en))):
            out[k_] = v_
        return out

    def e_SetComp(self, e, env):
        return set(self.comp(e.generators, env, lambda en: self.ev(e.elt, en)))

    def e_JoinedStr(self, e, env):
        return ''

    def e_Lambda(self, e, env):
        ps = [a.arg for a in e.args.args]
        dfl = [self.ev(d, env) for d in e.args.defaults]

        def f(sk, node, *a, _env=env, **k):
            env2 = dict(_env)
            for p_, d_ in zip(ps[len(ps) - len(dfl):], dfl):
                env2[p_] = d_
            for p_, v_ in zip(ps, a):
                env2[p_] = v_
            for k_, v_ in k.items():
                env2[k_] = v_
            if e.args.vararg:
                env2[e.args.vararg.arg] = tuple(a[len(ps):])
            return sk.ev(e.body, env2)
        return Py(f, 'lambda')

    def e_Yield(self, e, env):
        if not self.gen_stack:
            raise Unsupported('yield outside an interpreted generator')
        v = None if e.value is None else self.ev(e.value, env)
        self.gen_stack[-1].emit(v)
        return None

    def e_YieldFrom(self, e, env):
        if not self.gen_stack:
            raise Unsupported('yield from outside an interpreted generator')
        for v in self.iterate(self.ev(e.value, env), e):
            self.gen_stack[-1].emit(v)
        return None

    def iterate(self, v, node):
        if v is None or isinstance(v, Tok):
            raise Violation('SK2', 'iteration over placeholder %r' % (v,), node)
        if isinstance(v, Bag) and '__iter__' in v._a:
            return list(v._a['__iter__'])
        if isinstance(v, Bag) and isinstance(v._cls, tuple):
            # the iteration protocol of the class itself: __iter__ once, then __next__ until it raises StopIteration
            fi_it = self.m.lookup(v._cls, '__iter__', 'methods')
            if fi_it is None:
                raise Violation('SK2', 'iteration over an object of %s.%s, which defines no __iter__' % v._cls, node)
            it = self.call(fi_it, [v], {})
            fi_nx = self.m.lookup(it._cls, '__next__', 'methods') or self.m.lookup(it._cls, 'next', 'methods') if isinstance(it, Bag) and isinstance(it._cls, tuple) else None
            if fi_nx is None:
                raise Violation('SK2', '__iter__ does not return an object with __next__', node)
            out = []
            for _ in range(100000):
                try:
                    out.append(self.call(fi_nx, [it], {}))
                except Raised as r:
                    if r.exc == 'StopIteration':
                        break
                    raise
            return out
        return v

    def e_Call(self, e, env):
        f = self.ev(e.func, env)
        # lazily evaluated kwargs.get(key, default) when key is supplied
        if isinstance(f, Py) and f.name == 'dict.get' and len(e.args) == 2:
            d = self.ev(e.func.value, env)
            k = self.ev(e.args[0], env)
            if k in d:
                return d[k]
            return self.ev(e.args[1], env)
        args = []
        for a in e.args:
            if isinstance(a, ast.Starred):
                args += list(self.ev(a.value, env))
            else:
                args.append(self.ev(a, env))
        kw = {}
        for k in e.keywords:
            if k.arg is None:
                kw.update(self.ev(k.value, env))
            else:
                kw[k.arg] = self.ev(k.value, env)
        return self.apply(f, args, kw, e, env)

    def apply(self, f, args, kw, node, env=None):
        if isinstance(f, Py):
            return f.f(self, node, *args, **kw)
        if isinstance(f, FnRef):
            if f.bound is not None:
                return self.call(f.fi, [f.bound] + args, kw)
            if _memoising_decorator(f.fi.node):
                # @lru_cache: the very object computed by the first call is what every later call with equal arguments returns
                memo = self.__dict__.setdefault('_memo', {})
                return _memo_call(self, memo, f.fi.key, lambda: self.call(f.fi, args, kw), args, kw, node)
            return self.call(f.fi, args, kw)
        if isinstance(f, tuple) and f and f[0] == 'class':
            hook = self.abstracted.get(('class', f[1]))
            if hook is not None:
                return hook(self, node, *args, **kw)
            if self.construct:
                # run the class's own __init__ chain on a fresh attribute bag
                b = Bag(f[1])
                init = self.m.lookup(f[1], '__init__', 'methods')
                if init is not None:
                    self.call(init, [b] + list(args), kw)
                return b
            raise Unsupported('construction of %s.%s' % f[1])
        if isinstance(f, tuple) and f and f[0] == 'super':
            return SuperRef(env['self'], env['__cls__'])
        raise Unsupported('call of %r' % (f,))

    # ------------------------------------------------------------------ functions
    def call(self, fi, args, kw):
        fn = fi.node
        self.depth += 1
        if self.depth > self.MAXDEPTH:
            raise Unsupported('call depth')
        env = {'__mod__': fi.mod, '__cls__': (fi.mod, fi.cls) if fi.cls else None, '__fi__': fi}
        a = fn.args
        params = [p.arg for p in a.args]
        defaults = [None] * (len(params) - len(a.defaults)) + list(a.defaults)
        kw = dict(kw)
        for i, p in enumerate(params):
            if i < len(args):
                env[p] = args[i]
            elif p in kw:
                env[p] = kw.pop(p)
            elif defaults[i] is not None:
                env[p] = self.ev(defaults[i], env)
            else:
                raise Unsupported('missing argument %s of %s' % (p, fi.key))
        if a.kwarg:
            env[a.kwarg.arg] = kw
        elif kw:
            raise Violation('SK2', 'unexpected keyword arguments %s for %s' % (sorted(kw), fi.key))
        if a.vararg:
            env[a.vararg.arg] = tuple(args[len(params):])
        isgen = getattr(fn, '_sa_isgen', None)
        if isgen is None:
            isgen = fn._sa_isgen = any(isinstance(x, (ast.Yield, ast.YieldFrom)) for x in _walk_own(fn))
        if isgen:
            self.depth -= 1
            return GenObj(self, fn, env)          # a generator function: its body runs lazily, one `yield` at a time
        try:
            self.block(fn.body, env)
            r = None
        except Ret as r_:
            r = r_.v
        self.depth -= 1
        return r

    def bind(self, t, v, env):
        if isinstance(t, ast.Name):
            env[t.id] = v
        elif isinstance(t, (ast.Tuple, ast.List)):
            try:
                vs = list(v)
            except TypeError:
                raise Violation('SK2', 'cannot unpack %r' % (v,), t)
            if len(vs) != len(t.elts):
                raise Violation('SK1', 'unpacking %d values into %d targets' % (len(vs), len(t.elts)), t)
            for a, b in zip(t.elts, vs):
                self.bind(a, b, env)
        elif isinstance(t, ast.Subscript):
            b = self.ev(t.value, env)
            i = self.ev(t.slice, env)
            try:
                b[i] = v
            except (IndexError, KeyError):
                raise Violation('SK1', 'store index %r out of range (length %d)' % (i, len(b)), t)
            except TypeError:
                raise Violation('SK2', 'store into placeholder %r' % (b,), t)
        elif isinstance(t, ast.Attribute):
            b = self.ev(t.value, env)
            if isinstance(b, Bag):
                st_ = self.m.lookup(b._cls, t.attr, 'setters') if isinstance(b._cls, tuple) and t.attr not in b._a else None
                if st_ is not None:
                    self.call(st_, [b, v], {})              # property write
                else:
                    b._a[t.attr] = v
            else:
                raise Unsupported('attribute store on %s' % type(b).__name__)
        else:
            raise Unsupported('target ' + type(t).__name__)

    def block(self, body, env):
        for st in body:
            self.st(st, env)

    AUG = {ast.Add: o.add, ast.Sub: o.sub, ast.Mult: o.mul, ast.Div: o.truediv, ast.FloorDiv: o.floordiv}

    def st(self, n, env):
        self.steps += 1
        if self.steps > 4000000:
            raise Unsupported('step budget')
        prev = self.cur_stmt
        self.cur_stmt = n
        try:
            self._st(n, env)
        finally:
            self.cur_stmt = prev

    def _st(self, n, env):
        if isinstance(n, ast.Expr):
            if not isinstance(n.value, ast.Constant):
                self.ev(n.value, env)
        elif isinstance(n, ast.Assign):
            v = self.ev(n.value, env)
            for t in n.targets:
                self.bind(t, v, env)
        elif isinstance(n, ast.AugAssign):
            cur = self.ev(n.target, env)
            v = self.ev(n.value, env)
            if isinstance(cur, list) and isinstance(n.op, ast.Add):
                cur.extend(self.iterate(v, n))
                return
            self.bind(n.target, self.arith(self.AUG[type(n.op)], cur, v, n), env)
        elif isinstance(n, ast.For):
            src = self.iterate(self.ev(n.iter, env), n.iter)
            k_it = 0
            # (an iterator is consumed lazily: it may be endless - itertools.count() - and left with break / return)
            for item in (src if isinstance(src, GenObj) or hasattr(src, '__next__') else list(src)):
                k_it += 1
                if k_it > self.MAXITER and hasattr(src, '__next__'):
                    raise Violation('SK1', 'loop over an iterator does not terminate within %d iterations' % self.MAXITER, n)
                self.bind(n.target, item, env)
                try:
                    self.block(n.body, env)
                except Brk:
                    break
                except Cont:
                    continue
        elif isinstance(n, ast.While):
            k = 0
            while self.ev(n.test, env):
                k += 1
                if k > self.MAXITER:
                    raise Violation('SK1', 'loop does not terminate within %d iterations' % self.MAXITER, n)
                try:
                    self.block(n.body, env)
                except Brk:
                    break
                except Cont:
                    continue
        elif isinstance(n, ast.If):
            self.block(n.body if self.ev(n.test, env) else n.orelse, env)
        elif isinstance(n, ast.Return):
            raise Ret(None if n.value is None else self.ev(n.value, env))
        elif isinstance(n, ast.Raise):
            if n.exc is not None and norm(n.exc).split('(')[0] == 'StopIteration':
                raise Raised('StopIteration', 'StopIteration', n)         # the iteration protocol of the interpreted classes
            raise Violation('RAISE', 'explicit raise reached: %s' % norm(n)[:80], n)
        elif isinstance(n, ast.Break):
            raise Brk()
        elif isinstance(n, ast.Continue):
            raise Cont()
        elif isinstance(n, ast.Pass):
            pass
        elif isinstance(n, ast.Try):
            try:
                self.block(n.body, env)
            except Raised as r:
                for h in n.handlers:
                    names = [norm(x) for x in (h.type.elts if isinstance(h.type, ast.Tuple) else [h.type])] if h.type is not None else ['Exception']
                    if any(x.split('.')[-1] in (r.exc, 'Exception', 'ArithmeticError', 'BaseException') for x in names):
                        self.block(h.body, env)
                        break
                else:
                    raise
            else:
                self.block(n.orelse, env)
            self.block(n.finalbody, env)
        elif isinstance(n, ast.With):
            for item in n.items:
                v = self.ev(item.context_expr, env)
                if isinstance(v, Bag) and '__enter__' in v._a:
                    v = self.apply(v._a['__enter__'], [], {}, n, env)
                if item.optional_vars is not None:
                    self.bind(item.optional_vars, v, env)
            self.block(n.body, env)
        elif isinstance(n, ast.FunctionDef):
            env[n.name] = Py(lambda sk, node, *a, _n=n, _env=env, **k: sk.call_local(_n, _env, a, k), 'local')
        elif isinstance(n, ast.Delete):
            for t in n.targets:
                if isinstance(t, ast.Subscript):
                    b = self.ev(t.value, env)
                    del b[self.ev(t.slice, env)]
        elif isinstance(n, (ast.Import, ast.ImportFrom, ast.Global)):
            pass
        else:
            raise Unsupported('statement ' + type(n).__name__)

    def call_local(self, fn, outer, args, kw):
        env = dict(outer)
        ps = [x.arg for x in fn.args.args]
        dfl = fn.args.defaults
        for p, d in zip(ps[len(ps) - len(dfl):], dfl):
            env[p] = self.ev(d, outer)
        for p, a in zip(ps, args):
            env[p] = a
        for k, v in kw.items():
            if k in ps:
                env[k] = v
        if fn.args.kwarg:
            env[fn.args.kwarg.arg] = {k: v for k, v in kw.items() if k not in ps}
        try:
            self.block(fn.body, env)
        except Ret as r:
            return r.v
        return None


def math_fn(name, *a):
    import math
    if len(a) == 1 and isinstance(a[0], Sym) and name in ('cos', 'sin', 'radians', 'sqrt'):
        return Sym('%s(%r)' % (name, a[0].p))
    if any(isinstance(x, Tok) for x in a):
        return DEF()
    return getattr(math, name)(*a)


def _isinst(sk, n, x, t):
    if isinstance(t, Py) and t.name == 'float':
        return isinstance(x, Tok) and x.kind in ('DEF', 'PH0') or isinstance(x, float)
    if isinstance(t, Py) and t.name == 'int':
        return isinstance(x, int) and not isinstance(x, bool)
    if isinstance(t, Py) and t.name in ('list', 'tuple'):
        return isinstance(x, list if t.name == 'list' else tuple)
    if isinstance(t, Py) and t.name in ('bool', 'str', 'dict', 'set'):
        return isinstance(x, {'bool': bool, 'str': str, 'dict': dict, 'set': set}[t.name])
    if isinstance(t, Py) and t.name == 'NoneType':
        return x is None
    if isinstance(t, tuple) and t and t[0] == 'class':
        if isinstance(x, Bag) and '__isa__' in x._a:
            return any(t[1] in sk.m.mro(c) for c in x._a['__isa__'])        # recorder objects declare the class they stand for
        return isinstance(x, Bag) and isinstance(x._cls, tuple) and t[1] in sk.m.mro(x._cls)
    if isinstance(t, tuple):
        return any(_isinst(sk, n, x, tt) for tt in t)
    return False


def _str(sk, n, *a):
    if not sk.text or not a:
        return ''
    x = a[0]
    if isinstance(x, Tok):
        return print_token(sk, x)
    if isinstance(x, (int, float, str)):
        return str(x)
    if isinstance(x, Fraction):
        return str(int(x)) if x.denominator == 1 else repr(float(x))
    raise Unsupported('str() of %s' % type(x).__name__)


def print_token(sk, x):
    """the printed form of an abstract float: a label without white space that reads back (float()) as the very same token"""
    if isinstance(x, (Ord, Gap)) or type(x).__name__ in ('Sym', 'Mono') or not x.dep:
        lab = '<%s#%d>' % (type(x).__name__.lower(), len(sk.printed)) if not isinstance(x, Ord) else '<ord:%r>' % (x.rank,)
        for k, v in sk.printed.items():
            if v is x:
                return k
    else:
        lab = '<%s>' % ','.join(str(l).replace(' ', '') for l in sorted(x.dep, key=repr))
    sk.printed.setdefault(lab, x)
    return lab


class _Printed(object):
    """argument of str.format in text mode: an abstract float prints as its label whatever the format specification -- except that an
    exact symbolic value printed with fewer than 15 decimals reads back as another (rounded) value"""
    def __init__(self, lab, tok=None, sk=None):
        self.lab, self.tok, self.sk = lab, tok, sk

    def __format__(self, spec):
        import re as _re
        mt = _re.search(r'\.(\d+)[fFeE]$', spec or '')
        if mt and int(mt.group(1)) < 15 and isinstance(self.tok, Sym) and self.sk is not None:
            return print_token(self.sk, _round(self.sk, None, self.tok, int(mt.group(1))))
        return self.lab

    def __str__(self):
        return self.lab


def fmt_arg(sk, x):
    if isinstance(x, Tok):
        return _Printed(print_token(sk, x), x, sk)
    if isinstance(x, Fraction):
        return int(x) if x.denominator == 1 and False else float(x)
    if hasattr(x, '__next__'):
        return list(x)
    return x


def _float(sk, n, x):
    if sk.exact and isinstance(x, (int, Fraction)) and not isinstance(x, bool):
        return Fraction(x)          # exact mode: the float of an integer takes part in rational arithmetic exactly
    if isinstance(x, (Ord, Gap)):
        return x
    if isinstance(x, Tok):
        if x.kind == 'PHN':
            raise Violation('SK2', 'float(None placeholder)', n)
        return x
    if x is None or isinstance(x, list):
        raise Violation('SK2', 'float(%r)' % (x,), n)
    if isinstance(x, str):
        if x.strip().lower() in ('inf', '+inf', '-inf', 'infinity', '+infinity', '-infinity'):
            return float(x)
        if not sk.text:
            raise Unsupported('float() of a formatted string')
        t = x.strip()
        if t in sk.printed:
            return sk.printed[t]
        try:
            v = float(t)
        except ValueError:
            raise Raised('ValueError', 'could not convert string to float: %r' % t, n)
        if sk.exact:
            fr = Fraction(t) if all(c in '+-0123456789.' for c in t) else Fraction(v)
            return int(fr) if fr.denominator == 1 else fr
        return v
    return float(x)


def _sum(sk, n, x, *start):
    x = list(x)
    for y in x:
        if y is None or isinstance(y, list):
            raise Violation('SK2', 'placeholder %r in sum()' % (y,), n)
    if sk.exact or any(isinstance(y, Sym) for y in x):
        acc = start[0] if start else 0
        for y in x:
            acc = sk.arith(o.add, acc, y, n)
        return acc
    if any(isinstance(y, Tok) for y in x):
        return DEF()
    return sum(x, *start)


def _next(sk, n, it, *default):
    if isinstance(it, (list, tuple)):           # (generator expressions are materialised: next() of one is its first element)
        if it:
            return it[0]
    elif hasattr(it, '__next__'):
        try:
            return next(it)
        except StopIteration:
            pass
    else:
        raise Unsupported('next() of %s' % type(it).__name__)
    if default:
        return default[0]
    raise Raised('StopIteration', 'next() of an exhausted iterator', n)


NONETYPE = Py(lambda sk, n: None, 'NoneType')


def _type_of(sk, n, x):
    """type(x): the class of a class-keyed object, the builtin for plain data (an abstract float is a float)"""
    if isinstance(x, Bag):
        if isinstance(x._cls, tuple):
            return ('class', x._cls)
        raise Unsupported('type() of a stand-in object')
    if x is None:
        return NONETYPE
    if isinstance(x, bool):
        return BUILTINS['bool']
    for t_, name in ((Tok, 'float'), (float, 'float'), (Fraction, 'float'), (int, 'int'), (str, 'str'), (list, 'list'), (tuple, 'tuple'), (dict, 'dict'), (set, 'set')):
        if isinstance(x, t_):
            return BUILTINS[name]
    raise Unsupported('type() of %s' % type(x).__name__)


def _round(sk, n, x, *a):
    if isinstance(x, Sym):
        # rounding to the full precision of a double (15 decimals and more) hands back the value; anything coarser is another number
        nd = a[0] if a else 0
        if isinstance(nd, int) and not isinstance(nd, bool) and nd >= 15:
            return x
        return Sym('round(%r, %r)' % (x.p if x.q is None else (x.p, x.q), nd))
    if isinstance(x, Tok):
        return x
    return round(x, *a)


def _sorted(sk, n, x, **k):
    unknown = set(k) - {'key', 'reverse'}
    if unknown:
        raise Unsupported('sorted() with keyword %s' % sorted(unknown)[0])
    vals = list(sk.iterate(x, n))
    key = k.get('key')
    keys = [sk.apply(key, [v], {}, n) for v in vals] if key is not None else vals
    if any(isinstance(v, Tok) for v in keys) and not all(isinstance(v, Ord) for v in keys):
        raise Unsupported('sorted() of abstract floats')
    if keys and all(isinstance(v, Ord) for v in keys):
        keys = [v.rank for v in keys]           # order tokens sort by rank
    order = sorted(range(len(vals)), key=lambda i: keys[i], reverse=bool(k.get('reverse', False)))
    return [vals[i] for i in order]


def _minmax(f):
    def g(sk, n, *a, **k):
        unknown = set(k) - {'key', 'default'}
        if unknown:
            raise Unsupported('%s() with keyword %s' % (f.__name__, sorted(unknown)[0]))
        vals = list(sk.iterate(a[0], n)) if len(a) == 1 else list(a)
        if not vals:
            if 'default' in k:
                return k['default']
            raise Raised('ValueError', '%s() arg is an empty sequence' % f.__name__, n)
        key = k.get('key')
        keys = [sk.apply(key, [v], {}, n) for v in vals] if key is not None else vals
        if any(isinstance(v, Tok) for v in keys):
            if key is not None:
                # the first extremal element under the key, decided by the order abstraction where it can be
                op = ast.Gt() if f is max else ast.Lt()
                best = 0
                for i in range(1, len(vals)):
                    dec = order_compare(keys[i], keys[best], op)
                    if dec is None:
                        raise Unsupported('%s(..., key=...) over abstract floats that are not ordered' % f.__name__)
                    if dec:
                        best = i
                return vals[best]
            return DEF()
        if key is not None:
            return vals[f(range(len(vals)), key=lambda i: keys[i])]
        return f(vals)
    return g


BUILTINS = {
    'range': Py(lambda sk, n, *a: list(range(*a)) if all(isinstance(x, int) and not isinstance(x, bool) for x in a) else (_ for _ in ()).throw(Raised('TypeError', 'range() of %r' % (a,), n)), 'range'), 'len': Py(lambda sk, n, x: _len(sk, n, x), 'len'),
    'min': Py(_minmax(min), 'min'), 'max': Py(_minmax(max), 'max'),
    'int': Py(lambda sk, n, x=0: _int(sk, n, x), 'int'), 'float': Py(_float, 'float'),
    'abs': Py(lambda sk, n, x: abs(x.p.const_value()) if isinstance(x, Sym) and x.q is None and x.p.is_const() else ((Gap(abs(x.mag), x.off * x.sign) if x.mag else Gap(0, abs(x.off))) if isinstance(x, Gap) else DEF()) if isinstance(x, Tok) else abs(x), 'abs'), 'round': Py(_round, 'round'),
    'zip': Py(lambda sk, n, *a: list(zip(*[sk.iterate(x, n) for x in a])), 'zip'),
    'enumerate': Py(lambda sk, n, x, *s: list(enumerate(sk.iterate(x, n), *s)), 'enumerate'),
    'isinstance': Py(_isinst, 'isinstance'), 'list': Py(lambda sk, n, *a: list(sk.iterate(a[0], n)) if a else [], 'list'), 'tuple': Py(lambda sk, n, *a: tuple(sk.iterate(a[0], n)) if a else (), 'tuple'),
    'shallowcopy': Py(_shallowcopy, 'copy.copy'), 'id': Py(lambda sk, n, x: id(x), 'id'), 'setattr': Py(lambda sk, n, ob, k, v: _setattr(sk, n, ob, k, v), 'setattr'),
    'getattr': Py(lambda sk, n, ob, k, *d: _getattr(sk, n, ob, k, *d), 'getattr'),
    'hasattr': Py(lambda sk, n, ob, k: isinstance(ob, Bag) and (k in ob._a or (isinstance(ob._cls, tuple) and isinstance(k, str) and (sk.class_attr(ob._cls, k) is not NOATTR or sk.m.lookup(ob._cls, k, 'methods') is not None or sk.m.lookup(ob._cls, k, 'getters') is not None))), 'hasattr'),
    'dict': Py(lambda sk, n, *a, **k: dict(*a, **k), 'dict'), 'deepcopy': Py(_deepcopy_tracked, 'deepcopy'),
    'type': Py(lambda sk, n, x: _type_of(sk, n, x), 'type'),
    'next': Py(lambda sk, n, it, *d: _next(sk, n, it, *d), 'next'), 'iter': Py(lambda sk, n, x: iter(sk.iterate(x, n)), 'iter'),
    'divmod': Py(lambda sk, n, a, b: divmod(a, b) if all(isinstance(x, (int, float)) and not isinstance(x, bool) for x in (a, b)) else DEF(), 'divmod'),
    'sum': Py(_sum, 'sum'), 'reversed': Py(lambda sk, n, x: list(reversed(x)), 'reversed'), 'sorted': Py(lambda sk, n, x, **k: _sorted(sk, n, x, **k), 'sorted'),
    'lru_cache': Py(lambda sk, n, *a, **k: _lru_cache(sk, n, *a, **k), 'lru_cache'),
    'reduce': Py(lambda sk, n, f, seq, *init: _reduce(sk, n, f, seq, *init), 'reduce'),
    'partial': Py(lambda sk, n, f, *a, **k: Py(lambda sk2, n2, *a2, _f=f, _a=a, _k=k, **k2: sk2.apply(_f, list(_a) + list(a2), dict(_k, **k2), n2), 'partial'), 'partial'),
    'set': Py(lambda sk, n, *a: set(*a), 'set'), 'str': Py(lambda sk, n, *a: _str(sk, n, *a), 'str'), 'print': Py(lambda sk, n, *a, **k: None, 'print'),
    'all': Py(lambda sk, n, x: all(x), 'all'), 'any': Py(lambda sk, n, x: any(x), 'any'), 'bool': Py(lambda sk, n, x: bool(x), 'bool'),
    'super': ('super',), 'True': True, 'False': False, 'None': None,
    'ValueError': Py(lambda sk, n, *a, **k: ('exc', 'ValueError'), 'exc'), 'GeomdlException': Py(lambda sk, n, *a, **k: ('exc', 'GeomdlException'), 'exc'),
    'TypeError': Py(lambda sk, n, *a, **k: ('exc', 'TypeError'), 'exc'),
}


def _bisect(right):
    """bisect on a sorted list of ordered abstractions (or numbers): decided by rank"""
    def g(sk, n, a, x, lo=0, hi=None):
        def key(v):
            if isinstance(v, Ord):
                base = round(v.rank) if abs(v.rank - round(v.rank)) < NEAR else v.rank
                d = v.rank - base
                return (base, ((d > 0) - (d < 0)) * 10 ** -12 + v.off)        # the order order_compare decides
            if isinstance(v, Tok):
                raise Unsupported('bisect over abstract floats without an order')
            return (v, 0.0) if any(isinstance(w, Ord) for w in a) or isinstance(x, Ord) else v
        import bisect as _b
        keys = [key(v) for v in a]
        hi = len(keys) if hi is None else hi
        return (_b.bisect_right if right else _b.bisect_left)(keys, key(x), lo, hi)
    return g


BUILTINS['callable'] = Py(lambda sk, n, x: isinstance(x, (Py, FnRef)) or (isinstance(x, tuple) and x and x[0] == 'class'), 'callable')
BUILTINS['bisect_left'] = Py(_bisect(False), 'bisect_left')
BUILTINS['bisect_right'] = Py(_bisect(True), 'bisect_right')
BUILTINS['bisect'] = Py(_bisect(True), 'bisect')


def _len(sk, n, x):
    if isinstance(x, Bag) and '__len__' in x._a:
        return x._a['__len__']
    if isinstance(x, Bag) and isinstance(x._cls, tuple):
        fl = sk.m.lookup(x._cls, '__len__', 'methods')
        if fl is not None:
            return sk.call(fl, [x], {})
        raise Violation('SK2', 'len() of an object of %s.%s, which defines no __len__' % x._cls, n)
    if x is None or isinstance(x, (Tok, int, float, Fraction)):
        # Python raises TypeError: caught by an `except TypeError` of the interpreted code (matrix x vector dispatch), a violation otherwise
        raise Raised('TypeError', 'len() of %r, which has no length' % (x,), n)
    return len(x)


def _int(sk, n, x):
    if isinstance(x, Tok):
        raise Unsupported('int() of abstract float')
    if isinstance(x, str):
        try:
            return int(x)
        except ValueError:
            raise Raised('ValueError', 'invalid literal for int(): %r' % x, n)
    return int(x)


# ====================================================================================== helpers for drivers
def pts(n, dim, labelled=False):
    if labelled:
        return [[Tok('DEF', dep=frozenset([k])) for _ in range(dim)] for k in range(n)]
    return [[DEF() for _ in range(dim)] for _ in range(n)]


def footprint(cell):
    """union of the dependency footprints of the coordinates of a point (None if any coordinate is untracked)"""
    out = frozenset()
    for c in cell:
        if not isinstance(c, Tok) or c.dep is None:
            return None
        out |= c.dep
    return out


def floats(n):
    return [DEF() for _ in range(n)]


def const_abstraction(value_fn, name=''):
    return Py(lambda sk, node, *a, **k: value_fn(*a, **k), name)


STD_ABSTRACTED = {
    ('linalg', 'binomial_coefficient'): Py(lambda sk, n, *a: DEF(), 'binomial'),
    ('linalg', 'point_distance'): Py(lambda sk, n, *a: DEF(), 'point_distance'),
    ('helpers', 'knot_insertion_alpha'): Py(lambda sk, n, *a: DEF(), 'alpha'),
    ('helpers', 'knot_removal_alpha_i'): Py(lambda sk, n, *a: DEF(), 'alpha_i'),
    ('helpers', 'knot_removal_alpha_j'): Py(lambda sk, n, *a: DEF(), 'alpha_j'),
    ('linalg', 'linspace'): Py(lambda sk, n, a, b, num, decimals=18: [DEF() for _ in range(int(num))], 'linspace'),
}


def run_case(m, fkey, args, kw, abstracted=None, post=None):
    """-> None if clean, else (rule, message)"""
    ab = dict(STD_ABSTRACTED)
    ab.update(abstracted or {})
    sk = SK(m, ab)
    try:
        out = sk.call(m.func(fkey), args, kw)
        if post is not None:
            post(sk, out)
    except Violation as v:
        return (v.rule, '%s %s' % (v.msg, v.where()))
    return None


def explore(make_call, max_paths=4096, stop_on_failure=False):
    """enumerate every outcome of the undecidable float comparisons (fork points) of one case by decision replay (DFS).
    make_call(sk) runs the case on a fresh interpreter and returns its result or raises Violation.
    -> (number of paths, first failure (rule, msg, decisions) or None, truncated?)"""
    stack = [[]]
    n = 0
    first = None
    while stack:
        prefix = stack.pop()
        n += 1
        if n > max_paths:
            return n - 1, first, True
        res, trace = make_call(prefix)
        if res is not None and first is None:
            first = (res[0], res[1], list(trace))
            if stop_on_failure:
                return n, first, False          # one failing path settles the case: the remaining forks are not needed for the verdict
        for i in range(len(prefix), len(trace)):
            if trace[i]:
                stack.append(trace[:i] + [False])
    return n, first, False


class Tally(object):
    """groups the outcome of an enumeration into one obligation per (function, rule)"""

    def __init__(self, run, rule, key, describe):
        self.run, self.rule, self.key, self.describe = run, rule, key, describe
        self.n = 0
        self.bad = {}

    def add(self, case, res):
        self.n += 1
        if res is not None:
            self.bad.setdefault(res, []).append(case)

    def finish(self, site=''):
        if self.n == 0:
            raise AnalysisError('%s: empty enumeration' % self.key)
        if not self.bad:
            self.run.ob(self.rule, self.key, True, '%s: %d structural tuples, all clean' % (self.describe, self.n), site)
        else:
            parts = []
            for (rule, msg), cases in sorted(self.bad.items(), key=lambda kv: -len(kv[1])):
                parts.append('%s %s  [%d of %d tuples, first %s]' % (rule, msg, len(cases), self.n, cases[:4]))
            self.run.ob(self.rule, self.key, False, '%s: ' % self.describe + ' || '.join(parts[:3]), site)
        self.run.extra.setdefault('skel', []).append({'key': self.key, 'tuples': self.n, 'failing': sum(len(c) for c in self.bad.values()),
                                                      'box': self.describe, 'exhaustive': True})


# ====================================================================================== C08
def c08_rows(m, run):
    thorough = run.tier == 'thorough'
    # elevation: every one of degree + 1 + num rows is a defined point of the input's dimension
    t = Tally(run, 'SK3.rows-defined', 'helpers.degree_elevation :: all rows assigned',
              'degree 1..%d x num 1..4 x dim 2..4' % (8,))
    for deg, num, dim in itertools.product(range(1, 9), range(1, 5), (2, 3, 4)):
        def post(sk, out, deg=deg, num=num, dim=dim):
            if len(out) != deg + 1 + num:
                raise Violation('SK3', 'result has %d rows, expected %d' % (len(out), deg + 1 + num))
            badrows = [i for i, p in enumerate(out) if not shape_ok(p, dim)]
            if badrows:
                raise Violation('SK3', 'rows %s are not defined %d-D points' % (badrows, dim))
        t.add((deg, num, dim), run_case(m, 'helpers.degree_elevation', [deg, pts(deg + 1, dim)], {'num': num}, post=post))
    t.finish('geomdl/helpers.py in helpers.degree_elevation')
    # reduction: every one of `degree` rows is a defined point; no row is read before it is computed (PH0 read by a foreign statement)
    t = Tally(run, 'SK3.rows-defined', 'helpers.degree_reduction :: all rows assigned, none consumed before computed', 'degree 2..9 x dim 2..3')
    for deg, dim in itertools.product(range(2, 10), (2, 3)):
        def post(sk, out, deg=deg, dim=dim):
            if len(out) != deg:
                raise Violation('SK3', 'result has %d rows, expected %d' % (len(out), deg))
            badrows = [i for i, p in enumerate(out) if not shape_ok(p, dim)]
            if badrows:
                raise Violation('SK3', 'rows %s of the reduced polygon are never assigned (still the zero fill)' % badrows)
            foreign = [(n, s) for n, s in sk.ph0_reads]
            if foreign:
                raise Violation('SK4', 'a zero-filled row is consumed before it is computed', foreign[0][0])
        t.add((deg, dim), run_case(m, 'helpers.degree_reduction', [deg, pts(deg + 1, dim)], {}, post=post))
    t.finish('geomdl/helpers.py in helpers.degree_reduction')
    # dependency footprints of Eq. 5.41/5.42: the forward recurrence Q_i = (P_i - a_i Q_{i-1}) / (1 - a_i) makes Q_i depend on P_0..P_i,
    # the backward one Q_i = (P_{i+1} - (1 - a_{i+1}) Q_{i+1}) / a_{i+1} on P_{i+1}..P_p, the middle point of an odd degree on all of them
    t = Tally(run, 'SK5.dependency-footprint', 'helpers.degree_reduction :: which input points each reduced point is computed from', 'degree 2..9')
    for deg in range(2, 10):
        r = (deg - 1) // 2
        odd = deg % 2 == 1
        want = {0: frozenset([0]), deg - 1: frozenset([deg])}
        last_fwd = (r - 1) if odd else r
        for i in range(1, last_fwd + 1):
            want[i] = frozenset(range(0, i + 1))
        for i in range(deg - 2, r, -1):
            want[i] = frozenset(range(i + 1, deg + 1))
        if odd and deg > 1 and r not in (0, deg - 1):
            want[r] = frozenset(range(0, deg + 1))

        def post(sk, out, want=want, deg=deg):
            for i, w in sorted(want.items()):
                got = footprint(out[i])
                if got is not None and got != w:
                    raise Violation('SK5', 'reduced point %d is computed from the input points %s, the recurrence of Eq. 5.41 makes it depend on %s '
                                           '(a step that reads the input point instead of the previously reduced one breaks the chain)' % (i, sorted(got), sorted(w)))
        t.add((deg,), run_case(m, 'helpers.degree_reduction', [deg, pts(deg + 1, 3, labelled=True)], {}, post=post))
    t.finish('geomdl/helpers.py in helpers.degree_reduction')
