"""Drivers that run the LAYOUT interpreter over the functions of DESIGN section 4 and turn its findings into obligations."""
import ast
from .model import norm, walk_no_nested, params_of, AnalysisError
from .poly import Poly
from .layout import Interp, Sym, Lay, Obj, Fresh, UNK, Unk, flip_summaries, AXL


def site(fi, node=None):
    return 'geomdl/%s.py:%s in %s' % (fi.mod, getattr(node or fi.node, 'lineno', '?'), fi.key)


def emit(run, fi, it, label, rules=('LY1', 'LY2', 'LY3'), names=None):
    """one obligation per checked site; unresolved sites become notes"""
    n = 0
    names = names or {'LY1': 'LY1.index-matches-layout', 'LY2': 'LY2.flip-contract', 'LY3': 'LY3.list-matches-declared-sizes'}
    for rule, node, ok, msg in it.checked:
        if rule not in rules:
            continue
        key = '%s %s :: %s' % (fi.key, label, norm(node)[:70])
        if ok is None:
            run.note(names[rule], key, msg)
            continue
        n += 1
        run.ob(names[rule], key, ok, msg, site(fi, node))
    return n


# ====================================================================================== operations blocks
def ops_blocks(m, run, fname, summaries):
    fi = m.func('operations.' + fname)
    total = 0
    for blk in fi.node.body:
        if isinstance(blk, ast.If) and isinstance(blk.test, ast.Call) and norm(blk.test.func) == 'isinstance':
            kind = blk.test.args[1].attr
            pdim = {'Curve': 1, 'Surface': 2, 'Volume': 3}[kind]
            for sub in blk.body:
                if not isinstance(sub, ast.If):
                    continue
                o = Obj('obj', pdim)
                env = {'obj': o,
                       'num': tuple(Sym(Poly.atom('num[%d]' % k), o.labels[k]) for k in range(pdim)),
                       'param': tuple(Sym(Poly.atom('param[%d]' % k), o.labels[k]) for k in range(pdim))}
                it = Interp(fi.key, env, summaries)
                it.run(sub.body)
                ks = {x.slice.value for x in ast.walk(sub.test) if isinstance(x, ast.Subscript) and isinstance(x.slice, ast.Constant)}
                total += emit(run, fi, it, '[%s %s]' % (kind, ''.join(AXL[k] for k in sorted(ks))))
    return total


# ====================================================================================== construct / extract
class CInterp(Interp):
    """construct_* : `args` is a sequence of K shapes that agree in degrees and sizes with args[0] (the function checks this and raises)"""

    def __init__(self, key, env, summaries, select, src):
        Interp.__init__(self, key, env, summaries, select)
        self.src = src
        self.K = Sym(Poly.atom('K'), 'K')
        self.for_hook = self.enumerate_args

    def ev(self, e):
        if isinstance(e, ast.Subscript) and isinstance(e.value, ast.Name) and e.value.id == 'args':
            return self.src
        if isinstance(e, ast.Call) and norm(e.func) == 'len' and e.args and isinstance(e.args[0], ast.Name) and e.args[0].id == 'args':
            return self.K
        if isinstance(e, ast.Call) and isinstance(e.func, ast.Attribute) and e.func.attr in ('generate_volume', 'generate_surface', 'generate_curve'):
            pdim = {'generate_curve': 1, 'generate_surface': 2, 'generate_volume': 3}[e.func.attr]
            o = Obj('new', pdim, labels=[None] * pdim)
            self.built = getattr(self, 'built', []) + [o]
            return o
        return Interp.ev(self, e)

    def enumerate_args(self, n):
        if isinstance(n.iter, ast.Call) and norm(n.iter.func) == 'enumerate' and n.iter.args and norm(n.iter.args[0]) == 'args' \
                and isinstance(n.target, ast.Tuple) and len(n.target.elts) == 2:
            self.env[n.target.elts[1].id] = self.src
            self.push_loop('k', self.K)
            self.run(n.body)
            self.pop_loop()
            return True
        return False


def direction_select(direction, rational=False):
    def sel(test):
        if isinstance(test, ast.Compare) and len(test.ops) == 1 and isinstance(test.left, ast.Name) and test.left.id == 'direction' \
                and isinstance(test.comparators[0], ast.Constant):
            r = direction == test.comparators[0].value
            return r if isinstance(test.ops[0], ast.Eq) else (not r if isinstance(test.ops[0], ast.NotEq) else None)
        if isinstance(test, ast.Name) and (test.id == 'rational' or test.id.startswith('rational')):
            return rational
        if isinstance(test, ast.Compare) and isinstance(test.ops[0], ast.Is) and 'weights' in norm(test.left):
            return False
        if isinstance(test, ast.Compare) and isinstance(test.ops[0], (ast.NotIn, ast.Lt, ast.NotEq)):
            return False      # validation guards that raise
        return None
    return sel


def final_object(run, fi, it, objname, direction, src):
    """LY3 + AX4 on a freshly built object: declared sizes, degrees, knot vectors and the position of every direction in the
    control net must describe one and the same map target direction -> source direction"""
    o = objname if isinstance(objname, Obj) else it.env.get(objname)
    if not isinstance(o, Obj):
        raise AnalysisError('%s: constructed object not found' % (fi.key,))
    a = o.attrs
    L = a.get('ctrlpts')
    if isinstance(L, Fresh):
        L = it.finish(L)
    pdim = o.pdim
    order = [1, 0, 2][:pdim]
    sizes = [a.get('ctrlpts_size_' + AXL[k]) for k in range(pdim)]
    label = '[direction %s]' % direction
    if not isinstance(L, Lay) or not all(isinstance(s, Sym) for s in sizes):
        run.ob('LY3.list-matches-declared-sizes', '%s %s' % (fi.key, label), False,
               'analysis could not resolve the final control net (%r) or the declared sizes (%r)' % (L, sizes), site(fi))
        return
    got = L.levels[0]
    want = [(sizes[k].label, sizes[k].p) for k in order]
    ok_ext = len(L.levels) == 1 and len(got) == pdim and all(g[1] == w[1] for g, w in zip(got, want))
    run.ob('LY3.list-matches-declared-sizes', '%s %s' % (fi.key, label), ok_ext,
           'flat net %s has extents (Sv, Su, Sw) = %s in canonical order' % (L, [repr(w[1]) for w in want]) if ok_ext else
           'the flat net is laid out as %s (fastest first) but the object declares, fastest first, v:%s u:%s%s - point (u, v, w) is not at v + Sv*(u + Su*w)'
           % (L, want[0][1], want[1][1], ' w:%s' % want[2][1] if pdim == 3 else ''), site(fi))
    # AX4: per target direction, the source direction given by net position, size, degree and knot vector
    netmap = {}
    if len(got) == pdim:
        for g, k in zip(got, order):
            netmap[k] = g[0]
    for k in range(pdim):
        srcs = {'net position': netmap.get(k), 'size': sizes[k].label}
        for nm in ('degree', 'knotvector'):
            v = a.get('%s_%s' % (nm, AXL[k]))
            if isinstance(v, Sym):
                srcs[nm] = v.label
        vals = {v for v in srcs.values() if v is not None}
        ok = len(vals) <= 1
        run.ob('AX4.axis-map-single-valued', '%s %s target %s' % (fi.key, label, AXL[k]), ok,
               'target direction %s <- source %s for net, size, degree and knot vector' % (AXL[k], vals.pop() if vals else 'new direction') if ok else
               'target direction %s takes its %s' % (AXL[k], ', '.join('%s from %s' % kv for kv in sorted(srcs.items()) if kv[1] is not None)), site(fi))


def construct_rules(m, run, summaries):
    for fname, dirs, pdim, objname in (('construct_volume', 'uvw', 2, 'nv'), ('construct_surface', 'uv', 1, 'ns')):
        fi = m.func('construct.' + fname)
        for d in dirs:
            for rational in (False, True):
                A = Obj('A', pdim)
                it = CInterp(fi.key, {}, summaries, direction_select(d, rational), A)
                it.run(fi.node.body)
                tag = '[direction %s%s]' % (d, ', rational' if rational else '')
                emit(run, fi, it, tag)
                built = getattr(it, 'built', [])
                if len(built) != 1:
                    raise AnalysisError('%s: expected exactly one constructed object, found %d' % (fi.key, len(built)))
                if not rational:
                    final_object(run, fi, it, built[0], d, A)
                else:
                    o = built[0]
                    L, W = (o.attrs.get('ctrlpts'), o.attrs.get('weights')) if isinstance(o, Obj) else (None, None)
                    L = it.finish(L) if isinstance(L, Fresh) else L
                    W = it.finish(W) if isinstance(W, Fresh) else W
                    ok = isinstance(L, Lay) and isinstance(W, Lay) and L.same(W)
                    run.ob('LY3.weights-follow-points', '%s %s' % (fi.key, tag), ok,
                           'weights and control points go through the same permutation: both %s' % L if ok else
                           'control points are stored as %s but the weights as %s: each point receives the weight of another point' % (L, W), site(fi))


class EInterp(Interp):
    """extract_* : psurf.data / pvol.data is the data dictionary of the source object"""

    def __init__(self, key, env, summaries, src, dataname):
        Interp.__init__(self, key, env, summaries, lambda t: None)
        self.src, self.dataname = src, dataname
        self.built = []

    def ev(self, e):
        if isinstance(e, ast.Attribute) and e.attr == 'data' and isinstance(e.value, ast.Name) and e.value.id == self.dataname:
            s = self.src
            return {'degree': tuple(Sym(Poly.atom('%s.degree_%s' % (s.name, AXL[k])), s.labels[k]) for k in range(s.pdim)),
                    'knotvector': tuple(Sym(Poly.atom('%s.knotvector_%s' % (s.name, AXL[k])), s.labels[k]) for k in range(s.pdim)),
                    'size': tuple(s.size(k) for k in range(s.pdim)), 'control_points': s.canon(), 'rational': UNK}
        if isinstance(e, ast.Call) and isinstance(e.func, ast.Attribute) and e.func.attr == '__class__':
            o = Obj('new%d' % len(self.built), self.src.pdim - 1, labels=[None] * (self.src.pdim - 1))
            self.built.append(o)
            return o
        return Interp.ev(self, e)


def extract_rules(m, run, summaries):
    fi = m.func('construct.extract_surfaces')
    S = Obj('V', 3)
    it = EInterp(fi.key, {}, summaries, S, params_of(fi.node)[0])
    it.run(fi.node.body)
    emit(run, fi, it, '')
    if len(it.built) != 3:
        raise AnalysisError('extract_surfaces: expected 3 constructed surfaces, found %d' % len(it.built))
    for o in it.built:
        a = o.attrs
        L = a.get('ctrlpts2d')
        sz = [a.get('ctrlpts_size_u'), a.get('ctrlpts_size_v')]
        lab = '[plane %s]' % ''.join((s.label or '?').split('.')[-1] for s in sz if isinstance(s, Sym))
        if not isinstance(L, Lay) or len(L.levels) != 2 or not all(isinstance(s, Sym) for s in sz):
            run.ob('LY3.list-matches-declared-sizes', '%s %s' % (fi.key, lab), False, 'unresolved 2-D net %r / sizes %r' % (L, sz), site(fi))
            continue
        ok = L.levels[0][0][1] == sz[0].p and L.levels[1][0][1] == sz[1].p
        run.ob('LY3.list-matches-declared-sizes', '%s %s' % (fi.key, lab), ok,
               '2-D net is [%s][%s] as declared' % (sz[0].p, sz[1].p) if ok else '2-D net %s does not match declared sizes u:%s v:%s ([u][v] order)' % (L, sz[0].p, sz[1].p), site(fi))
        for k in range(2):
            srcs = {'net level': L.levels[k][0][0], 'size': sz[k].label}
            for nm in ('degree', 'knotvector'):
                v = a.get('%s_%s' % (nm, AXL[k]))
                if isinstance(v, Sym):
                    srcs[nm] = v.label
            vals = {v for v in srcs.values() if v is not None}
            run.ob('AX4.axis-map-single-valued', '%s %s target %s' % (fi.key, lab, AXL[k]), len(vals) == 1,
                   'target %s <- %s' % (AXL[k], sorted(vals)) if len(vals) == 1 else 'target direction %s takes %s' % (AXL[k], sorted(srcs.items())), site(fi))


def extract_curves_rules(m, run, summaries):
    # extract_curves: set_ctrlpts([...]) of a row / column, degree and knot vector of the same source direction
    fc = m.func('construct.extract_curves')
    S = Obj('S', 2)
    it = EInterp(fc.key, {}, summaries, S, params_of(fc.node)[0])
    # record set_ctrlpts on curves
    rows = []

    def sc(o, args, node, _rows=rows):
        _rows.append((o, args[0] if args else UNK, node))
    it.set_ctrlpts = sc
    it.run(fc.node.body)
    emit(run, fc, it, '')
    if len(rows) != 2:
        raise AnalysisError('extract_curves: expected two set_ctrlpts calls')
    for o, L, node in rows:
        a = o.attrs
        srcs = {'net': L.levels[0][0][0] if isinstance(L, Lay) else None}
        for nm in ('degree', 'knotvector'):
            v = a.get(nm)
            if isinstance(v, Sym):
                srcs[nm] = v.label
        # knot vector is assigned after set_ctrlpts: read it from the assignment order
        vals = {v for v in srcs.values() if v is not None}
        run.ob('AX4.axis-map-single-valued', '%s :: %s' % (fc.key, norm(node)[:60]), len(vals) == 1 and srcs['net'] is not None,
               'curve along %s' % sorted(vals) if len(vals) == 1 else 'extracted curve mixes source directions: %s' % sorted(srcs.items()), site(fc, node))
