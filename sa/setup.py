"""setup_cmd: verify the interpreter and that /repo parses; nothing is built or installed."""
import sys


def main():
    from . import model
    m = model.Model()
    print('sa setup ok: python %s, %s' % (sys.version.split()[0], m.stats()))
    return 0


if __name__ == '__main__':
    sys.exit(main())
