"""INVAL: cache typestate.  For a concrete class C and a public entry M (method / property setter / deleter, as
resolved through C's MRO, or a module function applied to an instance) a forward dataflow over M with callees
inlined (self-calls, super-calls, property accessors, pluggable slots, module functions receiving self),
constant propagation of keyword flags, and refinement on cache-emptiness tests.

state per cache:  E empty | V consistent with the defining fields | S possibly stale.   join = worst.
entry state V for every cache (inductive hypothesis).  IV1: no cache is S at a normal exit.
"""
import ast
from .model import norm, AnalysisError, params_of

E, V, S = 0, 1, 2
NAMES = {E: 'E', V: 'V', S: 'S'}

# defining fields (2.4 of DESIGN.md)
DEFS = {'_degree', '_knot_vector', '_control_points', '_control_points_size', '_delta', '_elements',
        '_grid_points', '_weights', '_evaluator', '_trims', '_dimension', '_rational', '_precision',
        '_sample_size', '_size_u', '_size_v'}
# cache -> defining fields it depends on (frozen; see DESIGN 2.4)
CACHES = {
    '_eval_points': {'_degree', '_knot_vector', '_control_points', '_control_points_size', '_delta'},
    '_bounding_box': {'_control_points'},
    '_control_points2D': {'_control_points', '_control_points_size'},
    "_cache['ctrlpts']": {'_control_points'},
    "_cache['weights']": {'_control_points'},
    'TESS': {'_degree', '_knot_vector', '_control_points', '_control_points_size', '_delta', '_trims'},
    "_cache['evalpts']": {'_elements', '_delta'},
    "_cache['vertices']": {'_elements', '_delta'},
    "_cache['faces']": {'_elements', '_delta'},
    "_cache['gridptsw']": {'_grid_points', '_weights'},
}
# a cache filled from another cache inherits its staleness
DERIVED_FROM = {'TESS': ['_eval_points']}
LIST_MUT = {'append', 'extend', 'insert', 'pop', 'remove', 'reverse', 'sort', 'clear'}


def join(a, b):
    return {k: max(a[k], b[k]) for k in a}


def is_empty_init(v):
    if isinstance(v, (ast.List, ast.Dict, ast.Tuple)) and not (getattr(v, 'elts', None) or getattr(v, 'keys', None)):
        return True
    if isinstance(v, ast.Constant) and v.value is None:
        return True
    if isinstance(v, ast.Call):
        f = v.func
        if isinstance(f, ast.Attribute) and f.attr == '_init_array':
            return True
        if isinstance(f, ast.Name) and f.id in ('list', 'dict', 'tuple') and not v.args:
            return True
    return False


class Entry(object):
    def __init__(self, cls, fi, kind, label):
        self.cls, self.fi, self.kind, self.label = cls, fi, kind, label


class Interp(object):
    MAXDEPTH = 8

    def __init__(self, model, clskey, slots=None):
        self.m, self.cls = model, clskey
        self.depth = 0
        self.slots = slots or {}
        self.trace = []

    # ------------------------------------------------------------------ helpers
    def cache_name(self, t, selfnames):
        cur0 = getattr(self, '_env', None)
        if isinstance(t, ast.Subscript) and isinstance(t.value, ast.Name) and cur0 is not None and t.value.id in cur0.get('__cachealias__', ()):
            # a local name bound to self._cache:  cache = self._cache; cache['k'] = ...
            t = ast.Subscript(value=ast.Attribute(value=ast.Name(id=next(iter(selfnames)) if selfnames else 'self', ctx=ast.Load()), attr='_cache', ctx=ast.Load()),
                              slice=t.slice, ctx=t.ctx)
        if isinstance(t, ast.Subscript) and isinstance(t.value, ast.Attribute) and t.value.attr == '_cache' \
                and isinstance(t.value.value, ast.Name) and t.value.value.id in selfnames:
            if isinstance(t.slice, ast.Constant):
                return "_cache['%s']" % t.slice.value
            # self._cache[key] with key a propagated constant (the variable of a loop over a constant tuple of cache keys)
            cur = getattr(self, '_env', None)
            if isinstance(t.slice, ast.Name) and cur is not None and isinstance(cur.get('__c__', {}).get(t.slice.id), str):
                return "_cache['%s']" % cur['__c__'][t.slice.id]
        if isinstance(t, ast.Attribute) and isinstance(t.value, ast.Name) and t.value.id in selfnames and t.attr in CACHES:
            return t.attr
        return None

    def write(self, st, field, node=None):
        for c, deps in CACHES.items():
            if field in deps and st[c] == V:
                st[c] = S

    def fill(self, st, cn, reads):
        """cache `cn` recomputed from current fields (through the caches in `reads`)"""
        worst = V
        for d in DERIVED_FROM.get(cn, []):
            if st[d] == S:
                worst = S
        for r in reads:
            if r != cn and st.get(r) == S:
                worst = S
        st[cn] = worst

    # ------------------------------------------------------------------ expressions: effects of loads and calls
    def expr(self, e, st, env, here, reads=None):
        if e is None:
            return
        sn = env['__self__']
        if reads is None:
            reads = set()
        if isinstance(e, ast.Call):
            self.call(e, st, env, here, reads)
            return
        if isinstance(e, (ast.Lambda, ast.FunctionDef)):
            return
        if isinstance(e, (ast.ListComp, ast.GeneratorExp, ast.SetComp, ast.DictComp)):
            for g in e.generators:
                self.expr(g.iter, st, env, here, reads)
                for c in g.ifs:
                    self.expr(c, st, env, here, reads)
            for sub in ([e.elt] if hasattr(e, 'elt') else [e.key, e.value]):
                self.expr(sub, st, env, here, reads)
            return
        for n in ast.iter_child_nodes(e):
            if isinstance(n, ast.expr):
                self.expr(n, st, env, here, reads)
        if isinstance(e, (ast.Attribute, ast.Subscript)) and isinstance(getattr(e, 'ctx', None), ast.Load):
            cn = self.cache_name(e, sn)
            if cn:
                reads.add(cn)
        if isinstance(e, ast.Attribute) and isinstance(e.ctx, ast.Load) and isinstance(e.value, ast.Name) and e.value.id in sn:
            g = self.m.lookup(self.cls, e.attr, 'getters')
            if g is not None:
                self.inline(g, st, {}, {'self'}, reads)

    def const(self, v, env):
        if isinstance(v, ast.Constant):
            return v.value
        if isinstance(v, ast.Name) and v.id in env.get('__c__', {}):
            return env['__c__'][v.id]
        # kwargs.get('key', default) used in place (not through a local): the flag the caller passed, else the default
        if isinstance(v, ast.Call) and isinstance(v.func, ast.Attribute) and v.func.attr == 'get' and isinstance(v.func.value, ast.Name) \
                and v.func.value.id == env.get('__kwname__') and v.args and isinstance(v.args[0], ast.Constant):
            key = v.args[0].value
            if key in env.get('__kw__', {}):
                return env['__kw__'][key]
            return self.const(v.args[1], env) if len(v.args) > 1 else None
        return None

    def const_seq(self, e, env):
        """the constants of a literal tuple / list, or of a class-level tuple / list read as self.X / cls.X / type(self).X / ClassName.X
        (resolved through the MRO of the concrete class under analysis); None when not constant"""
        if isinstance(e, (ast.Tuple, ast.List)) and all(isinstance(x, ast.Constant) for x in e.elts):
            return [x.value for x in e.elts]
        if isinstance(e, ast.Name) and e.id not in env.get('__c__', {}):
            # a module-level constant tuple (assigned once at module level, never inside a function of the module)
            tree = getattr(self.m, 'tree', {}).get(env.get('__mod__'))
            if tree is not None:
                defs = [st for st in tree.body if isinstance(st, ast.Assign) and any(isinstance(t_, ast.Name) and t_.id == e.id for t_ in st.targets)]
                rebound = any(isinstance(x, ast.Global) and e.id in x.names for x in ast.walk(tree))
                if len(defs) == 1 and not rebound and isinstance(defs[0].value, (ast.Tuple, ast.List)) and all(isinstance(x, ast.Constant) for x in defs[0].value.elts):
                    return [x.value for x in defs[0].value.elts]
            return None
        if isinstance(e, ast.Attribute):
            b = e.value
            on_self = isinstance(b, ast.Name) and (b.id in env['__self__'] or b.id == 'cls')
            on_type = isinstance(b, ast.Call) and isinstance(b.func, ast.Name) and b.func.id == 'type' and len(b.args) == 1 and isinstance(b.args[0], ast.Name) and b.args[0].id in env['__self__']
            on_cls = isinstance(b, ast.Attribute) and b.attr == '__class__' and isinstance(b.value, ast.Name) and b.value.id in env['__self__']
            if on_self or on_type or on_cls:
                # an instance attribute of the same name would shadow the class attribute: only when no method of the hierarchy assigns it
                for k in self.m.mro(self.cls):
                    ci = self.m.classes.get(k)
                    if ci is None:
                        continue
                    for fi_ in list(ci.methods.values()) + list(ci.setters.values()):
                        for x in ast.walk(fi_.node):
                            if isinstance(x, ast.Attribute) and x.attr == e.attr and isinstance(x.ctx, ast.Store):
                                return None
                return self.class_const(self.cls, e.attr)
        return None

    def class_const(self, cls, name, depth=0):
        """the constant tuple a class-level assignment binds `name` to (through the MRO of cls): a display of constants, another class's
        constant (ClassName.X) or a concatenation of those"""
        if depth > 4:
            return None

        def val(v, mod):
            if isinstance(v, (ast.Tuple, ast.List)) and all(isinstance(x, ast.Constant) for x in v.elts):
                return [x.value for x in v.elts]
            if isinstance(v, ast.BinOp) and isinstance(v.op, ast.Add):
                a, b = val(v.left, mod), val(v.right, mod)
                return a + b if a is not None and b is not None else None
            if isinstance(v, ast.Attribute) and isinstance(v.value, ast.Name):
                ck = (mod, v.value.id) if (mod, v.value.id) in self.m.classes else next((k_ for k_ in self.m.classes if k_[1] == v.value.id), None)
                return self.class_const(ck, v.attr, depth + 1) if ck is not None else None
            return None
        for k in self.m.mro(cls):
            ci = self.m.classes.get(k)
            if ci is None:
                continue
            for stc in ci.node.body:
                if isinstance(stc, ast.Assign) and any(isinstance(t_, ast.Name) and t_.id == name for t_ in stc.targets):
                    return val(stc.value, k[0])
        return None

    def cache_dict_update(self, arg, st, env, here, reads):
        """self._cache.update(<dict>) / self._cache = <dict>: a dictionary display or comprehension with constant keys stores every entry"""
        pairs = None
        if isinstance(arg, ast.Dict) and all(isinstance(k, ast.Constant) for k in arg.keys):
            pairs = [(k.value, v, None) for k, v in zip(arg.keys, arg.values)]
        elif isinstance(arg, ast.DictComp) and len(arg.generators) == 1 and not arg.generators[0].ifs and isinstance(arg.generators[0].target, ast.Name) \
                and isinstance(arg.key, ast.Name) and arg.key.id == arg.generators[0].target.id:
            seq = self.const_seq(arg.generators[0].iter, env)
            if seq is not None:
                pairs = [(k, arg.value, arg.key.id) for k in seq]
        elif isinstance(arg, ast.Call) and isinstance(arg.func, ast.Attribute) and arg.func.attr == 'fromkeys' and isinstance(arg.func.value, ast.Name) and arg.func.value.id == 'dict' \
                and arg.args:
            seq = self.const_seq(arg.args[0], env)
            if seq is not None and len(arg.args) == 1:
                pairs = [(k, ast.Constant(value=None), None) for k in seq]
        if pairs is None:
            return False
        for k, v, var in pairs:
            cn = "_cache['%s']" % k
            if cn not in st:
                continue
            if is_empty_init(v):
                st[cn] = E
            else:
                self.fill(st, cn, reads)
        return True

    def call(self, e, st, env, here, reads):
        sn = env['__self__']
        for a in e.args:
            self.expr(a.value if isinstance(a, ast.Starred) else a, st, env, here, reads)
        for k in e.keywords:
            self.expr(k.value, st, env, here, reads)
        f = e.func
        kw = {k.arg: self.const(k.value, env) for k in e.keywords if k.arg}
        if any(k.arg is None and isinstance(k.value, ast.Name) and k.value.id == env.get('__kwname__') for k in e.keywords):
            kw = dict(env.get('__kw__', {}), **kw)
        if isinstance(f, ast.Attribute):
            recv = f.value
            if isinstance(recv, ast.Name) and recv.id in sn:
                target = self.m.lookup(self.cls, f.attr, 'methods')
                if target is not None:
                    self.inline(target, st, kw, {'self'}, reads, args=e.args, env=env)
                    return
                if f.attr in self.slots:
                    self.inline_function(self.slots[f.attr], e, st, env, kw, reads)
                    return
                return
            if isinstance(recv, ast.Call) and isinstance(recv.func, ast.Name) and recv.func.id == 'super':
                target = self.m.lookup(self.cls, f.attr, 'methods', after=here)
                if target is not None:
                    self.inline(target, st, kw, {'self'}, reads, args=e.args, env=env)
                return
            # tessellation component
            if isinstance(recv, ast.Attribute) and recv.attr == '_tsl_component' and isinstance(recv.value, ast.Name) and recv.value.id in sn:
                if f.attr == 'reset':
                    st['TESS'] = E
                elif f.attr == 'tessellate':
                    self.fill(st, 'TESS', reads)
                return
            # self._cache.update({...})
            if f.attr == 'update' and isinstance(recv, ast.Attribute) and recv.attr == '_cache' and isinstance(recv.value, ast.Name) and recv.value.id in sn and len(e.args) == 1:
                if self.cache_dict_update(e.args[0], st, env, here, reads):
                    return
            # mutating list methods on defining fields / caches
            base = recv
            while isinstance(base, ast.Subscript):
                base = base.value
            if f.attr in LIST_MUT:
                cn = self.cache_name(recv, sn) or self.cache_name(base, sn)
                if cn:
                    if f.attr == 'clear':
                        st[cn] = E
                    elif st[cn] == E:
                        self.fill(st, cn, reads)
                    return
                if isinstance(base, ast.Attribute) and isinstance(base.value, ast.Name) and base.value.id in sn and base.attr in DEFS:
                    self.write(st, base.attr, e)
                    return
            self.expr(recv, st, env, here, reads)
        # module function receiving self
        tgt = self.m.resolve_callable(env['__mod__'], f) if isinstance(f, (ast.Name, ast.Attribute)) else None
        if tgt is not None and tgt.cls is None:
            self.inline_function(tgt, e, st, env, kw, reads)

    def inline_function(self, fi, call, st, env, kw, reads):
        """module-level function called with an alias of self among its arguments"""
        sn = env['__self__']
        ps = params_of(fi.node)
        alias = set()
        for i, a in enumerate(call.args):
            if isinstance(a, ast.Name) and a.id in sn and i < len(ps):
                alias.add(ps[i])
        for k in call.keywords:
            if k.arg and isinstance(k.value, ast.Name) and k.value.id in sn:
                alias.add(k.arg)
        if not alias:
            return
        self.inline(fi, st, kw, alias, reads, module_function=True)

    def inline(self, fi, st, kw, selfnames, reads, args=None, env=None, module_function=False):
        if self.depth >= self.MAXDEPTH:
            return
        self.depth += 1
        fn = fi.node
        sub = {'__kw__': kw, '__kwname__': fn.args.kwarg.arg if fn.args.kwarg else None, '__c__': {}, '__rets__': [],
               '__self__': set(selfnames), '__mod__': fi.mod}
        # positional constants
        ps = params_of(fn)
        if args is not None and env is not None:
            off = 1 if ps and ps[0] == 'self' else 0
            for i, a in enumerate(args):
                c = self.const(a, env)
                if c is not None and i + off < len(ps):
                    sub['__c__'][ps[i + off]] = c
        for p in ps:
            if p in kw and kw[p] is not None:
                sub['__c__'][p] = kw[p]
        here = (fi.mod, fi.cls) if fi.cls else None
        prev_env = getattr(self, '_env', None)
        out = self.block(fn.body, st, sub, here)
        self._env = prev_env
        res = None
        for r in sub['__rets__'] + ([out] if out is not None else []):
            res = dict(r) if res is None else join(res, r)
        if res is not None:
            st.update(res)
        self.depth -= 1

    # ------------------------------------------------------------------ statements
    def block(self, body, st, env, here):
        for stmt in body:
            if self.stmt(stmt, st, env, here) == 'stop':
                return None
        return st

    def truth(self, t, env):
        c = env.get('__c__', {})
        if isinstance(t, ast.Constant):
            return bool(t.value)
        if isinstance(t, ast.Name) and t.id in c and isinstance(c[t.id], bool):
            return c[t.id]
        if isinstance(t, ast.UnaryOp) and isinstance(t.op, ast.Not):
            v = self.truth(t.operand, env)
            return None if v is None else (not v)
        if isinstance(t, ast.BoolOp):
            vals = [self.truth(v, env) for v in t.values]
            if isinstance(t.op, ast.And):
                if any(v is False for v in vals):
                    return False
                if all(v is True for v in vals):
                    return True
            else:
                if any(v is True for v in vals):
                    return True
                if all(v is False for v in vals):
                    return False
        return None

    def emptiness_tests(self, t, env):
        """caches whose emptiness the test asserts when it is TRUE / when it is FALSE -> (set, set)"""
        sn = env['__self__']
        # `not X`  /  `X is None or len(X) == 0`
        if isinstance(t, ast.UnaryOp) and isinstance(t.op, ast.Not):
            cn = self.cache_name(t.operand, sn)
            if cn:
                return {cn}, set()
            a, b = self.emptiness_tests(t.operand, env)
            return b, a
        if isinstance(t, ast.BoolOp) and isinstance(t.op, ast.Or):
            names = set()
            for v in t.values:
                for n in ast.walk(v):
                    cn = self.cache_name(n, sn)
                    if cn:
                        names.add(cn)
            ok = all(self._is_empty_atom(v, sn) for v in t.values)
            if ok and len(names) == 1:
                return names, set()
        if self._is_empty_atom(t, sn):
            for n in ast.walk(t):
                cn = self.cache_name(n, sn)
                if cn:
                    return {cn}, set()
        cn = self.cache_name(t, sn)
        if cn:
            return set(), {cn}
        return set(), set()

    def component_none_tests(self, t, sn):
        """({TESS} if the test being TRUE means self._tsl_component is None, {TESS} if the test being FALSE means so)"""
        def comp(x):
            return isinstance(x, ast.Attribute) and x.attr == '_tsl_component' and isinstance(x.value, ast.Name) and x.value.id in sn
        if isinstance(t, ast.UnaryOp) and isinstance(t.op, ast.Not):
            a, b = self.component_none_tests(t.operand, sn)
            return b, a
        if isinstance(t, ast.Compare) and len(t.ops) == 1 and comp(t.left) and isinstance(t.comparators[0], ast.Constant) and t.comparators[0].value is None:
            if isinstance(t.ops[0], (ast.Is, ast.Eq)):
                return {'TESS'}, set()
            if isinstance(t.ops[0], (ast.IsNot, ast.NotEq)):
                return set(), {'TESS'}
        return set(), set()

    def _is_empty_atom(self, v, sn):
        if isinstance(v, ast.Compare) and len(v.ops) == 1:
            l, r = v.left, v.comparators[0]
            if isinstance(v.ops[0], ast.Is) and isinstance(r, ast.Constant) and r.value is None and self.cache_name(l, sn):
                return True
            if isinstance(v.ops[0], ast.Eq) and isinstance(r, ast.Constant) and r.value == 0 and isinstance(l, ast.Call) \
                    and isinstance(l.func, ast.Name) and l.func.id == 'len' and l.args and self.cache_name(l.args[0], sn):
                return True
        return False

    def stmt(self, n, st, env, here):
        sn = env['__self__']
        self._env = env
        if isinstance(n, ast.Return):
            self.expr(n.value, st, env, here)
            env['__rets__'].append(dict(st))
            return 'stop'
        if isinstance(n, ast.Raise):
            return 'stop'
        if isinstance(n, ast.Expr):
            self.expr(n.value, st, env, here)
            return
        if isinstance(n, (ast.FunctionDef, ast.ClassDef, ast.Pass, ast.Import, ast.ImportFrom, ast.Global)):
            return
        if isinstance(n, (ast.Assign, ast.AugAssign)):
            val = n.value
            reads = set()
            self.expr(val, st, env, here, reads)
            targets = n.targets if isinstance(n, ast.Assign) else [n.target]
            # flag constants
            if isinstance(n, ast.Assign) and len(targets) == 1 and isinstance(targets[0], ast.Name):
                nm = targets[0].id
                env['__c__'].pop(nm, None)
                if isinstance(val, ast.Call) and isinstance(val.func, ast.Attribute) and val.func.attr in ('get', 'pop') \
                        and isinstance(val.func.value, ast.Name) and val.func.value.id == env.get('__kwname__') \
                        and val.args and isinstance(val.args[0], ast.Constant):
                    key = val.args[0].value
                    dflt = self.const(val.args[1], env) if len(val.args) > 1 else None
                    kwv = env['__kw__'].get(key, dflt) if key in env['__kw__'] else dflt
                    if kwv is not None:
                        env['__c__'][nm] = kwv
                    if val.func.attr == 'pop' and key in env['__kw__']:
                        # the key is removed from the dictionary: a later f(**kwargs) no longer forwards it
                        env['__kw__'] = {k_: v_ for k_, v_ in env['__kw__'].items() if k_ != key}
                elif isinstance(val, ast.Constant):
                    env['__c__'][nm] = val.value
                # alias of the cache dictionary:  cache = self._cache
                al = env.setdefault('__cachealias__', set())
                if isinstance(val, ast.Attribute) and val.attr == '_cache' and isinstance(val.value, ast.Name) and val.value.id in sn:
                    al.add(nm)
                else:
                    al.discard(nm)
                # alias of self:  geom = obj
                if isinstance(val, ast.Name) and val.id in sn:
                    sn.add(nm)
                elif nm in sn and nm != 'self':
                    sn.discard(nm)
            for t in targets:
                elts = t.elts if isinstance(t, (ast.Tuple, ast.List)) else [t]
                for tt in elts:
                    self.store(tt, val, st, env, here, reads, aug=isinstance(n, ast.AugAssign))
            return
        if isinstance(n, ast.Delete):
            for t in n.targets:
                self.store(t, ast.List(elts=[], ctx=ast.Load()), st, env, here, set())
            return
        if isinstance(n, ast.If):
            self.expr(n.test, st, env, here)
            tv = self.truth(n.test, env)
            te, fe = self.emptiness_tests(n.test, env)
            a, b = dict(st), dict(st)
            ca, cb = dict(env['__c__']), dict(env['__c__'])
            sa, sb = set(sn), set(sn)
            ra = rb = None
            # V means "empty or consistent", E "known empty": a branch asserting non-emptiness of an E cache is infeasible
            feas_t = tv is not False and not any(st[c] == E for c in fe)
            feas_f = tv is not True and not any(st[c] == E for c in te)
            # a shape without a tessellation component has no tessellation to go stale: on the branch where the component is None the
            # tessellation cache is (vacuously) empty.  Not used for feasibility: an emptied component is still a component.
            nt, nf = self.component_none_tests(n.test, sn)
            if feas_t:
                for c in te | nt:
                    a[c] = E
                env['__c__'], env['__self__'] = ca, sa
                ra = self.block(n.body, a, env, here)
            if feas_f:
                for c in fe | nf:
                    b[c] = E
                env['__c__'], env['__self__'] = cb, sb
                rb = self.block(n.orelse, b, env, here)
            if ra is not None and rb is not None:
                env['__c__'] = {k: v for k, v in ca.items() if k in cb and cb[k] == v}
                env['__self__'] = sa | sb
            elif ra is not None:
                env['__c__'], env['__self__'] = ca, sa
            else:
                env['__c__'], env['__self__'] = cb, sb
            outs = [x for x in (ra, rb) if x is not None]
            if not outs:
                return 'stop'
            o = outs[0]
            for x in outs[1:]:
                o = join(o, x)
            st.update(o)
            return
        if isinstance(n, ast.For) and isinstance(n.target, ast.Name) and not n.orelse and self.const_seq(n.iter, env) is not None:
            # a loop over a constant tuple (of cache keys): unrolled with the loop variable a propagated constant
            for cval in self.const_seq(n.iter, env):
                env['__c__'][n.target.id] = cval
                self._env = env
                if self.block(n.body, st, env, here) is None:
                    env['__c__'].pop(n.target.id, None)
                    return 'stop'
            env['__c__'].pop(n.target.id, None)
            return
        if isinstance(n, (ast.For, ast.While)):
            if isinstance(n, ast.For):
                self.expr(n.iter, st, env, here)
                # for g in geom  (Geometry.__iter__ yields the object itself)
                if isinstance(n.iter, ast.Name) and n.iter.id in sn and isinstance(n.target, ast.Name) and env.get('__itself__', True):
                    sn.add(n.target.id)
            else:
                self.expr(n.test, st, env, here)
            for _ in range(3):
                b = dict(st)
                rb = self.block(n.body, b, env, here)
                if rb is not None:
                    new = join(st, rb)
                    if new == st:
                        break
                    st.update(new)
            if n.orelse:
                self.block(n.orelse, st, env, here)
            return
        if isinstance(n, ast.Try):
            b = dict(st)
            rb = self.block(n.body, b, env, here)
            outs = [rb] if rb is not None else []
            for h in n.handlers:
                hb = join(dict(st), b)
                rh = self.block(h.body, hb, env, here)
                if rh is not None:
                    outs.append(rh)
            if not outs:
                return 'stop'
            o = outs[0]
            for x in outs[1:]:
                o = join(o, x)
            st.update(o)
            if n.finalbody:
                return 'stop' if self.block(n.finalbody, st, env, here) is None else None
            return
        if isinstance(n, ast.With):
            for it in n.items:
                self.expr(it.context_expr, st, env, here)
            return 'stop' if self.block(n.body, st, env, here) is None else None

    def store(self, t, val, st, env, here, reads, aug=False):
        sn = env['__self__']
        cn = self.cache_name(t, sn)
        if cn:
            if is_empty_init(val) and not aug:
                st[cn] = E
            elif aug and st[cn] != E:
                pass            # extending a non-empty cache keeps its state
            else:
                self.fill(st, cn, reads)
            return
        if isinstance(t, ast.Subscript):
            base = t.value
            cb = self.cache_name(base, sn)
            if cb:   # cache[...] = x   /  cache[:] = []
                if isinstance(t.slice, ast.Slice) and is_empty_init(val):
                    st[cb] = E
                elif st[cb] == E:
                    self.fill(st, cb, reads)
                return
            while isinstance(base, ast.Subscript):
                base = base.value
            cb = self.cache_name(base, sn)
            if cb:
                return
            if isinstance(base, ast.Attribute) and isinstance(base.value, ast.Name) and base.value.id in sn:
                if base.attr in DEFS:
                    self.write(st, base.attr, t)
                return
            return
        if isinstance(t, ast.Attribute) and isinstance(t.value, ast.Name) and t.value.id in sn:
            if t.attr in DEFS:
                self.write(st, t.attr, t)
                return
            if t.attr == '_tsl_component':
                st['TESS'] = E if True else st['TESS']
                return
            if t.attr == '_cache':
                for c in CACHES:
                    if c.startswith('_cache['):
                        st[c] = E
                return
            sset = self.m.lookup(self.cls, t.attr, 'setters')
            if sset is not None:
                self.inline(sset, st, {}, {'self'}, reads)
            return

    # ------------------------------------------------------------------ driving
    def run_entry(self, fi, kw=None, selfnames=('self',), module_function=False):
        st = {k: V for k in CACHES}
        self.depth = 0
        fn = fi.node
        env = {'__kw__': kw or {}, '__kwname__': fn.args.kwarg.arg if fn.args.kwarg else None, '__c__': dict(kw or {}),
               '__rets__': [], '__self__': set(selfnames), '__mod__': fi.mod}
        here = (fi.mod, fi.cls) if fi.cls else None
        out = self.block(fn.body, st, env, here)
        finals = env['__rets__'] + ([out] if out is not None else [])
        res = None
        for f in finals:
            res = dict(f) if res is None else join(res, f)
        return res    # None: no normal exit


def relevant_caches(model, cls):
    chain = model.mro(cls)
    cs = set()
    if cls[0] == 'NURBS':
        cs |= {"_cache['ctrlpts']", "_cache['weights']"}
    if any(c in chain for c in (('abstract', 'Curve'), ('abstract', 'Surface'), ('abstract', 'Volume'))):
        cs |= {'_eval_points', '_bounding_box'}
    if ('abstract', 'Surface') in chain:
        cs |= {'TESS'}
    if ('BSpline', 'Surface') in chain:
        cs |= {'_control_points2D'}
    if ('multi', 'AbstractContainer') in chain:
        cs |= {"_cache['evalpts']"}
    if cls == ('multi', 'SurfaceContainer'):
        cs |= {"_cache['vertices']", "_cache['faces']"}
    if cls == ('CPGen', 'GridWeighted'):
        cs |= {"_cache['gridptsw']"}
    return cs


def discover_slots(model, cls):
    """pluggable function slots: self._x = kwargs.get('..', module.function) in an __init__ of the MRO"""
    slots = {}
    for c in model.mro(cls):
        init = model.classes[c].methods.get('__init__')
        if init is None:
            continue
        for n in ast.walk(init.node):
            if isinstance(n, ast.Assign) and len(n.targets) == 1 and isinstance(n.targets[0], ast.Attribute) \
                    and isinstance(n.targets[0].value, ast.Name) and n.targets[0].value.id == 'self' and isinstance(n.value, ast.Call) \
                    and isinstance(n.value.func, ast.Attribute) and n.value.func.attr == 'get' and len(n.value.args) == 2:
                tgt = model.resolve_callable(c[0], n.value.args[1])
                if tgt is not None and n.targets[0].attr not in slots:
                    slots[n.targets[0].attr] = tgt
    return slots


def public_entries(model, cls):
    """public methods and property setters/deleters of a concrete class, MRO-resolved"""
    out, seen = [], set()
    for c in model.mro(cls):
        ci = model.classes[c]
        for table, kind in ((ci.methods, 'method'), (ci.setters, 'setter'), (ci.deleters, 'deleter')):
            for name, fi in table.items():
                if (kind, name) in seen:
                    continue
                seen.add((kind, name))
                if name.startswith('_'):
                    continue
                out.append((kind, name, fi))
    return out
