"""PURE/MEMO: may-alias + mutation analysis (syntax-directed, flow-sensitive, branch pruning on constant flags).

Abstract value of an expression: set of (root, level).  (r, l) means: the value is a fresh structure down to
nesting depth l and r's own memory below that; l == 0 means the value *is* (an interior part of) r.
A store/mutating call reached through d dereferences of a variable holding (r, l) mutates r iff d > l.
Roots: 'param:<name>', 'memo:<function>' (result of an lru_cache'd function), 'global:<name>'.
"""
import ast
from .model import norm, walk_no_nested, params_of

LIST_MUTATORS = {'append', 'extend', 'insert', 'pop', 'remove', 'reverse', 'sort', 'clear', 'update', 'setdefault',
                 'popitem', 'add', 'discard'}
SHALLOW_COPIERS = {'list', 'tuple', 'sorted', 'reversed', 'dict', 'set', 'frozenset'}
CACHE_FIELDS = {'_cache', '_eval_points', '_bounding_box', '_control_points2D', '_iter_index', '_vertices', '_faces', '_idx',
                '_tsl_component', '_vis_component'}


DEEP = 99     # a mutating method / property setter of an object may write at any depth below it


class Mutation(object):
    __slots__ = ('root', 'node', 'how', 'func', 'depth')

    def __init__(self, root, node, how, func, depth=1):
        self.root, self.node, self.how, self.func, self.depth = root, node, how, func, depth

    def __repr__(self):
        return '<Mutation %s by %s: %s>' % (self.root, self.how, norm(self.node)[:80])


def is_memoised(fn):
    for d in fn.decorator_list:
        t = d.func if isinstance(d, ast.Call) else d
        name = t.id if isinstance(t, ast.Name) else (t.attr if isinstance(t, ast.Attribute) else '')
        if name in ('lru_cache', 'cache'):
            return True
    return False


class Purity(object):
    def __init__(self, model):
        self.m = model
        self.summ = {}           # FuncInfo.key -> Summary or None (in progress)
        self._mut_methods = None

    # ------------------------------------------------------------------ class-level: mutating method names
    def mutating_methods(self):
        """method / property-setter names whose implementation (in any class) may write a non-cache attribute of self,
        directly or through self-calls (CHA by name, fixpoint)."""
        if self._mut_methods is not None:
            return self._mut_methods
        direct, calls = {}, {}
        for ci in self.m.classes.values():
            for table, tag in ((ci.methods, ''), (ci.setters, '='), (ci.deleters, 'del ')):
                for name, fi in table.items():
                    key = tag + name
                    w = direct.setdefault(key, False)
                    cs = calls.setdefault(key, set())
                    for n in walk_no_nested(fi.node):
                        tgt = None
                        if isinstance(n, (ast.Assign, ast.AugAssign, ast.Delete)):
                            ts = n.targets if isinstance(n, (ast.Assign, ast.Delete)) else [n.target]
                            for t in ts:
                                for tt in (t.elts if isinstance(t, ast.Tuple) else [t]):
                                    base = tt
                                    while isinstance(base, (ast.Subscript, ast.Attribute)) and not (
                                            isinstance(base, ast.Attribute) and isinstance(base.value, ast.Name) and base.value.id == 'self'):
                                        base = base.value
                                    if isinstance(base, ast.Attribute) and isinstance(base.value, ast.Name) and base.value.id == 'self':
                                        if base is tt and isinstance(n, ast.Assign) or base is not tt or isinstance(n, (ast.AugAssign, ast.Delete)):
                                            if base.attr not in CACHE_FIELDS:
                                                if base is tt and self.m.lookup(ci.key, base.attr, 'setters'):
                                                    cs.add('=' + base.attr)
                                                else:
                                                    direct[key] = True
                        if isinstance(n, ast.Call) and isinstance(n.func, ast.Attribute):
                            recv = n.func.value
                            if isinstance(recv, ast.Name) and recv.id == 'self':
                                cs.add(n.func.attr)
                            elif isinstance(recv, ast.Call) and isinstance(recv.func, ast.Name) and recv.func.id == 'super':
                                cs.add(n.func.attr)
                            elif n.func.attr in LIST_MUTATORS:
                                base = recv
                                while isinstance(base, (ast.Subscript, ast.Attribute)) and not (
                                        isinstance(base, ast.Attribute) and isinstance(base.value, ast.Name) and base.value.id == 'self'):
                                    base = base.value
                                if isinstance(base, ast.Attribute) and isinstance(base.value, ast.Name) and base.value.id == 'self' \
                                        and base.attr not in CACHE_FIELDS:
                                    direct[key] = True
        mut = {k for k, v in direct.items() if v}
        changed = True
        while changed:
            changed = False
            for k, cs in calls.items():
                if k not in mut and cs & mut:
                    mut.add(k)
                    changed = True
        self._mut_methods = mut
        return mut

    # ------------------------------------------------------------------ summaries of module-level / nested functions
    def summary(self, fi, consts=None):
        key = (fi.key, tuple(sorted((consts or {}).items())))
        if key in self.summ:
            return self.summ[key]
        self.summ[key] = None   # in progress: optimistic for recursion
        w = Walker(self, fi, consts or {})
        s = w.run()
        self.summ[key] = s
        return s


class Summary(object):
    def __init__(self, fi, params):
        self.fi, self.params = fi, params
        self.mutations = []        # Mutation
        self.ret = set()           # (root, level)
        self.returns = []          # (Return node, set)
        self.discarded = []        # Call nodes used as expression statements (for PU3)
        self.escapes = []          # (node, target text, {(root, level)}): values that may alias a non-self parameter stored into self's state
        self.unknown_calls = []

    def mutated_params(self):
        return {mu.root[6:] for mu in self.mutations if mu.root.startswith('param:')}

    def mutated_roots(self):
        return {mu.root for mu in self.mutations}


def lift(vals, k=1):
    return {(r, l + k) for r, l in vals}


def as_copy(vals):      # shallow copy / slice
    return {(r, max(l, 1)) for r, l in vals}


def deref(vals):        # indexing / iteration element
    return {(r, max(l - 1, 0)) for r, l in vals}


class Walker(object):
    def __init__(self, pur, fi, consts, outer_env=None):
        self.pur, self.m, self.fi, self.consts = pur, pur.m, fi, consts
        self.fn = fi.node
        self.params = params_of(self.fn)
        if self.fn.args.vararg:
            self.params.append(self.fn.args.vararg.arg)
        self.kwarg = self.fn.args.kwarg.arg if self.fn.args.kwarg else None
        self.s = Summary(fi, self.params)
        self.const_env = {}
        self.local_funcs = {}     # name -> FunctionDef node
        self.local_tuples = {}    # name -> [names]
        self.outer_env = outer_env or {}
        for p in self.params:
            if p in consts:
                self.const_env[p] = consts[p]

    def run(self):
        env = dict(self.outer_env)
        for p in self.params:
            env[p] = {('param:' + p, 0)}
        if self.kwarg:
            env[self.kwarg] = {('param:' + self.kwarg, 1)}
        self.block(self.fn.body, env)
        return self.s

    # ------------------------------------------------------------------ expressions
    def ev(self, e, env):
        if e is None:
            return set()
        if isinstance(e, ast.Name):
            if e.id in env:
                return set(env[e.id])
            v = self.m.modassign.get((self.fi.mod, e.id))
            if v is not None and isinstance(v, (ast.List, ast.Dict, ast.Set, ast.ListComp, ast.DictComp)) or \
                    (v is not None and isinstance(v, ast.Call) and isinstance(v.func, ast.Name) and v.func.id in ('list', 'dict', 'set')):
                return {('global:' + e.id, 0)}
            return set()
        if isinstance(e, ast.Attribute):
            return self.ev(e.value, env)
        if isinstance(e, ast.Subscript):
            base = self.ev(e.value, env)
            if isinstance(e.slice, ast.Slice):
                return as_copy(base)
            return deref(base)
        if isinstance(e, (ast.List, ast.Tuple, ast.Set)):
            out = set()
            for x in e.elts:
                out |= lift(self.ev(x.value if isinstance(x, ast.Starred) else x, env))
            return out
        if isinstance(e, ast.Dict):
            out = set()
            for x in e.values:
                out |= lift(self.ev(x, env))
            return out
        if isinstance(e, (ast.ListComp, ast.GeneratorExp, ast.SetComp)):
            env2 = dict(env)
            for g in e.generators:
                self.bind(g.target, deref(self.iter_vals(g.iter, env2)), env2, g.iter)
            return lift(self.ev(e.elt, env2))
        if isinstance(e, ast.DictComp):
            env2 = dict(env)
            for g in e.generators:
                self.bind(g.target, deref(self.iter_vals(g.iter, env2)), env2, g.iter)
            return lift(self.ev(e.value, env2))
        if isinstance(e, ast.IfExp):
            tv = self.truth(e.test)
            if tv is True:
                return self.ev(e.body, env)
            if tv is False:
                return self.ev(e.orelse, env)
            return self.ev(e.body, env) | self.ev(e.orelse, env)
        if isinstance(e, ast.BoolOp):
            out = set()
            for v in e.values:
                out |= self.ev(v, env)
            return out
        if isinstance(e, ast.BinOp):
            # list concatenation / repetition creates a new top-level list
            return as_copy(self.ev(e.left, env)) | as_copy(self.ev(e.right, env))
        if isinstance(e, ast.Call):
            return self.call(e, env)
        if isinstance(e, ast.Starred):
            return self.ev(e.value, env)
        if isinstance(e, ast.Lambda):
            return set()
        return set()

    def iter_vals(self, it, env):
        """value iterated over: enumerate/zip/reversed wrap their arguments"""
        if isinstance(it, ast.Call) and isinstance(it.func, ast.Name):
            if it.func.id == 'enumerate' and it.args:
                return lift(lift(self.ev(it.args[0], env)) and {(r, l + 1) for r, l in deref(self.ev(it.args[0], env))}) \
                    if False else {('__enum__', 0)} | lift(self.ev(it.args[0], env), 0)
            if it.func.id in ('zip',):
                out = {('__zip__', 0)}
                for a in it.args:
                    out |= self.ev(a, env)
                return out
            if it.func.id in ('reversed', 'sorted', 'list', 'tuple', 'iter'):
                return self.ev(it.args[0], env) if it.args else set()
            if it.func.id == 'range':
                return set()
        return self.ev(it, env)

    def bind(self, target, vals, env, it=None):
        """bind loop/comprehension target; vals are the element values"""
        vals = {(r, l) for r, l in vals if not r.startswith('__')}
        if isinstance(target, ast.Name):
            env[target.id] = set(vals)
        elif isinstance(target, (ast.Tuple, ast.List)):
            wrapped = isinstance(it, ast.Call) and isinstance(it.func, ast.Name) and it.func.id in ('enumerate', 'zip')
            if wrapped and it.func.id == 'enumerate' and len(target.elts) == 2:
                self.bind(target.elts[0], set(), env)
                self.bind(target.elts[1], deref(self.ev(it.args[0], env)) if it.args else set(), env)
            elif wrapped and it.func.id == 'zip':
                for t, a in zip(target.elts, it.args):
                    self.bind(t, deref(self.ev(a, env)), env)
            else:
                for t in target.elts:
                    self.bind(t, deref(vals), env)
        elif isinstance(target, ast.Starred):
            self.bind(target.value, vals, env)

    def resolve_call(self, call, env):
        """-> list of FuncInfo-like targets (module functions / local nested functions)"""
        f = call.func
        out = []
        if isinstance(f, ast.Name):
            if f.id in self.local_funcs:
                out.append(self.local_funcs[f.id])
            elif f.id in getattr(self, 'local_alias', {}) and self.local_alias[f.id] in self.local_funcs:
                # X = kwargs.get('key', local_function): the default callee (a caller-supplied one is outside the analysis)
                out.append(self.local_funcs[self.local_alias[f.id]])
            else:
                fi = self.m.resolve_callable(self.fi.mod, f)
                if fi is not None:
                    out.append(fi)
                elif self.fi.outer is not None and f.id == self.fi.outer.name:
                    out.append(self.fi.outer)
        elif isinstance(f, ast.Attribute):
            fi = self.m.resolve_callable(self.fi.mod, f)
            if fi is not None:
                out.append(fi)
        elif isinstance(f, ast.Subscript) and isinstance(f.value, ast.Name) and f.value.id in self.local_tuples:
            for nm in self.local_tuples[f.value.id]:
                if nm in self.local_funcs:
                    out.append(self.local_funcs[nm])
        return out

    def call(self, call, env):
        f = call.func
        argvals = [self.ev(a.value if isinstance(a, ast.Starred) else a, env) for a in call.args]
        kwvals = {k.arg: self.ev(k.value, env) for k in call.keywords}
        name = f.id if isinstance(f, ast.Name) else (f.attr if isinstance(f, ast.Attribute) else None)
        # --- copies
        if name == 'deepcopy':
            return set()
        if name == 'copy' and isinstance(f, ast.Attribute) and isinstance(f.value, ast.Name) and f.value.id == 'copy':
            return as_copy(argvals[0]) if argvals else set()
        if isinstance(f, ast.Name) and name in SHALLOW_COPIERS:
            return as_copy(argvals[0]) if argvals else set()
        if isinstance(f, ast.Name) and name in ('len', 'range', 'int', 'float', 'str', 'abs', 'min', 'max', 'sum', 'round', 'isinstance',
                                                 'bool', 'all', 'any', 'enumerate', 'zip', 'hasattr', 'getattr', 'print', 'type', 'callable', 'map'):
            return set()
        # --- method calls on tracked values
        if isinstance(f, ast.Attribute):
            recv_vals, depth = self.chain(f.value, env)
            if name in LIST_MUTATORS and not (name in ('pop', 'update', 'setdefault', 'get') and self.is_kwargs(f.value)):
                self.mutate(recv_vals, depth + 1, call, 'mutating method .%s()' % name)
                if name in ('append', 'extend', 'insert', 'add') and isinstance(f.value, ast.Name) and argvals:
                    # the container now (weakly) holds the argument
                    add = lift(argvals[-1]) if name != 'extend' else as_copy(argvals[-1])
                    env[f.value.id] = set(env.get(f.value.id, set())) | add
                return set()
            if name in self.pur.mutating_methods() and recv_vals and not self.m.resolve_callable(self.fi.mod, f):
                self.mutate(recv_vals, DEEP, call, 'method .%s() writes defining state of its receiver' % name)
            if name == 'get' and self.is_kwargs(f.value):
                return set()
            if name in ('copy',):
                return as_copy(recv_vals)
        # --- package functions with summaries
        targets = self.resolve_call(call, env)
        out = set()
        for t in targets:
            fi = t if hasattr(t, 'key') else None
            if fi is None:
                continue
            if is_memoised(fi.node):
                out.add(('memo:' + fi.key, 0))
                continue
            kconst = {k.arg: k.value.value for k in call.keywords if k.arg and isinstance(k.value, ast.Constant)}
            if fi.outer is not None and fi.outer is self.fi or fi.kind == 'nested':
                nk = ('nest', fi.key, tuple(sorted(kconst.items())))
                if nk not in self.pur.summ:
                    self.pur.summ[nk] = None
                    sub = Walker(self.pur, fi, kconst)
                    sub.local_funcs = dict(self.local_funcs)
                    self.pur.summ[nk] = sub.run()
                s = self.pur.summ[nk]
            else:
                s = self.pur.summary(fi, kconst)
            if s is None:
                continue
            ps = s.params
            for mu in s.mutations:
                if mu.root.startswith('param:'):
                    pn = mu.root[6:]
                    vals = None
                    if pn in ps and ps.index(pn) < len(argvals):
                        vals = argvals[ps.index(pn)]
                    elif pn in kwvals:
                        vals = kwvals[pn]
                    if vals:
                        self.mutate(vals, mu.depth, call, 'callee %s mutates its parameter `%s` (%s)' % (fi.key, pn, mu.how.split(' (callee')[0][:80]))
                elif mu.root.startswith(('global:', 'memo:')):
                    if not any(x.root == mu.root and x.node is call for x in self.s.mutations):
                        self.s.mutations.append(Mutation(mu.root, call, 'via callee %s: %s' % (fi.key, mu.how.split(' via callee')[0]), self.fi))
            for r, l in s.ret:
                if r.startswith('param:'):
                    pn = r[6:]
                    vals = None
                    if pn in ps and ps.index(pn) < len(argvals):
                        vals = argvals[ps.index(pn)]
                    elif pn in kwvals:
                        vals = kwvals[pn]
                    if vals:
                        out |= lift(vals, l)
                else:
                    out.add((r, l))
        if not targets:
            self.s.unknown_calls.append(call)
        return out

    def is_kwargs(self, e):
        return isinstance(e, ast.Name) and e.id == self.kwarg

    def chain(self, e, env):
        """(values of the base variable, number of dereferences) of an attribute/subscript chain"""
        d = 0
        while isinstance(e, (ast.Attribute, ast.Subscript)):
            if isinstance(e, ast.Subscript) and isinstance(e.slice, ast.Slice):
                return as_copy(self.ev(e, env)), d
            d += 1
            e = e.value
        if isinstance(e, ast.Name):
            return self.ev(e, env), d
        return self.ev(e, env), d

    def mutate(self, vals, depth, node, how):
        for r, l in vals:
            if r.startswith('__'):
                continue
            if depth > l and not any(mu.root == r and mu.node is node for mu in self.s.mutations):
                self.s.mutations.append(Mutation(r, node, how, self.fi, DEEP if depth >= DEEP else max(1, depth - l)))

    # ------------------------------------------------------------------ statements
    def truth(self, t):
        if isinstance(t, ast.Constant):
            return bool(t.value)
        if isinstance(t, ast.Name) and t.id in self.const_env and isinstance(self.const_env[t.id], bool):
            return self.const_env[t.id]
        if isinstance(t, ast.UnaryOp) and isinstance(t.op, ast.Not):
            v = self.truth(t.operand)
            return None if v is None else (not v)
        if isinstance(t, ast.Compare) and len(t.ops) == 1 and isinstance(t.ops[0], (ast.Is, ast.Eq, ast.IsNot, ast.NotEq)) \
                and isinstance(t.comparators[0], ast.Constant) and isinstance(t.comparators[0].value, bool):
            v = self.truth(t.left)
            if v is None:
                return None
            r = (v == t.comparators[0].value)
            return r if isinstance(t.ops[0], (ast.Is, ast.Eq)) else (not r)
        return None

    def block(self, body, env):
        """returns True if the block can fall through"""
        for st in body:
            if not self.stmt(st, env):
                return False
        return True

    @staticmethod
    def join(env, a, b):
        keys = set(a) | set(b)
        env.clear()
        for k in keys:
            env[k] = set(a.get(k, set())) | set(b.get(k, set()))

    def store(self, t, vals, env, node):
        if isinstance(t, ast.Name):
            env[t.id] = set(vals)
        elif isinstance(t, (ast.Tuple, ast.List)):
            for x in t.elts:
                self.store(x, deref(vals), env, node)
        elif isinstance(t, (ast.Subscript, ast.Attribute)):
            base, d = self.chain(t.value, env)
            deep = isinstance(t, ast.Attribute) and ('=' + t.attr) in self.pur.mutating_methods() and not (
                isinstance(t.value, ast.Name) and t.value.id == 'self')
            self.mutate(base, DEEP if deep else d + 1, node, 'store to `%s`' % norm(t))
            if any(r == 'param:self' for r, _ in base):
                esc = {(r, l) for r, l in vals if r.startswith('param:') and r != 'param:self'}
                if esc:
                    self.s.escapes.append((node, norm(t), esc))
            # weak update: the container now holds the stored value
            b = t.value
            while isinstance(b, (ast.Subscript, ast.Attribute)):
                b = b.value
            if isinstance(b, ast.Name) and isinstance(t, ast.Subscript):
                env[b.id] = set(env.get(b.id, set())) | lift(vals, d + 1)
        elif isinstance(t, ast.Starred):
            self.store(t.value, vals, env, node)

    def stmt(self, st, env):
        if isinstance(st, ast.FunctionDef):
            fi = getattr(st, '_sa_func', None)
            if fi is not None:
                self.local_funcs[st.name] = fi
            return True
        if isinstance(st, ast.Return):
            v = self.ev(st.value, env)
            self.s.ret |= v
            self.s.returns.append((st, v, dict(self.const_env)))
            return False
        if isinstance(st, ast.Raise):
            return False
        if isinstance(st, ast.Assign):
            v = self.ev(st.value, env)
            # constant flags:  inplace = kwargs.get('inplace', False)
            val = st.value
            if len(st.targets) == 1 and isinstance(st.targets[0], ast.Name):
                nm = st.targets[0].id
                if isinstance(val, ast.Call) and isinstance(val.func, ast.Attribute) and val.func.attr == 'get' and self.is_kwargs(val.func.value) \
                        and len(val.args) == 2 and isinstance(val.args[1], ast.Name) and val.args[1].id in self.local_funcs:
                    if not hasattr(self, 'local_alias'):
                        self.local_alias = {}
                    self.local_alias[nm] = val.args[1].id
                self.const_env.pop(nm, None)
                if isinstance(val, ast.Call) and isinstance(val.func, ast.Attribute) and val.func.attr in ('get', 'pop') \
                        and self.is_kwargs(val.func.value) and val.args and isinstance(val.args[0], ast.Constant):
                    k = val.args[0].value
                    if k in self.consts:
                        self.const_env[nm] = self.consts[k]
                    elif len(val.args) > 1 and isinstance(val.args[1], ast.Constant) and ('*defaults*' in self.consts):
                        self.const_env[nm] = val.args[1].value
                elif isinstance(val, ast.Constant):
                    self.const_env[nm] = val.value
                if isinstance(val, ast.Tuple) and all(isinstance(x, ast.Name) for x in val.elts):
                    self.local_tuples[nm] = [x.id for x in val.elts]
                if isinstance(val, ast.Call) and isinstance(val.func, ast.Attribute) and val.func.attr == 'get' and len(val.args) == 2 \
                        and isinstance(val.args[1], (ast.Name, ast.Attribute)):
                    tgt = self.m.resolve_callable(self.fi.mod, val.args[1])
                    if tgt is not None:
                        self.local_funcs[nm] = tgt
            for t in st.targets:
                self.store(t, v, env, st)
            return True
        if isinstance(st, ast.AugAssign):
            v = self.ev(st.value, env)
            t = st.target
            if isinstance(t, ast.Name):
                # x += [..] mutates the list x in place
                cur = env.get(t.id, set())
                if isinstance(st.op, ast.Add) and cur:
                    self.mutate(cur, 1, st, 'in-place `+=` on `%s`' % t.id)
                env[t.id] = set(cur) | as_copy(v)
            else:
                base, d = self.chain(t.value, env)
                self.mutate(base, d + 1, st, 'augmented store to `%s`' % norm(t))
            return True
        if isinstance(st, ast.Delete):
            for t in st.targets:
                if isinstance(t, (ast.Subscript, ast.Attribute)):
                    base, d = self.chain(t.value, env)
                    self.mutate(base, d + 1, st, 'del `%s`' % norm(t))
            return True
        if isinstance(st, ast.Expr):
            if isinstance(st.value, ast.Call):
                self.s.discarded.append(st.value)
            self.ev(st.value, env)
            return True
        if isinstance(st, ast.If):
            self.ev(st.test, env)
            tv = self.truth(st.test)
            if tv is True:
                return self.block(st.body, env)
            if tv is False:
                return self.block(st.orelse, env)
            a, b = dict(env), dict(env)
            ca, cb = dict(self.const_env), dict(self.const_env)
            self.const_env = ca
            fa = self.block(st.body, a)
            self.const_env = cb
            fb = self.block(st.orelse, b)
            self.const_env = {k: v for k, v in ca.items() if k in cb and cb[k] == v}
            if fa and fb:
                self.join(env, a, b)
            elif fa:
                self.join(env, a, a)
                self.const_env = ca
            elif fb:
                self.join(env, b, b)
                self.const_env = cb
            else:
                return False
            return True
        if isinstance(st, (ast.For, ast.While)):
            for _ in range(3):
                before = {k: set(v) for k, v in env.items()}
                if isinstance(st, ast.For):
                    self.bind(st.target, deref(self.iter_vals(st.iter, env)), env, st.iter)
                else:
                    self.ev(st.test, env)
                body_env = dict(env)
                self.block(st.body, body_env)
                self.join(env, env, body_env)
                if env == before:
                    break
            self.block(st.orelse, env)
            return True
        if isinstance(st, ast.Try):
            body_env = dict(env)
            f = self.block(st.body, body_env)
            outs = [body_env] if f else []
            for h in st.handlers:
                he = {}
                self.join(he, env, body_env)
                if self.block(h.body, he):
                    outs.append(he)
            if not outs:
                return False
            acc = outs[0]
            for o in outs[1:]:
                self.join(acc, acc, o)
            self.join(env, acc, acc)
            if st.finalbody:
                return self.block(st.finalbody, env)
            return True
        if isinstance(st, ast.With):
            for it in st.items:
                v = self.ev(it.context_expr, env)
                if it.optional_vars is not None:
                    self.store(it.optional_vars, v, env, st)
            return self.block(st.body, env)
        if isinstance(st, ast.Global):
            for nm in st.names:
                env[nm] = {('global:' + nm, 0)}
                self.s.mutations.append(Mutation('global:' + nm, st, '`global` declaration (module state may be rebound)', self.fi))
            return True
        return True
