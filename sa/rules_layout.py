"""LAYOUT rules on flat control nets / point grids.  Canonical layout (C13): index(u, v, w) = v + Sv*(u + Su*w).

LY1  stride rule at subscripts of canonical flat arrays: every index monomial is (direction variable) x (product of sizes); the
     size product must be exactly the sizes of the faster directions (v: none, u: Sv, w: Su*Sv) *of the array's own object*.
LY3g growth rule at set_ctrlpts in per-direction blocks.
"""
import ast
import re
from .model import norm, walk_no_nested, params_of
from .poly import Poly, to_poly, NotPoly
from .axis import AxisScope, suffix_axis, fmt, AXN
from . import rules_axis as ra

CANON_ATTRS = {'ctrlpts', 'ctrlptsw', '_control_points', 'weights', 'evalpts', '_eval_points'}
SIZE_ATTR = re.compile(r'^(ctrlpts_size|sample_size|_size|size|dim|num_ctrlpts|cpsize)_([uvw])$')
SIZE_COLLECTIONS = {'size', 'cpsize', '_control_points_size', 'sample_size', 'ctrlpts_size', '_size'}
# parameters documented as canonical flat nets (function key -> {param: owner text of its sizes})
CANON_PARAMS = {
    'helpers.surface_deriv_cpts': {'cpts': 'cpsize'},
    'compatibility.flip_ctrlpts': {'ctrlpts': 'param'},
}
STRIDE_OF = {1: frozenset(), 0: frozenset([1]), 2: frozenset([0, 1])}


def site(fi, node):
    return 'geomdl/%s.py:%s in %s' % (fi.mod, getattr(node, 'lineno', '?'), fi.key)


class Resolver(object):
    """forward substitution of single reaching definitions + classification of atoms"""

    def __init__(self, fi):
        self.fi = fi
        self.sc = ra.scope_of(fi)

    def env(self, at):
        def f(name_node):
            ds = self.sc.reaching(name_node.id, at)
            if len(ds) == 1 and ds[0][3] == 'assign' and ds[0][1] is not None and ds[0][2] is None:
                v = ds[0][1]
                if isinstance(v, (ast.BinOp, ast.Name, ast.Attribute, ast.Subscript, ast.Constant, ast.UnaryOp)) or \
                        (isinstance(v, ast.Call) and isinstance(v.func, ast.Name) and v.func.id in ('int', 'len')):
                    if any(isinstance(x, ast.Name) and x.id == name_node.id for x in ast.walk(v)):
                        return None
                    return v
            return None
        return f

    def resolve_array(self, e, at, depth=0):
        """-> (owner text, kind) if e denotes a canonical flat array, else None"""
        if depth > 5:
            return None
        if isinstance(e, ast.Attribute) and e.attr in CANON_ATTRS:
            return (norm(e.value), e.attr)
        if isinstance(e, ast.Subscript) and isinstance(e.slice, ast.Constant) and e.slice.value == 'control_points':
            return (norm(e.value), 'control_points')
        if isinstance(e, ast.IfExp):
            a, b = self.resolve_array(e.body, at, depth + 1), self.resolve_array(e.orelse, at, depth + 1)
            if a and b and a[0] == b[0]:
                return a
            return None
        if isinstance(e, ast.Call) and isinstance(e.func, ast.Name) and e.func.id in ('list', 'tuple') and e.args:
            return self.resolve_array(e.args[0], at, depth + 1)
        if isinstance(e, ast.Name):
            cp = CANON_PARAMS.get(self.fi.key, {})
            if e.id in cp and not self.sc.defs.get(e.id):
                return (cp[e.id], 'param')
            ds = self.sc.reaching(e.id, at)
            if len(ds) == 1 and ds[0][3] == 'assign' and ds[0][1] is not None:
                return self.resolve_array(ds[0][1], ds[0][0], depth + 1)
        return None

    def size_atom(self, e):
        """(axis, owner text) if the expression is a per-direction size, else None.  Only API names count: attribute / parameter names
        and dictionary keys; a local is a size collection when its single definition is one"""
        if isinstance(e, ast.Attribute):
            mm = SIZE_ATTR.match(e.attr)
            if mm:
                return ({'u': 0, 'v': 1, 'w': 2}[mm.group(2)], norm(e.value))
        if isinstance(e, ast.Subscript) and isinstance(e.slice, ast.Constant) and isinstance(e.slice.value, int) and e.slice.value in (0, 1, 2):
            b = e.value
            coll = self.size_collection(b)
            if coll is not None:
                return (e.slice.value, coll)
        if isinstance(e, ast.Name) and e.id in params_of(self.fi.node):
            mm = SIZE_ATTR.match(e.id)
            if mm:
                return ({'u': 0, 'v': 1, 'w': 2}[mm.group(2)], 'param')
        return None

    def size_collection(self, b, depth=0):
        """owner text if `b` denotes a per-direction size collection (x.cpsize, x._control_points_size, d['size'], a parameter named so,
        or a local bound once to one of these)"""
        if depth > 4:
            return None
        if isinstance(b, ast.Attribute) and b.attr in SIZE_COLLECTIONS:
            return norm(b.value)
        if isinstance(b, ast.Subscript) and isinstance(b.slice, ast.Constant) and isinstance(b.slice.value, str) and b.slice.value in SIZE_COLLECTIONS:
            return norm(b.value)
        if isinstance(b, ast.Name):
            if b.id in params_of(self.fi.node) and not self.sc.defs.get(b.id):
                return (b.id if b.id == 'cpsize' else 'param') if b.id in SIZE_COLLECTIONS else None
            vals = [d[1] for d in self.sc.defs.get(b.id, []) if d[3] == 'assign' and d[1] is not None]
            if len(vals) == 1:
                return self.size_collection(vals[0], depth + 1)
        return None

    def owner_of_local(self, name_node):
        """owner text of a direction-indexed local:  size = datadict['size'] -> 'datadict'"""
        if name_node.id in params_of(self.fi.node) and not self.sc.defs.get(name_node.id):
            return name_node.id if name_node.id in ('cpsize',) else 'param'
        ds = self.sc.defs.get(name_node.id, [])
        vals = [d[1] for d in ds if d[3] == 'assign' and d[1] is not None]
        if len(vals) == 1:
            v = vals[0]
            if isinstance(v, ast.Subscript) and isinstance(v.slice, ast.Constant):
                return norm(v.value)
            if isinstance(v, ast.Attribute):
                return norm(v.value)
        return name_node.id


def index_terms(idx_poly):
    """[(coefficient Fraction, [atoms])]"""
    return [(c, [a for a, p in mono for _ in range(p)]) for mono, c in idx_poly.t.items()]


def check_index(R, idx, owner, at, require=True):
    """stride rule on one index expression -> (applicable, poly, problems)"""
    atom_nodes = {}

    def atom_of(e, _an=atom_nodes):
        t = norm(e)
        _an.setdefault(t, e)
        return t
    try:
        p = to_poly(idx, env=R.env(at), atom_of=atom_of)
    except NotPoly:
        return False, None, []
    terms = index_terms(p)
    has_size = any(R.size_atom(atom_nodes[a]) for c, atoms in terms for a in atoms if a in atom_nodes)
    axes = set()
    for c, atoms in terms:
        for a in atoms:
            node = atom_nodes.get(a)
            if node is not None and R.size_atom(node) is None:
                axes |= R.sc.int_tags(node, at)
    if require and not has_size and len(axes) < 2:
        return False, p, []
    problems = []
    for c, atoms in terms:
        sizes, vars_ = [], []
        for a in atoms:
            node = atom_nodes.get(a)
            sa_ = R.size_atom(node) if node is not None else None
            if sa_:
                sizes.append((sa_, a))
            else:
                vars_.append(a)
        if not vars_:
            continue
        if len(vars_) > 1:
            problems.append('term `%s` multiplies two non-size quantities' % '*'.join(atoms))
            continue
        v = vars_[0]
        vt = R.sc.int_tags(atom_nodes[v], at) if v in atom_nodes else set()
        stride_axes = frozenset(s[0][0] for s in sizes)
        if len(stride_axes) != len(sizes):
            problems.append('term `%s` repeats a size' % '*'.join(atoms))
            continue
        owners = {s[0][1] for s in sizes}
        foreign = {o for o in owners if o != owner and not (o == 'param' or owner == 'param')}
        if foreign:
            problems.append('stride `%s` uses sizes of `%s` but the array belongs to `%s`' % ('*'.join(s[1] for s in sizes), sorted(foreign)[0], owner))
        if vt == {0, 1} and not sizes:
            continue      # fused (u, v) variable over Su*Sv, stride 1
        if len(vt) == 1:
            a_ = next(iter(vt))
            want = STRIDE_OF[a_]
            if stride_axes != want:
                problems.append('variable `%s` runs along %s, so its stride must be %s, found %s' % (
                    v, AXN[a_], '*'.join('S' + AXN[x] for x in sorted(want)) or '1', '*'.join(s[1] for s in sizes) or '1'))
        elif not vt:
            if stride_axes not in STRIDE_OF.values():
                problems.append('stride `%s` is not a canonical stride (1, Sv, Su*Sv)' % '*'.join(s[1] for s in sizes))
        else:
            problems.append('variable `%s` mixes directions %s' % (v, fmt(vt)))
    return True, p, problems


def ly1_canonical(m, run, funcs, rule='LY1.canonical-stride'):
    n = 0
    for fi in funcs:
        R = Resolver(fi)
        for sub in [x for x in walk_no_nested(fi.node) if isinstance(x, ast.Subscript)]:
            idx = sub.slice
            if isinstance(idx, ast.Slice) and idx.step is not None and not isinstance(idx.step, ast.Constant):
                # strided slice a[lo::step]: the index set lo + step * k, k an anonymous walk variable
                walk = ast.copy_location(ast.Name(id='__walk__', ctx=ast.Load()), idx.step)
                idx = ast.copy_location(ast.BinOp(left=idx.lower or ast.Constant(0), op=ast.Add(),
                                                  right=ast.BinOp(left=idx.step, op=ast.Mult(), right=walk)), sub)
                ast.fix_missing_locations(idx)
            elif isinstance(idx, (ast.Slice, ast.Constant)):
                continue
            arr = R.resolve_array(sub.value, sub)
            if arr is None:
                continue
            ok, p, problems = check_index(R, idx, arr[0], sub)
            if not ok:
                continue
            n += 1
            run.ob(rule, '%s :: %s' % (fi.key, norm(sub)[:100]), not problems,
                   'index %s follows v + Sv*(u + Su*w)' % p if not problems else '; '.join(problems) + ' (canonical layout: v fastest, then u, then w)',
                   site(fi, sub))
    return n


def ly1_index_formula(m, run, fi, owner, rule='LY1.canonical-stride'):
    """functions that *return* a flat index (control point managers)"""
    R = Resolver(fi)
    n = 0
    for r in [x for x in walk_no_nested(fi.node) if isinstance(x, ast.Return) and x.value is not None]:
        ok, p, problems = check_index(R, r.value, owner, r)
        if not ok:
            continue
        n += 1
        run.ob(rule, '%s :: return %s' % (fi.key, norm(r.value)[:90]), not problems,
               'index %s follows v + Sv*(u + Su*w)' % p if not problems else '; '.join(problems) + ' (canonical layout: v fastest, then u, then w)', site(fi, r))
    return n


def ly3_growth(m, run, fi, rule='LY3.net-grows-on-one-axis'):
    """in operations.insert_knot / remove_knot: inside the block guarded by param[k]/num[k] the size arguments of set_ctrlpts are
    the current sizes, except position k which is size_k + num[k] (insertion) / size_k - num[k] (removal)"""
    from .cfg import CFG
    sign = {'insert_knot': 1, 'remove_knot': -1}.get(fi.name)
    cfg = CFG(fi.node)
    n = 0
    for call in [x for x in walk_no_nested(fi.node) if isinstance(x, ast.Call) and isinstance(x.func, ast.Attribute) and x.func.attr == 'set_ctrlpts']:
        k = block_axis(cfg, call)
        if k is None:
            continue
        sizes = call.args[1:]
        recv = norm(call.func.value)
        if not sizes:
            continue      # curve: size follows from the list length
        for pos, a in enumerate(sizes):
            try:
                p = to_poly(a)
            except NotPoly:
                continue
            base = Poly.atom('%s.ctrlpts_size_%s' % (recv, AXN[pos]))
            want = base + sign * Poly.atom('num[%d]' % k) if pos == k else base
            n += 1
            run.ob(rule, '%s :: block %s, %s arg %d' % (fi.key, AXN[k], norm(call)[:60], pos + 1), p == want,
                   'size %s = %s' % (AXN[pos], p) if p == want else
                   'in the %s-direction block the %s size passed to set_ctrlpts is `%s`, expected `%s`: the net must change by num[%d] in direction %s only'
                   % (AXN[k], AXN[pos], p, want, k, AXN[k]), site(fi, call))
    return n


def block_axis(cfg, node):
    """k such that every path to node passes `num[k] > 0` / `param[k] is not None` (the per-direction block guard)"""
    facts = cfg.facts_at(cfg.node_of(node))
    ks = set()
    for e, pol in facts:
        if not pol:
            continue
        for x in ast.walk(e):
            if isinstance(x, ast.Subscript) and isinstance(x.value, ast.Name) and x.value.id in ('num', 'param') and isinstance(x.slice, ast.Constant):
                if isinstance(e, ast.Compare):
                    ks.add(x.slice.value)
    return next(iter(ks)) if len(ks) == 1 else None


def ly1_prealloc(m, run, fi, arrays=None, rule='LY1.prealloc-stride'):
    """flat arrays created as [init for _ in range(Fu * Fv)] (Fu a u-extent, Fv a v-extent) and arrays handed in as canonical
    parameters: every subscript is (v-part) + Fv * (u-part), v-part of direction v, u-part of direction u (constants allowed)"""
    R = Resolver(fi)
    sc = R.sc
    alloc = {}
    for n in walk_no_nested(fi.node):
        if isinstance(n, ast.Assign) and len(n.targets) == 1 and isinstance(n.targets[0], ast.Name) and isinstance(n.value, ast.ListComp) \
                and len(n.value.generators) == 1 and isinstance(n.value.generators[0].iter, ast.Call) and norm(n.value.generators[0].iter.func) == 'range':
            ext = n.value.generators[0].iter.args[-1]
            if isinstance(ext, ast.BinOp) and isinstance(ext.op, ast.Mult):
                tl, tr = sc.int_tags(ext.left, n), sc.int_tags(ext.right, n)
                if {0} in (tl, tr) and {1} in (tl, tr):
                    fv = ext.left if tl == {1} else ext.right
                    alloc[n.targets[0].id] = fv
    for name, fv in (arrays or {}).items():
        alloc[name] = fv
    n_ = 0
    for sub in [x for x in walk_no_nested(fi.node) if isinstance(x, ast.Subscript) and isinstance(x.value, ast.Name) and x.value.id in alloc]:
        if isinstance(sub.slice, (ast.Slice,)):
            continue
        fv = alloc[sub.value.id]
        atom_nodes = {}

        def atom_of(e, _an=atom_nodes):
            t = norm(e)
            _an.setdefault(t, e)
            return t
        try:
            fvp = to_poly(fv, env=R.env(sub), atom_of=atom_of) if not isinstance(fv, Poly) else fv
            p = to_poly(sub.slice, env=R.env(sub), atom_of=atom_of)
        except NotPoly:
            continue
        if p.is_const():
            continue
        n_ += 1
        fv_atoms = fvp.atoms()
        problems = []
        # split p = A + Fv * B
        B = Poly()
        A = Poly()
        if len(fvp.t) == 1 and len(fv_atoms) == 1:
            fa = next(iter(fv_atoms))
            c = p.coeff_of(fa)
            if c is None:
                problems.append('index is not linear in the row length %s' % fa)
                c = Poly()
            B = c
            A = p.without(fa)
        else:
            problems.append('row length %s is not a single size' % fvp)

        def tags_of(poly):
            t = set()
            for a in poly.atoms():
                node = atom_nodes.get(a)
                if node is not None:
                    t |= sc.int_tags(node, sub)
            return t
        ta, tb = tags_of(A), tags_of(B)
        if not (ta <= {1}):
            problems.append('the part addressed with stride 1 (`%s`) runs along %s, it must be the v position' % (A, fmt(ta)))
        if not (tb <= {0}):
            problems.append('the part multiplied by the row length %s (`%s`) runs along %s, it must be the u position' % (fvp, B, fmt(tb)))
        # another size used as stride?
        for a in p.atoms():
            node = atom_nodes.get(a)
            if node is not None and a not in fv_atoms:
                c = p.coeff_of(a)
                if c is not None and not c.is_const() and c != fvp and not (c.atoms() <= fv_atoms):
                    pass
        strides = set()
        for mono, coef in p.t.items():
            names = [a for a, _ in mono]
            sizes = [a for a in names if a in fv_atoms]
            others = [a for a in names if a not in fv_atoms]
            if len(others) == 2:
                # variable * some other size: a stride that is not the row length
                problems.append('term `%s` uses a stride other than the row length %s' % ('*'.join(names), fvp))
        run.ob(rule, '%s :: %s' % (fi.key, norm(sub)[:90]), not problems,
               'index = v-part + %s * u-part' % fvp if not problems else '; '.join(problems) + ' (layout: v fastest, row length %s)' % fvp, site(fi, sub))
    return n_
