"""Obligation bookkeeping, known findings, evidence and exit protocol.

exit 0  every obligation discharged (listed known findings printed as KNOWN-FINDING lines)
exit 1  VIOLATION property=<id> replay=<path>  for each violated obligation not in known_findings.json
exit 2  ANALYSIS-ERROR: anchor vanished / unknown idiom / instance floor not met / checker crashed
"""
import json
import os
import sys
import time

VERIF = os.path.dirname(os.path.dirname(os.path.abspath(__file__)))
KNOWN = os.path.join(VERIF, 'known_findings.json')
EVID = os.path.join(VERIF, 'evidence')
REPLAY = os.path.join(VERIF, 'evidence', 'replay')


def load_known():
    if not os.path.exists(KNOWN):
        return []
    with open(KNOWN) as f:
        return json.load(f).get('findings', [])


class Obligation(object):
    __slots__ = ('rule', 'key', 'ok', 'detail', 'site', 'kind')

    def __init__(self, rule, key, ok, detail='', site='', kind='obligation'):
        self.rule, self.key, self.ok, self.detail, self.site, self.kind = rule, key, ok, detail, site, kind

    def as_dict(self):
        d = {'rule': self.rule, 'key': self.key, 'verdict': 'discharged' if self.ok else 'VIOLATED'}
        if self.detail:
            d['detail'] = self.detail
        if self.site:
            d['site'] = self.site
        return d


class Run(object):
    def __init__(self, pid, tier='quick', seed=0, decides='', not_decided='', quiet=False):
        self.pid, self.tier, self.seed = pid, tier, seed
        self.decides, self.not_decided = decides, not_decided
        self.obs = []
        self.notes = []
        self.errors = []
        self.floors = {}
        self.assumptions = []
        self.extra = {}
        self.trusted = []
        self.t0 = time.time()
        self.quiet = quiet
        self.model_stats = {}
        self.soft = set()           # rules whose clause is decided by a passing spelling-independent rule: corroboration only

    # ------------------------------------------------------------------ recording
    def ob(self, rule, key, ok, detail='', site=''):
        self.obs.append(Obligation(rule, key, bool(ok), detail, site))
        return bool(ok)

    def note(self, rule, key, text):
        self.notes.append({'rule': rule, 'key': key, 'note': text})

    def error(self, what):
        self.errors.append(what)

    def floor(self, rule, n, why=''):
        """at least n instances of `rule` must have been enumerated (confirmed by hand on the pinned tree)"""
        self.floors[rule] = (n, why)

    def assume(self, text):
        if text not in self.assumptions:
            self.assumptions.append(text)

    def corroborating(self, sem_ok, by, rules=(), only=None):
        """scope for *syntactic* rules whose clause is also decided by the spelling-independent rule `by`.  When `by` passed (sem_ok),
        the syntactic rules only corroborate: a failure or an unknown idiom inside the scope means they could not follow this spelling and
        becomes a note, and their instance floors are not enforced.  When `by` failed, everything they report is kept (it localises the
        defect).  A right check is never loosened by this: the clause itself stays decided, by `by`."""
        run = self

        class _Scope(object):
            def __enter__(self_):
                self_.start = len(run.obs)
                return self_

            def __exit__(self_, et, ev, tb):
                from .model import AnalysisError
                if not sem_ok:
                    return False
                inside = run.obs[self_.start:]
                keep = []
                for o in inside:
                    if only is not None and not only(o):
                        keep.append(o)
                        continue
                    if o.ok:
                        keep.append(o)
                    else:
                        run.soft.add(o.rule)
                        run.note(o.rule, o.key, 'the syntactic rule does not follow this spelling (%s); the clause is decided by %s, which passes' % (o.detail[:160], by))
                run.obs[self_.start:] = keep
                # the clause is decided by `by`, whose own cases guard against a vacuous pass: the instance floors of the corroborating rules
                # (how many sites of the pinned spelling they recognise) are not enforced while it passes
                for r in rules:
                    run.soft.add(r)
                if et is not None and issubclass(et, (AnalysisError, AttributeError, IndexError, KeyError, TypeError, ValueError)):
                    # the rules could not follow this spelling at all (an unknown idiom, or a shape of the syntax tree they did not expect):
                    # their instance floors cannot be met and are not enforced
                    for o in inside:
                        run.soft.add(o.rule)
                    for r in rules:
                        run.soft.add(r)
                    run.note(by, 'syntactic corroboration', 'unknown idiom for the syntactic rules (%s); the clause is decided by %s, which passes' % (str(ev)[:200], by))
                    return True
                return False
        return _Scope()

    def count(self, rule):
        return sum(1 for o in self.obs if o.rule == rule or o.rule.startswith(rule + '.'))

    # ------------------------------------------------------------------ finishing
    def violations(self):
        return [o for o in self.obs if not o.ok]

    def finish(self, write=True, out=sys.stdout):
        known = [k for k in load_known() if k.get('property') == self.pid]
        for rule, (n, why) in self.floors.items():
            c = self.count(rule)
            if c < n and rule not in self.soft:
                self.error('rule %s enumerated %d instances, floor is %d (%s)' % (rule, c, n, why))
        viol = self.violations()
        known_hit, fresh = [], []
        for o in viol:
            k = next((k for k in known if k.get('status') == 'known' and k.get('rule') == o.rule and k.get('key') == o.key), None)
            (known_hit if k else fresh).append((o, k))
        wall = time.time() - self.t0
        lines = []
        if not self.quiet:
            lines.append('[%s/%s] decides: %s' % (self.pid, self.tier, self.decides))
            lines.append('[%s/%s] NOT decided: %s' % (self.pid, self.tier, self.not_decided))
            per = {}
            for o in self.obs:
                a = per.setdefault(o.rule, [0, 0])
                a[0] += 1
                a[1] += 1 if o.ok else 0
            for r in sorted(per):
                lines.append('  rule %-22s obligations %4d  discharged %4d' % (r, per[r][0], per[r][1]))
        for o, k in known_hit:
            lines.append('KNOWN-FINDING: property=%s rule=%s %s -- %s' % (self.pid, o.rule, o.key, k.get('what_fails', o.detail)))
        rc = 0
        if self.errors:
            rc = 2
            for e in self.errors:
                lines.append('ANALYSIS-ERROR property=%s %s' % (self.pid, e))
        if fresh:
            # a violation found by one rule stands even if another rule met an idiom it does not know (the ANALYSIS-ERROR lines are still printed)
            rc = 1
        if fresh:
            os.makedirs(REPLAY, exist_ok=True)
            for i, (o, _) in enumerate(fresh):
                path = os.path.join(REPLAY, '%s_%03d.json' % (self.pid, i))
                with open(path, 'w') as f:
                    json.dump({'property': self.pid, 'rule': o.rule, 'key': o.key, 'detail': o.detail, 'site': o.site,
                               'tier': self.tier}, f, indent=1)
                lines.append('VIOLATION property=%s replay=%s' % (self.pid, path))
                lines.append('   rule=%s key=%s\n   site=%s\n   %s' % (o.rule, o.key, o.site, o.detail))
        if write:
            self.write_evidence(wall, len(fresh), known_hit)
        lines.append('[%s/%s] obligations=%d discharged=%d known=%d new-violations=%d errors=%d wall=%.2fs -> exit %d'
                     % (self.pid, self.tier, len(self.obs), sum(1 for o in self.obs if o.ok), len(known_hit), len(fresh),
                        len(self.errors), wall, rc))
        out.write('\n'.join(lines) + '\n')
        return rc

    def write_evidence(self, wall, nviol, known_hit):
        os.makedirs(EVID, exist_ok=True)
        per = {}
        for o in self.obs:
            a = per.setdefault(o.rule, {'obligations': 0, 'discharged': 0})
            a['obligations'] += 1
            a['discharged'] += 1 if o.ok else 0
        distinct = len({(o.rule, o.key) for o in self.obs})
        samples = []
        seen_rules = set()
        for o in self.obs:            # one sample per rule first, then violations
            if o.rule not in seen_rules:
                seen_rules.add(o.rule)
                samples.append(o.as_dict())
        for o in self.obs:
            if not o.ok and o.as_dict() not in samples:
                samples.append(o.as_dict())
        cov = {
            'explanation': 'Static analysis (ast) of /repo/geomdl. DECIDES: %s NOT DECIDED: %s' % (self.decides, self.not_decided),
            'obligations': len(self.obs),
            'discharged': sum(1 for o in self.obs if o.ok),
            'evaluations': max(1, len(self.obs)),
            'distinct_nontrivial': distinct,
            'rule': 'one obligation = one (rule, site) pair enumerated from the current source; distinct = distinct (rule, key)',
            'samples': samples[:60],
            'per_rule': per,
            'floors': {r: n for r, (n, _) in self.floors.items()},
            'known_findings_matched': [{'rule': o.rule, 'key': o.key} for o, _ in known_hit],
            'notes': self.notes[:80],
            'analysis_errors': self.errors,
            'trusted_base': self.trusted or ['python ast parser', 'rule tables in sa/checks (frozen idiom lists)'],
            'checker_cmd': 'python3-vt -m sa.run %s --tier %s' % (self.pid, self.tier),
            'model': self.model_stats,
            'all_obligations': [o.as_dict() for o in self.obs][:1500],
        }
        cov.update(self.extra)
        ev = {'property_id': self.pid, 'tier': self.tier, 'seed': int(self.seed), 'level': 'other', 'coverage': cov,
              'assumptions': self.assumptions, 'wall_s': round(wall, 3), 'violations': nviol}
        with open(os.path.join(EVID, self.pid + '.json'), 'w') as f:
            json.dump(ev, f, indent=1, sort_keys=False)
