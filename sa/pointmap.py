"""Per-point map extraction: how a function builds an output point from an input point inside a loop over points.

Recognised construction of the new point `T` inside `for P in points` / `for P, w in zip(points, weights)`:
    T = [f(c) for c in D]            D = P | P[:-1] | P[a:b]      (coordinate map f, domain D)
    T[-1] = g      |  T.append(g)                                 (weight slot)
The result is a PointMap: coord (Poly in atoms 'c' and weight atoms), domain text, slot expr, weight atom.
"""
import ast
from .model import norm, walk_no_nested
from .poly import Poly, to_poly, NotPoly
from .alg import unwrap_float


class PointMap(object):
    def __init__(self):
        self.loop = None
        self.point = None        # loop variable naming the input point
        self.partner = None      # zip partner (weight) variable
        self.coord = None        # Poly over 'c' and weight atoms
        self.domain = None       # ('all',) | ('upto', -1) | ('slice', lo_txt, hi_txt)
        self.domain_node = None
        self.slot = None         # Poly or None (no weight slot written)
        self.slot_how = None     # 'overwrite-last' | 'append' | None
        self.temp = None
        self.node = None

    def describe(self):
        return 'c -> %s over %s; slot %s (%s)' % (self.coord, self.domain, self.slot, self.slot_how)


def _atom(pm):
    def atom_of(e):
        # P[-1] -> 'W' (the point's own last slot);  partner variable -> 'W'
        if isinstance(e, ast.Subscript) and isinstance(e.value, ast.Name) and e.value.id == pm.point:
            if isinstance(e.slice, ast.UnaryOp) and isinstance(e.slice.op, ast.USub) and isinstance(e.slice.operand, ast.Constant) \
                    and e.slice.operand.value == 1:
                return 'W'
            if isinstance(e.slice, ast.Constant):
                return 'P[%r]' % e.slice.value
        if isinstance(e, ast.Name) and pm.partner and e.id == pm.partner:
            return 'W'
        return None
    return atom_of


def domain_of(e, point):
    if isinstance(e, ast.Name) and e.id == point:
        return ('all',)
    if isinstance(e, ast.Subscript) and isinstance(e.value, ast.Name) and e.value.id == point and isinstance(e.slice, ast.Slice):
        lo, hi = e.slice.lower, e.slice.upper
        lo_t = norm(lo) if lo is not None else '0'
        hi_t = norm(hi) if hi is not None else 'end'
        if lo_t in ('0',) and hi_t == '-1':
            return ('upto', -1)
        return ('slice', lo_t, hi_t)
    return None


def extract(fn):
    """all point maps built in loops of `fn`"""
    out = []
    for loop in [n for n in walk_no_nested(fn) if isinstance(n, ast.For)]:
        point = partner = None
        if isinstance(loop.target, ast.Name):
            point = loop.target.id
        elif isinstance(loop.target, ast.Tuple) and len(loop.target.elts) == 2 and all(isinstance(t, ast.Name) for t in loop.target.elts):
            if isinstance(loop.iter, ast.Call) and isinstance(loop.iter.func, ast.Name) and loop.iter.func.id == 'zip':
                point, partner = loop.target.elts[0].id, loop.target.elts[1].id
            elif isinstance(loop.iter, ast.Call) and isinstance(loop.iter.func, ast.Name) and loop.iter.func.id == 'enumerate':
                point = loop.target.elts[1].id
        if point is None:
            continue
        for st in loop.body:
            if isinstance(st, ast.Assign) and len(st.targets) == 1 and isinstance(st.targets[0], ast.Name) \
                    and isinstance(st.value, ast.ListComp) and len(st.value.generators) == 1 \
                    and isinstance(st.value.generators[0].target, ast.Name):
                g = st.value.generators[0]
                dom = domain_of(g.iter, point)
                if dom is None:
                    continue
                pm = PointMap()
                pm.loop, pm.point, pm.partner, pm.temp, pm.node = loop, point, partner, st.targets[0].id, st
                pm.domain, pm.domain_node = dom, g.iter
                cvar = g.target.id
                elt = unwrap_float(st.value.elt)
                try:
                    pm.coord = to_poly(elt, env=lambda nm: None, atom_of=lambda e, pm=pm, cvar=cvar: (
                        'c' if isinstance(e, ast.Name) and e.id == cvar else _atom(pm)(e)))
                except NotPoly:
                    continue
                # slot
                for st2 in loop.body:
                    if isinstance(st2, ast.Assign) and len(st2.targets) == 1 and isinstance(st2.targets[0], ast.Subscript) \
                            and isinstance(st2.targets[0].value, ast.Name) and st2.targets[0].value.id == pm.temp \
                            and norm(st2.targets[0].slice) == '-1':
                        pm.slot_how = 'overwrite-last'
                        pm.slot = _slot_poly(st2.value, pm)
                    if isinstance(st2, ast.Expr) and isinstance(st2.value, ast.Call) and isinstance(st2.value.func, ast.Attribute) \
                            and st2.value.func.attr == 'append' and isinstance(st2.value.func.value, ast.Name) \
                            and st2.value.func.value.id == pm.temp and st2.value.args:
                        pm.slot_how = 'append'
                        pm.slot = _slot_poly(st2.value.args[0], pm)
                out.append(pm)
    return out


def _slot_poly(e, pm):
    try:
        return to_poly(unwrap_float(e), env=lambda nm: None, atom_of=_atom(pm))
    except NotPoly:
        return None
