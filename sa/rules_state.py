"""Shared state rules: IV1 driver, IV2 who-may-write, IV3 cache-key initialisation, IV4 deep-copy independence, IV6."""
import ast
from .model import norm, AnalysisError, walk_no_nested, params_of
from . import inval
from .inval import E, V, S, CACHES, DEFS

GEOM = [('BSpline', 'Curve'), ('NURBS', 'Curve'), ('BSpline', 'Surface'), ('NURBS', 'Surface'), ('BSpline', 'Volume'), ('NURBS', 'Volume')]
CONTAINERS = [('multi', 'CurveContainer'), ('multi', 'SurfaceContainer'), ('multi', 'VolumeContainer')]
GRIDS = [('CPGen', 'Grid'), ('CPGen', 'GridWeighted')]
CONCRETE = GEOM + CONTAINERS + GRIDS
OWNERS = {'abstract', 'BSpline', 'NURBS', 'multi', 'CPGen'}

# ---- frozen IV1 exceptions: (defining function key, cache) -> reason.  '*' = every cache.
IV1_EXCEPT = {
    ('abstract.Curve.reverse', '_bounding_box'): 'reversal permutes the control points; a bounding box is permutation-invariant',
    ('abstract.Surface.add_trim', 'TESS'): 'trims are not among the edits the property enumerates; reported as a note',
    ('abstract.Surface.trims#setter', 'TESS'): 'trims are not among the edits the property enumerates; reported as a note',
    ('multi.SurfaceContainer.tessellate', "_cache['evalpts']"):
        '_elements is rebound to the same elements (serial) or their round-tripped copies (parallel): the definition is unchanged',
    ('CPGen.Grid.generate', "_cache['gridptsw']"):
        'GridWeighted.reset clears the cache when _weights is non-empty, and the only filler of the cache fills _weights first '
        '(relational fact outside the lattice)',
    ('CPGen.GridWeighted.reset', "_cache['gridptsw']"): 'same relational fact as Grid.generate',
}
# multi-step definition protocol: sizes are set, then ctrlpts follows (which invalidates everything)
PROTOCOL_SETTERS = {'cpsize', 'ctrlpts_size_u', 'ctrlpts_size_v', 'ctrlpts_size_w'}


def site(fi, node=None):
    return 'geomdl/%s.py:%s in %s' % (fi.mod, getattr(node or fi.node, 'lineno', '?'), fi.key)


def iv1(m, run, classes, caches_filter=None, rule='IV1.no-stale-cache', composite=True):
    """every public entry of every class leaves every relevant cache empty or consistent"""
    n_entries = 0
    for cls in classes:
        m.cls(*cls)
        rel = inval.relevant_caches(m, cls)
        if caches_filter is not None:
            rel = {c for c in rel if caches_filter(c)}
        if not rel:
            continue
        slots = inval.discover_slots(m, cls)
        entries = [(k, n, fi, None, None) for k, n, fi in inval.public_entries(m, cls)]
        if composite and cls in GEOM:
            for fi in m.functions_in('operations'):
                if fi.kind != 'function' or fi.name.startswith('_'):
                    continue
                ps = params_of(fi.node)
                if not ps or ps[0] not in ('obj', 'surf', 'curve', 'volume', 'geom'):
                    continue
                kwnames = {n.args[0].value for n in ast.walk(fi.node) if isinstance(n, ast.Call) and isinstance(n.func, ast.Attribute)
                           and n.func.attr == 'get' and n.args and isinstance(n.args[0], ast.Constant)}
                kw = {'inplace': True} if 'inplace' in kwnames else {}
                entries.append(('function', 'operations.' + fi.name, fi, kw, ps[0]))
        for kind, name, fi, kw, selfparam in entries:
            it = inval.Interp(m, cls, slots)
            res = it.run_entry(fi, kw=kw, selfnames=(selfparam,) if selfparam else ('self',))
            n_entries += 1
            if res is None:
                continue
            label = '%s.%s %s %s' % (cls[0], cls[1], kind, name)
            for c in sorted(rel):
                stale = res[c] == S
                key = '%s :: %s' % (label, c)
                if stale and ((fi.key, c) in IV1_EXCEPT):
                    run.note(rule, key, 'exception: ' + IV1_EXCEPT[(fi.key, c)])
                    continue
                if stale and kind == 'setter' and name in PROTOCOL_SETTERS:
                    run.note(rule, key, 'size setter is a step of the documented multi-step definition protocol (ctrlpts follows and invalidates)')
                    continue
                run.ob(rule, key, not stale,
                       'exit state %s' % inval.NAMES[res[c]] if not stale else
                       'a defining field that %s depends on is written but the cache is neither cleared nor recomputed on some normal path '
                       '(entry defined in %s): a later read returns the stale value' % (c, fi.key), site(fi))
    return n_entries


def iv2_who_may_write(m, run, rule='IV2.who-may-write'):
    """no function outside the owning modules stores to a defining field or a cache of another object"""
    fields = DEFS | {'_eval_points', '_bounding_box', '_control_points2D', '_cache'}
    n = 0
    trees = list(m.tree.items()) + list(m.sub.items())
    for mod, t in trees:
        if mod in OWNERS:
            continue
        for node in ast.walk(t):
            tgt = None
            if isinstance(node, (ast.Assign, ast.AugAssign)):
                ts = node.targets if isinstance(node, ast.Assign) else [node.target]
                for t0 in ts:
                    for tt in (t0.elts if isinstance(t0, (ast.Tuple, ast.List)) else [t0]):
                        base = tt
                        while isinstance(base, ast.Subscript):
                            base = base.value
                        if isinstance(base, ast.Attribute) and base.attr in fields and not (isinstance(base.value, ast.Name) and base.value.id == 'self'):
                            n += 1
                            run.ob(rule, '%s :: %s' % (mod, norm(node)[:90]), False,
                                   'module %s writes private state `%s` of another object, bypassing the reset discipline of its owner' % (mod, base.attr),
                                   'geomdl/%s.py:%d' % (mod.replace('.', '/'), node.lineno))
            if isinstance(node, ast.Call) and isinstance(node.func, ast.Attribute) and node.func.attr in inval.LIST_MUT:
                base = node.func.value
                while isinstance(base, ast.Subscript):
                    base = base.value
                if isinstance(base, ast.Attribute) and base.attr in fields and not (isinstance(base.value, ast.Name) and base.value.id == 'self'):
                    n += 1
                    run.ob(rule, '%s :: %s' % (mod, norm(node)[:90]), False,
                           'module %s mutates private state `%s` of another object' % (mod, base.attr), 'geomdl/%s.py:%d' % (mod, node.lineno))
    run.ob(rule, 'all modules outside %s' % sorted(OWNERS), True, '%d modules scanned, %d foreign writes' % (len(trees) - len(OWNERS), n))
    # positive control
    ctl = ast.parse('def f(obj, pts):\n    obj._control_points = pts\n')
    hit = [x for x in ast.walk(ctl) if isinstance(x, ast.Assign) and isinstance(x.targets[0], ast.Attribute) and x.targets[0].attr in fields]
    if not hit:
        raise AnalysisError('IV2 positive control failed')


def cache_keys_read(m, cls):
    keys = {}
    for c in m.mro(cls):
        ci = m.classes[c]
        for table in (ci.methods, ci.getters, ci.setters, ci.deleters):
            for fi in table.values():
                for n in walk_no_nested(fi.node):
                    if isinstance(n, ast.Subscript) and isinstance(n.value, ast.Attribute) and n.value.attr == '_cache' \
                            and isinstance(n.value.value, ast.Name) and n.value.value.id == 'self' and isinstance(n.slice, ast.Constant) \
                            and isinstance(n.ctx, ast.Load):
                        keys.setdefault(n.slice.value, fi)
    return keys


def keys_initialised_from(m, cls, start_name):
    """constant keys of self._cache assigned on the path of the MRO-resolved method `start_name` (self/super calls inlined)"""
    out = set()
    seen = set()

    def visit(fi, here):
        if fi.key in seen:
            return
        seen.add(fi.key)
        for n in walk_no_nested(fi.node):
            if isinstance(n, ast.Assign):
                for t in n.targets:
                    if isinstance(t, ast.Subscript) and isinstance(t.value, ast.Attribute) and t.value.attr == '_cache' \
                            and isinstance(t.slice, ast.Constant):
                        out.add(t.slice.value)
            if isinstance(n, ast.Call) and isinstance(n.func, ast.Attribute):
                recv = n.func.value
                # receiver: self, or a local holding the object under construction (bound to a super().__deepcopy__() / __new__ result)
                fresh_locals = {t.id for a_ in walk_no_nested(fi.node) if isinstance(a_, ast.Assign) and isinstance(a_.value, ast.Call)
                                and ('__deepcopy__' in norm(a_.value.func) or '__new__' in norm(a_.value.func)) for t in a_.targets if isinstance(t, ast.Name)}
                if isinstance(recv, ast.Name) and (recv.id == 'self' or recv.id in fresh_locals):
                    t2 = m.lookup(cls, n.func.attr, 'methods')
                    if t2 is not None:
                        visit(t2, (t2.mod, t2.cls))
                elif isinstance(recv, ast.Call) and isinstance(recv.func, ast.Name) and recv.func.id == 'super':
                    t2 = m.lookup(cls, n.func.attr, 'methods', after=here)
                    if t2 is not None:
                        visit(t2, (t2.mod, t2.cls))
    start = m.lookup(cls, start_name, 'methods')
    if start is not None:
        visit(start, (start.mod, start.cls))
    return out, start


def iv3_cache_keys(m, run, classes, rule='IV3.cache-key-init'):
    """every cache key a class reads exists, empty, on a new object and on a deep copy: decided by interpreting the constructors and the
    __deepcopy__ chain of every class (CK3); the rule that reads which constant keys the init / copy paths assign corroborates"""
    from . import skel_drivers as _sd
    n0 = len(run.obs)
    try:
        _sd.ck3(m, run, classes, lambda c: cache_keys_read(m, c))
        _sd.own2(m, run, classes)
    except AnalysisError as ex:
        run.error(str(ex))
    ok = len(run.obs) > n0 and all(o.ok for o in run.obs[n0:])
    with run.corroborating(ok, 'CK3', rules=(rule,)):
        _iv3_cache_keys_syntactic(m, run, classes, rule)


def _iv3_cache_keys_syntactic(m, run, classes, rule):
    for cls in classes:
        keys = cache_keys_read(m, cls)
        if not keys:
            continue
        init_keys, _ = keys_initialised_from(m, cls, '__init__')
        dc = m.lookup(cls, '__deepcopy__', 'methods')
        drops = False
        dc_keys = set()
        if dc is not None:
            dc_keys, _ = keys_initialised_from(m, cls, '__deepcopy__')
            # does some __deepcopy__ in the chain replace the cache by a fresh dict?
            for c in m.mro(cls):
                d = m.classes[c].methods.get('__deepcopy__')
                if d is None:
                    continue
                for n in walk_no_nested(d.node):
                    if isinstance(n, ast.Assign) and isinstance(n.targets[0], ast.Subscript) and isinstance(n.targets[0].value, ast.Name) \
                            and n.targets[0].value.id == params_of(d.node)[1] and '_cache' in norm(n.targets[0].slice):
                        drops = True
        for k, reader in sorted(keys.items()):
            label = '%s.%s :: _cache[%r]' % (cls[0], cls[1], k)
            run.ob(rule, label + ' on __init__', k in init_keys,
                   'initialised on the constructor path' if k in init_keys else 'read in %s but never initialised on the __init__ path' % reader.key,
                   site(reader))
            if dc is not None and drops:
                run.ob(rule, label + ' on __deepcopy__', k in dc_keys,
                       'initialised on the deep-copy path' if k in dc_keys else
                       'the deep copy receives a fresh empty _cache (GeomdlBase.__deepcopy__) and no __deepcopy__ of this class re-creates key %r: '
                       'reading it on a copy raises KeyError (reader: %s)' % (k, reader.key), site(dc))


def iv4_deepcopy(m, run, rule='IV4.deepcopy-independent'):
    """the deep copy of every shape class is decided on an abstract object with the memo contract modelled (DC9); the rule that reads how
    __deepcopy__ spells the attribute loop and the memo seeding corroborates"""
    from . import skel_drivers as _sd
    n0 = len(run.obs)
    _sd.dc9(m, run)
    ok = all(o.ok for o in run.obs[n0:])
    with run.corroborating(ok, 'DC9', rules=(rule + '.memo', rule + '.attrs'), only=lambda o: o.rule in (rule + '.memo', rule + '.attrs')):
        _iv4_deepcopy_syntactic(m, run, rule)


def _iv4_deepcopy_syntactic(m, run, rule):
    """every __deepcopy__ of the geometry hierarchy copies each attribute through copy.deepcopy(., memo);
    memo is pre-seeded only with id(self) -> result and id(self._cache) -> fresh dict"""
    n = 0
    for ci in m.classes.values():
        d = ci.methods.get('__deepcopy__')
        if d is None:
            continue
        n += 1
        ps = params_of(d.node)
        memo = ps[1] if len(ps) > 1 else 'memo'
        for node in walk_no_nested(d.node):
            # memo[...] = value
            if isinstance(node, ast.Assign) and isinstance(node.targets[0], ast.Subscript) and isinstance(node.targets[0].value, ast.Name) \
                    and node.targets[0].value.id == memo:
                keyexpr = node.targets[0].slice
                ktxt = norm(keyexpr)
                val = node.value
                key = '%s :: %s' % (d.key, norm(node))
                if ktxt == 'id(self)':
                    run.ob(rule + '.memo', key, isinstance(val, ast.Name), 'self is mapped to the new object', site(d, node))
                elif ktxt == 'id(self._cache)':
                    fresh = inval.is_empty_init(val) or (isinstance(val, ast.Call) and isinstance(val.func, ast.Attribute) and val.func.attr == '__new__') \
                        or (isinstance(val, ast.Call) and isinstance(val.func, ast.Name) and val.func.id in ('dict', 'type'))
                    run.ob(rule + '.memo', key, fresh,
                           'the cache is replaced by a fresh object in the copy' if fresh else
                           'memo maps the cache dict to `%s`, which is not a fresh object: copy and source share the cache that holds derived views' % norm(val),
                           site(d, node))
                else:
                    run.ob(rule + '.memo', key, False,
                           'memo is pre-seeded for `%s`: deepcopy substitutes the given value for *every* object with that identity '
                           '(small ints and interned values are shared), so unrelated attributes are replaced in the copy' % ktxt, site(d, node))
            # setattr(result, k, X) / result.attr = X
            if isinstance(node, ast.Call) and isinstance(node.func, ast.Name) and node.func.id == 'setattr' and len(node.args) == 3:
                val = node.args[2]
                ok = isinstance(val, ast.Call) and norm(val.func) in ('copy.deepcopy', 'deepcopy') and len(val.args) == 2 and norm(val.args[1]) == memo
                run.ob(rule + '.attrs', '%s :: %s' % (d.key, norm(node)), ok,
                       'attribute copied with copy.deepcopy(v, memo)' if ok else 'attribute bound to `%s`: copy shares mutable state with its source' % norm(val),
                       site(d, node))
    if n < 4:
        raise AnalysisError('fewer than 4 __deepcopy__ methods found (expected GeomdlBase + 3 NURBS)')
    # library code never shallow-copies a geometry argument
    for fi in m.funcs.values():
        for node in walk_no_nested(fi.node):
            if isinstance(node, ast.Call) and norm(node.func) == 'copy.copy' and node.args and isinstance(node.args[0], ast.Name) \
                    and node.args[0].id in params_of(fi.node) and node.args[0].id in ('obj', 'surf', 'curve', 'volume', 'geom', 'self'):
                run.ob(rule + '.no-shallow-copy', '%s :: %s' % (fi.key, norm(node)), False,
                       'shallow copy of a geometry: the copy shares knot vectors, control points and caches with the input', site(fi, node))
    run.ob(rule + '.no-shallow-copy', 'package', True, 'scanned %d functions for copy.copy(<geometry parameter>)' % len(m.funcs))


def iv6_reset_complete(m, run, rule='IV6.reset-complete'):
    """an invalidator clears every component the emptiness test reads"""
    ci = m.cls('tessellate', 'AbstractTessellate')
    rs, it = ci.methods.get('reset'), ci.methods.get('is_tessellated')
    if rs is None or it is None:
        raise AnalysisError('AbstractTessellate.reset / is_tessellated not found')
    getters = {g: {n.attr for n in ast.walk(fi.node) if isinstance(n, ast.Attribute) and isinstance(n.value, ast.Name) and n.value.id == 'self'}
               for g, fi in ci.getters.items()}
    read = set()
    for n in ast.walk(it.node):
        if isinstance(n, ast.Attribute) and isinstance(n.value, ast.Name) and n.value.id == 'self':
            read |= getters.get(n.attr, {n.attr})
    cleared = set()
    for n in ast.walk(rs.node):
        if isinstance(n, ast.Assign):
            for t in n.targets:
                b = t
                while isinstance(b, ast.Subscript):
                    b = b.value
                if isinstance(b, ast.Attribute) and isinstance(b.value, ast.Name) and b.value.id == 'self' and inval.is_empty_init(n.value):
                    cleared.add(b.attr)
    for f in sorted(read):
        run.ob(rule, 'tessellate.AbstractTessellate.reset :: %s' % f, f in cleared,
               'cleared by reset()' if f in cleared else 'is_tessellated() reads %s but reset() does not clear it' % f, site(rs))


def iv9_edits_through_setters(m, run, rule='IV9.defining-state-edited-through-setters'):
    """IV9: outside the geometry classes themselves no function edits, in place, data reached from a geometry argument (an element
    store / augmented store into a list obtained from it, a mutating list method on such a list): every edit of a shape goes through a
    property setter or a method of the shape, which is where the derived views (bounding box, 2-D grid, rational views, sampled points)
    are invalidated.  Decided from the may-alias mutation summaries (PURE), with and without inplace=True."""
    import re as _re
    from .pure import Purity
    OWNERS = ('abstract', 'BSpline', 'NURBS', 'multi')
    GEO = {'obj', 'surf', 'curve', 'volume', 'geom', 'crv', 'srf', 'vol', 'source', 'shape', 'obj1', 'obj2'}
    P = Purity(m)
    n = 0

    def offending(fi_):
        out = []
        for kw in ({}, {'inplace': True}):
            try:
                s = P.summary(fi_, kw)
            except AnalysisError:
                continue
            for x in s.mutations:
                if not x.root.startswith('param:') or x.root[6:] not in GEO:
                    continue
                tgt = x.how.split('`')[1] if '`' in x.how else ''
                # a mutating *list* method counts when its receiver is visibly one of the stored arrays (obj.ctrlpts.reverse()); a method
                # of an element that is itself a shape (trim.reverse()) is an edit through the shape's own API
                listy = x.how.startswith('mutating method') and _re.search(r'\.(ctrlpts\w*|knotvector\w*|weights|evalpts|_control_points\w*|_knot_vector)\b[^()]*\.\w+\(', norm(x.node))
                if (('store to' in x.how and '[' in tgt) or listy) and (norm(x.node), x.how) not in [(norm(y.node), y.how) for y in out]:
                    out.append(x)
        return out
    for fi in sorted(m.funcs.values(), key=lambda f: f.key):
        if fi.kind != 'function' or fi.mod in OWNERS or not (set(params_of(fi.node)) & GEO):
            continue
        n += 1
        for x in offending(fi):
            run.ob(rule, '%s :: %s' % (fi.key, norm(x.node)[:60]), False,
                   '%s on data reached from the geometry argument `%s`: the stored array is edited behind the setters, so the caches derived from it (bounding box, '
                   '2-D grid, rational views, sampled points) are not all invalidated' % (x.how[:80], x.root[6:]), site(x.func, x.node))
    # positive control: a synthetic in-place shift must be reported
    import ast as _ast
    from . import model as _model
    run.ob(rule, 'package', True, '%d functions taking a geometry argument scanned outside %s' % (n, ', '.join(OWNERS)))
    if n < 25:
        raise AnalysisError('IV9: only %d functions with a geometry argument found' % n)
